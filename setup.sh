#!/bin/sh
# offline setup: make sure hypothesis is importable by /venv/bin/python (install from the wheelhouse
# into /verif/.deps if it is not).  Nothing is fetched from a network.
HERE="$(cd "$(dirname "$0")" && pwd)"
cd "$HERE" || exit 1
if ! PYTHONPATH="$HERE/.deps" /venv/bin/python -c "import hypothesis" 2>/dev/null; then
  PIP_NO_INDEX=1 /venv/bin/pip install --no-index --find-links /opt/veriftools/wheels --target "$HERE/.deps" hypothesis || exit 1
fi
# atheris (coverage-guided phase of C18 / C20); optional: without it that phase is skipped and says so in the evidence
if ! PYTHONPATH="$HERE/.deps" /venv/bin/python -c "import atheris" 2>/dev/null; then
  PIP_NO_INDEX=1 /venv/bin/pip install --no-index --find-links /opt/veriftools/wheels --target "$HERE/.deps" atheris >/dev/null 2>&1 || echo "setup: atheris not installable, coverage-guided phase will be skipped"
fi
PYTHONPATH="/repo:$HERE/shims:$HERE/.deps" RENO_LOG_LEVEL=40 /venv/bin/python -c "import hypothesis, numpy, scipy, renormalizer, renormalizer.tn; print('setup ok', hypothesis.__version__)" || exit 1
mkdir -p "$HERE/evidence" "$HERE/out"

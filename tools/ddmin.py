#!/venv/bin/python
"""Delta-debug a replay file: drop list elements (keys given on the command line, default: terms, swaps,
prog, ops, steps) while the same failure signature persists.  usage: tools/ddmin.py C01 replay.json [keys...]
Run through ./check's environment: PYTHONPATH must contain /repo, shims and /verif."""
import copy
import json
import os
import sys

sys.path.insert(0, os.path.dirname(os.path.dirname(os.path.abspath(__file__))))
from vf.core import _load_prop, safe_run, canon  # noqa


def main():
    pid, path = sys.argv[1], sys.argv[2]
    keys = sys.argv[3:] or ["terms", "swaps", "prog", "steps"]
    doc = json.load(open(path))
    spec, sig = doc["spec"], doc.get("signature")
    prop = _load_prop(pid)

    def fails(s):
        res, herr = safe_run(prop, s)
        return any(x == sig for x, _ in res.failures) if sig else bool(res.failures)

    assert fails(spec), "does not reproduce"
    changed = True
    while changed:
        changed = False
        for k in keys:
            if k not in spec or not isinstance(spec[k], list):
                continue
            i = 0
            while i < len(spec[k]):
                cand = copy.deepcopy(spec)
                del cand[k][i]
                if fails(cand):
                    spec = cand
                    changed = True
                else:
                    i += 1
    doc["spec"] = spec
    out = path.replace(".json", ".min.json")
    json.dump(doc, open(out, "w"), indent=1)
    res, _ = safe_run(prop, spec)
    print(canon(spec))
    for s, m in res.failures:
        print(s, m[:1500])
    print("written", out)


if __name__ == "__main__":
    main()

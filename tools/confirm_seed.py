#!/venv/bin/python
"""Confirm a seeded change in a scratch worktree of /repo (never in /repo itself).

usage: tools/confirm_seed.py NAME [NAME...]     (NAME = directory under /verif/seeded)
Steps: git worktree add /tmp/vconfirm_NAME HEAD; demo.py on the unchanged tree must exit 0; apply patch.diff; demo.py must exit
non-zero; a relevant subset of the repository's tests (chosen from the touched files) must pass; worktree removed.
The outcome is written to seeded/NAME/confirm.json.
"""
import json
import os
import re
import subprocess
import sys

VERIF = os.path.dirname(os.path.dirname(os.path.abspath(__file__)))

TESTS = [
    (r"renormalizer/mps/mp\.py|renormalizer/mps/svd_qn\.py|renormalizer/mps/matrix\.py|renormalizer/mps/lib\.py",
     ["renormalizer/mps/tests/test_mp.py", "renormalizer/mps/tests/test_mps.py"]),
    (r"renormalizer/mps/mps\.py", ["renormalizer/mps/tests/test_mps.py", "renormalizer/mps/tests/test_mpdm.py::test_from_mps"]),
    (r"renormalizer/mps/mpo\.py|renormalizer/mps/symbolic_mpo\.py|bipartite",
     ["renormalizer/mps/tests/test_mpo.py -k 'not test_symbolic_mpo'"]),
    (r"renormalizer/mps/gs\.py|davidson", ["renormalizer/mps/tests/test_gs.py -k 'test_optimization or test_multistate'"]),
    (r"renormalizer/mps/mpdm\.py|thermalprop", ["renormalizer/mps/tests/test_mpdm.py::test_from_mps"]),
    (r"renormalizer/model/", ["renormalizer/model/tests", "--doctest-modules renormalizer/model/op.py renormalizer/model/basis.py"]),
    (r"renormalizer/utils/rk\.py|renormalizer/utils/configs\.py", ["renormalizer/utils/tests", "renormalizer/mps/tests/test_mp.py"]),
    (r"renormalizer/utils/", ["renormalizer/utils/tests"]),
    (r"renormalizer/lib/krylov", ["renormalizer/lib/tests/test_krylov.py"]),
    (r"renormalizer/tn/", ["renormalizer/tn/tests/test_tn.py", "renormalizer/tn/tests/test_evolve.py"]),
]
# tests that fail on the pinned tree already (baseline always_fail)
DESELECT = ["--deselect", "renormalizer/model/op.py::renormalizer.model.op.Op.split_elementary"] + \
           sum([["--deselect", f"renormalizer/model/tests/test_basis.py::test_SineDVR[op{i}]"] for i in range(2, 9)], [])


def sh(cmd, cwd=None, env=None, timeout=3600):
    p = subprocess.run(cmd, shell=True, cwd=cwd, env=env, capture_output=True, text=True, timeout=timeout)
    return p.returncode, (p.stdout + p.stderr)


def confirm(name):
    d = os.path.join(VERIF, "seeded", name)
    wt = f"/tmp/vconfirm_{name}"
    out = {"name": name}
    sh(f"git -C /repo worktree remove --force {wt}")
    rc, o = sh(f"git -C /repo worktree add -q --detach {wt} HEAD")
    assert rc == 0, o
    env = dict(os.environ, PYTHONPATH=f"{wt}:{VERIF}/shims", RENO_LOG_LEVEL="40", OMP_NUM_THREADS="1", PYTHONDONTWRITEBYTECODE="1")
    try:
        rc0, o0 = sh(f"/venv/bin/python {d}/demo.py", cwd=wt, env=env)
        out["demo_unchanged_exit"] = rc0
        rc, o = sh(f"git -C {wt} apply {d}/patch.diff")
        out["patch_applies"] = rc == 0
        if rc != 0:
            out["error"] = o[-500:]
            return out
        rc1, o1 = sh(f"/venv/bin/python {d}/demo.py", cwd=wt, env=env)
        out["demo_changed_exit"] = rc1
        out["demo_changed_tail"] = o1.strip().splitlines()[-3:]
        patch = open(os.path.join(d, "patch.diff")).read()
        tests = []
        for pat, ts in TESTS:
            if re.search(pat, patch):
                for t in ts:
                    if t not in tests:
                        tests.append(t)
        out["tests"] = {}
        for t in tests[:4]:
            # renormalizer/tn/tests/test_tn.py::test_2dof_rdm[dofs0-basis_tree0] compares two DMRG runs at atol 1e-8 and fails on the
            # UNCHANGED tree for most hash seeds (id()-based einsum index names change the contraction order); 2 is a seed it passes with
            cmd = f"PYTHONHASHSEED=2 /venv/bin/python -m pytest -q -p no:cacheprovider --timeout=1800 {' '.join(DESELECT) if 'model' in t else ''} {t}"
            rc, o = sh(cmd, cwd=wt, env=env, timeout=4000)
            tail = [l for l in o.strip().splitlines() if "passed" in l or "failed" in l or "error" in l.lower()][-1:]
            out["tests"][t] = {"exit": rc, "summary": tail}
        out["confirmed"] = bool(rc0 == 0 and rc1 != 0 and all(v["exit"] == 0 for v in out["tests"].values()))
    finally:
        sh(f"git -C /repo worktree remove --force {wt}")
    return out


if __name__ == "__main__":
    for name in sys.argv[1:]:
        res = confirm(name)
        json.dump(res, open(os.path.join(VERIF, "seeded", name, "confirm.json"), "w"), indent=1)
        print(json.dumps(res, indent=1))

#!/venv/bin/python
"""Run the registered checks against every seeded change under /verif/seeded/<name>/ (patch.diff + meta.json).

usage: tools/run_seeded.py [--tier quick|thorough] [--only NAME] [--props C01,C03] [--jobs N]
For each seeded change the patch is applied to a scratch copy of /repo's package (never to /repo itself), the check of the
property named in meta.json (plus --props, if given) is run with VERIF_REPO pointing at the copy, and the verdict
(caught / MISSED) is printed and stored in seeded/<name>/result.json.
"""
import json
import os
import shutil
import subprocess
import sys
import tempfile
from concurrent.futures import ThreadPoolExecutor

VERIF = os.path.dirname(os.path.dirname(os.path.abspath(__file__)))


def run(name, pid, tier, seed="1"):
    d = os.path.join(VERIF, "seeded", name)
    tmp = tempfile.mkdtemp(prefix="vseed_", dir="/tmp")
    try:
        dst = os.path.join(tmp, "repo")
        os.makedirs(dst)
        shutil.copytree("/repo/renormalizer", os.path.join(dst, "renormalizer"), ignore=shutil.ignore_patterns("__pycache__"))
        p = subprocess.run(["patch", "-p1", "-s", "-i", os.path.join(d, "patch.diff")], cwd=dst, capture_output=True, text=True)
        if p.returncode != 0:
            return name, pid, "APPLY-FAILED", p.stdout + p.stderr
        env = dict(os.environ, VERIF_REPO=dst, VERIF_SEED=seed)
        p = subprocess.run([os.path.join(VERIF, "check"), pid, "--tier", tier, "--no-evidence"], env=env, capture_output=True,
                           text=True, cwd=VERIF)
        out = (p.stdout + p.stderr).strip().splitlines()
        sigs = [l.strip() for l in out if l.strip().startswith("signature=")]
        status = {0: "MISSED", 1: "caught"}.get(p.returncode, f"exit{p.returncode}")
        return name, pid, status, "\n".join(sigs[:4] + out[-1:])
    finally:
        shutil.rmtree(tmp, ignore_errors=True)


def main():
    args = sys.argv[1:]
    tier, only, extra, jobs = "quick", None, [], 4
    i = 0
    while i < len(args):
        if args[i] == "--tier":
            tier = args[i + 1]; i += 2
        elif args[i] == "--only":
            only = args[i + 1]; i += 2
        elif args[i] == "--props":
            extra = args[i + 1].split(","); i += 2
        elif args[i] == "--jobs":
            jobs = int(args[i + 1]); i += 2
        else:
            i += 1
    tasks = []
    for name in sorted(os.listdir(os.path.join(VERIF, "seeded"))):
        d = os.path.join(VERIF, "seeded", name)
        if not os.path.isfile(os.path.join(d, "patch.diff")) or (only and only not in name):
            continue
        meta = json.load(open(os.path.join(d, "meta.json")))
        for pid in sorted(set([meta["property"]] + extra)):
            tasks.append((name, pid))
    with ThreadPoolExecutor(jobs) as ex:
        for name, pid, status, tail in ex.map(lambda t: run(t[0], t[1], tier), tasks):
            print(f"{status:10s} {pid} {name}")
            print("    " + tail.replace("\n", "\n    ")[:900])
            rp = os.path.join(VERIF, "seeded", name, "result.json")
            res = json.load(open(rp)) if os.path.exists(rp) else {}
            res[f"{pid}.{tier}"] = {"status": status, "detail": tail[:600]}
            json.dump(res, open(rp, "w"), indent=1)


if __name__ == "__main__":
    main()

#!/bin/bash
# usage: tools/run_tier.sh quick|thorough [IDs...]   -- runs the registered checks one after the other, prints one summary line each
cd "$(dirname "$0")/.."
tier=${1:-quick}; shift
ids=${@:-C01 C02 C03 C04 C05 C06 C07 C08 C09 C10 C11 C12 C13 C14 C15 C16 C17 C18 C19 C20}
rc=0
for c in $ids; do
  s=$(date +%s)
  ./check $c --tier $tier > out/run_${tier}_$c.log 2>&1; e=$?
  echo "$c exit=$e $(( $(date +%s) - s ))s $(grep "^\[$c\]" out/run_${tier}_$c.log | tail -1 | cut -c1-200)"
  grep '^VIOLATION\|signature=' out/run_${tier}_$c.log | head -8
  [ $e -ne 0 ] && rc=1
done
exit $rc

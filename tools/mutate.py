#!/venv/bin/python
"""Sensitivity harness: plant a mutation in a scratch copy of /repo's package and run a check on it.

usage: tools/mutate.py <mutations.json|-> [--only NAME] [--tier quick] [--jobs N]

mutations file: list of {"name":..., "props":["C01",...], "file":"renormalizer/...py",
                         "old":"<exact text, must occur exactly once>", "new":"..."}
or {"name":..., "props":[...], "patch":"path/to/patch.diff"} (applied with git apply in the copy).

For every (mutation, property) the check is run with VERIF_REPO pointing at the scratch copy and
--no-evidence; the exit code is reported (1 = caught).  Scratch copies are removed immediately.
"""
import json
import os
import shutil
import subprocess
import sys
import tempfile
from concurrent.futures import ThreadPoolExecutor

VERIF = os.path.dirname(os.path.dirname(os.path.abspath(__file__)))


def run_one(mut, pid, tier):
    tmp = tempfile.mkdtemp(prefix="vmut_", dir="/tmp")
    try:
        dst = os.path.join(tmp, "repo")
        os.makedirs(dst)
        shutil.copytree("/repo/renormalizer", os.path.join(dst, "renormalizer"),
                        ignore=shutil.ignore_patterns("__pycache__"))
        if "patch" in mut:
            p = subprocess.run(["git", "apply", "--unsafe-paths", "--directory", dst, os.path.abspath(mut["patch"])],
                               cwd=dst, capture_output=True, text=True)
            if p.returncode != 0:
                p = subprocess.run(["patch", "-p1", "-i", os.path.abspath(mut["patch"])], cwd=dst,
                                   capture_output=True, text=True)
                if p.returncode != 0:
                    return mut["name"], pid, "APPLY-FAILED", p.stdout + p.stderr
        else:
            path = os.path.join(dst, mut["file"])
            src = open(path).read()
            n = src.count(mut["old"])
            if n != 1:
                return mut["name"], pid, f"APPLY-FAILED(old occurs {n}x)", ""
            open(path, "w").write(src.replace(mut["old"], mut["new"]))
        env = dict(os.environ, VERIF_REPO=dst)
        env.setdefault("VERIF_SEED", "1")
        p = subprocess.run([os.path.join(VERIF, "check"), pid, "--tier", tier, "--no-evidence"], env=env,
                           capture_output=True, text=True, cwd=VERIF)
        tail = "\n".join((p.stdout + p.stderr).strip().splitlines()[-6:])
        return mut["name"], pid, {0: "MISSED", 1: "caught"}.get(p.returncode, f"exit{p.returncode}"), tail
    finally:
        shutil.rmtree(tmp, ignore_errors=True)


def main():
    args = sys.argv[1:]
    tier = "quick"
    only = None
    jobs = 4
    files = []
    i = 0
    while i < len(args):
        if args[i] == "--tier":
            tier = args[i + 1]; i += 2
        elif args[i] == "--only":
            only = args[i + 1]; i += 2
        elif args[i] == "--jobs":
            jobs = int(args[i + 1]); i += 2
        else:
            files.append(args[i]); i += 1
    muts = []
    for f in files:
        muts.extend(json.load(open(f)))
    tasks = [(m, p) for m in muts if only is None or only in m["name"] for p in m["props"]]
    with ThreadPoolExecutor(jobs) as ex:
        for name, pid, status, tail in ex.map(lambda t: run_one(t[0], t[1], tier), tasks):
            print(f"{status:10s} {pid} {name}")
            if status != "caught":
                print("    " + tail.replace("\n", "\n    "))


if __name__ == "__main__":
    main()

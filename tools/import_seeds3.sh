#!/bin/bash
# usage: tools/import_seeds.sh ID   -- copies /tmp/seed/work3_ID/mutN into seeded/ID_r3mN, removes the scratch worktree, confirms and runs them
id=$1
cd "$(dirname "$0")/.."
for n in 1 2 3; do
  src=/tmp/seed/work3_$id/mut$n
  [ -f $src/patch.diff ] || continue
  mkdir -p seeded/${id}_r3m$n
  cp $src/patch.diff $src/demo.py $src/meta.json seeded/${id}_r3m$n/
done
git -C /repo worktree remove --force /tmp/seed/r3_$id 2>/dev/null
rm -rf /tmp/seed/work3_$id
tools/confirm_seed.py ${id}_r3m1 ${id}_r3m2 ${id}_r3m3 2>&1 | grep '"name"\|"confirmed"\|"exit"\|error' | tr -d '\n'; echo
tools/run_seeded.py --only ${id}_r3 --jobs 3

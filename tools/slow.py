"""find slow / hanging generated cases: tools/slow.py <ID> <seed> <n> [limit_s]  (run inside tools/env.sh environment)"""
import json
import signal
import sys
import time

import hypothesis
from hypothesis import given, settings, HealthCheck, Phase

sys.path.insert(0, "/verif")
from vf.core import _load_prop, canon  # noqa

pid, seed, n = sys.argv[1], int(sys.argv[2]), int(sys.argv[3])
limit = int(sys.argv[4]) if len(sys.argv) > 4 else 30
tier = sys.argv[5] if len(sys.argv) > 5 else "quick"
prop = _load_prop(pid)


class TO(Exception):
    pass


def h(*a):
    raise TO()


signal.signal(signal.SIGALRM, h)


@hypothesis.seed(seed)
@settings(max_examples=n, database=None, deadline=None, phases=[Phase.generate], suppress_health_check=list(HealthCheck))
@given(prop.strategy(tier))
def f(case):
    t = time.time()
    signal.alarm(limit)
    try:
        prop.run_case(case)
    except TO:
        print("TIMEOUT", canon(prop.sample_view(case))[:700], flush=True)
        json.dump({"spec": case}, open(f"/tmp/slow_{pid}_{seed}.json", "w"))
    finally:
        signal.alarm(0)
    dt = time.time() - t
    if dt > 5:
        print("slow %.1f" % dt, canon(prop.sample_view(case))[:400], flush=True)


f()

# source this: environment of ./check for ad-hoc scripts
export VERIF_REPO="${VERIF_REPO:-/repo}"
export PYTHONPATH="$VERIF_REPO:/verif/shims:/verif:/verif/.deps"
export PYTHONDONTWRITEBYTECODE=1 PYTHONHASHSEED=0 RENO_LOG_LEVEL=40 OMP_NUM_THREADS=1 OPENBLAS_NUM_THREADS=1 MKL_NUM_THREADS=1

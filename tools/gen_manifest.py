#!/venv/bin/python
"""Regenerates /verif/MANIFEST.json from the table below (kept valid at all times)."""
import json
import os

VERIF = os.path.dirname(os.path.dirname(os.path.abspath(__file__)))
ALL = [f"C{i:02d}" for i in range(1, 21)]

CHECKS = {
    "C01": dict(
        category="exploration",
        text="Hypothesis-generated (model, term table, offset, swap sequence) cases over every basis kind; each table is built "
             "with all three algorithms and compared entry-wise with a dense reference assembled independently by the harness "
             "(own re-grouping of the terms, Kronecker products of BasisSet.op_mat matrices); every adjacent swap (each swap "
             "algorithm) is compared with the leg-permuted reference and with a freshly built MPO. Exploration is the right level: "
             "the input space is unbounded and the oracle is exact, so each generated case is decided.",
        design_ref="DESIGN.md §4 C01",
        note="Trusted: numpy Kronecker/dense algebra, BasisSet.op_mat for the local matrix of a site symbol (C16 checks those). "
             "Sizes <= 6 sites / <= 40 terms / dense dimension <= 2048.",
        technique="property-based testing (Hypothesis) with dense reference-model oracle and differential/metamorphic swap relation",
    ),
    "C02": dict(
        category="exploration",
        text="Generated (basis list, real term table, two independent tree topologies) cases: every tree constructor (linear, binary, "
             "general/binary/ternary MCTDH with contraction options, T3NS) and random trees with multi-basis nodes and dummy nodes as "
             "root/internal/leaf; TTNO built with both decomposition algorithms and compared with the harness dense reference "
             "(library todense with explicit and default order AND an independent numpy contraction of the raw node tensors), with "
             "the chain MPO and between the two trees; structural promises of each constructor, node ranks/shapes, labels of "
             "charge-definite operators. Constructors are also checked structurally on 7-13 basis sets; operators are generated at overall scales 1e-12 ... 1e6.",
        design_ref="DESIGN.md §4 C02",
        note="Trusted: numpy dense algebra, BasisSet.op_mat. Real operators only (TTNO asserts it); <= 6 basis sets, <= 7 nodes.",
        technique="property-based testing (Hypothesis) with dense reference oracle and topology-independence metamorphic relation",
    ),
    "C03": dict(
        category="exploration",
        text="Model-based testing over generated operation histories: a program of constructors, arithmetic (add, sub, scale, "
             "conj, to_complex, copy, operator application and products, conj_trans, contract, MpDm forms), observers and gauge "
             "moves is executed on the library objects and on a dense numpy model in lock step; every result is compared after "
             "every step and again after canonicalising / losslessly compressing a copy, together with the sector and the "
             "validity of the stored bond labels. Exploration with an exact oracle decides each generated history. normalize() in its three kinds after generated prefactors, density-operator probes (mpdm_from, apply from either side, gauge move), genuinely complex random states (a + i b), vector-valued product states.",
        design_ref="DESIGN.md §4 C03",
        note="Trusted: numpy dense algebra; todense()*coeff as the represented object. Sizes: 1-6 sites, dense dimension <= 256.",
        technique="model-based property testing (Hypothesis-generated instruction programs, dense reference model in lock step)",
    ),
    "C04": dict(
        category="exploration",
        text="Generated gauge histories (canonicalise, canonicalise(stop_idx) incl. the current centre, ensure_left/right, "
             "move_qnidx, lossless compress in three parameter styles, variational compress) applied to states, operators and "
             "density operators with redundant, rank-deficient and dimension-1 bonds produced by generated arithmetic, on chains of "
             "1-6 sites; after every step: dense object unchanged, isometry recomputed from the raw arrays, no bond grew, two "
             "opposite sweeps respect the physical bound, idempotence, compress(ret_s) equals the dense Schmidt spectra, the centre ends "
             "on the advertised stop site; variational compression of operator x state equals the dense product from a full-size guess "
             "and (label-free models) from a bond-1/2 random guess with a long unperturbed schedule.",
        design_ref="DESIGN.md §4 C04, §9.2",
        note="Trusted: numpy SVD / dense algebra. Mpo sites are scaled isometries by the library's documented norm spreading.",
        technique="model-based property testing (Hypothesis-generated gauge programs) with dense invariants and idempotence/metamorphic relations",
    ),
    "C05": dict(
        category="exploration",
        text="Generated (state, truncation configuration) pairs: criterion threshold/fixed/both, thresholds in [1e-4,0.8], global or "
             "per-bond limits 1..8 via config, max_dims list, temp_m_trunc int/list, both sweep directions; oracle = dense SVD spectra "
             "of the original state at every cut: limit obeyed, norm not increased, Eckart-Young lower bound and "
             "sequential-projection upper bound on the distance, kept counts / returned singular values / final state equal to a "
             "dense sequential-SVD replica of the same sweep when no singular value is within 1e-6 of the cut.",
        design_ref="DESIGN.md §4 C05",
        note="Trusted: numpy SVD. Chains of 3-7 sites, bond <= 16, dense dimension <= 1024; a quarter of the cases are tree states (2-7 nodes) truncated per edge with the same bounds (upper bound with the cross terms of unrelated edges).",
        technique="property-based testing (Hypothesis) against dense SVD bounds (theorems) and a dense differential replica",
    ),
    "C06": dict(
        category="exploration",
        text="Generated histories on models with one or two conserved quantum numbers: states in drawn sectors (incl. extreme ones), "
             "charged and neutral operators, arithmetic, gauge moves, truncation down to M=1 with every criterion, variational "
             "compression, ground-state optimisation (1site/2site, direct/davidson, 1-2 roots, incl. the overwritten guess) and "
             "evolution with every scheme in real and imaginary time under a conserving Hamiltonian; after every step the dense weight "
             "outside the expected sector (start sector plus operator charges) is <= 1e-9, qntot matches, and the stored bond labels "
             "are checked against the non-zero blocks of every raw tensor.",
        design_ref="DESIGN.md §4 C06",
        note="Trusted: harness projector on number-operator eigenspaces from sigmaqn; label predicate on raw arrays. Trees: label checks inside C11/C12.",
        technique="model-based property testing over generated operation histories with a sector/label invariant",
    ),
    "C07": dict(
        category="exploration",
        text="Generated (state program, operator pool, operator list, permutation) cases: expectation / transition amplitudes, the "
             "batched cached-environment fast path vs the one-by-one path vs opt=False, permutation equivariance, electronic and "
             "vibrational occupations (incl. the per-model operator cache on copies), one-/two-site and electronic RDMs, one-site, "
             "two-site, mutual and bond entropies and bond singular values are all compared with values computed from the dense "
             "state vector (or dense density operator for the MpDm form, incl. non-diagonal ones). Reduced density matrices and entropies are also checked for density operators (physical vs auxiliary index).",
        design_ref="DESIGN.md §4 C07",
        note="Trusted: numpy dense algebra/partial traces; harness dense operators from BasisSet.op_mat. 2-6 sites, dimension <= 256.",
        technique="property-based testing (Hypothesis) with dense reference oracle + differential (fast vs slow path) + permutation metamorphic relation",
    ),
    "C08": dict(
        category="exploration",
        text="Generated (model, Hermitian Hamiltonian, sector, start state, sweep schedule, 1site/2site, direct/davidson, nroots, "
             "omega, StackedMpo split) cases; exact diagonalisation of the dense Hamiltonian restricted to the sector is the oracle: "
             "every reported energy of every sweep and root is an upper bound (Cauchy interlacing), returned states are normalised, "
             "in the sector with valid labels, their energy is variational and equals Mps.expectation; the omega variant bounds "
             "min (E-omega)^2; unperturbed untruncated sweeps are monotone and the energy of the returned state lies between the minima of the "
             "last two such sweeps (local consistency: catches a state that does not belong to the reported energies); equality with exact diagonalisation is asserted where "
             "DMRG provably reaches it (two sites, two-site update) and reported as a statistic elsewhere.",
        design_ref="DESIGN.md §4 C08",
        note="Trusted: numpy eigvalsh. primme absent (direct + davidson only). Dense dimension <= 512.",
        technique="property-based testing (Hypothesis) against an exact-diagonalisation oracle (variational bound, interlacing)",
    ),
    "C09": dict(
        category="exploration",
        text="Generated (model, Hermitian Hamiltonian, initial state, step over two decades, scheme/options) cases in eight modes: "
             "TDVP-PS / PS2 / VMF / MU-VMF (all solvers and options, calls split arbitrarily) vs dense exp(-iHt) at full bond dimension; "
             "Taylor P&C of order 1-6, RK4 P&C and general-RK P&C with every tableau vs the exact algebraic replica (stability "
             "polynomial by stage recursion), also for time-dependent Hamiltonian callables vs a dense RK stepper with the same "
             "tableau; CMF variants vs the exact state within the scheme's error bound; krylov vs RK45 vs RK23; adaptive stepping "
             "within the controller's tolerance (100*rtol) and prefactor covariance of the controller (evolve(c psi) = c evolve(psi)); "
             "norm/energy conservation of one-site PS at small bond; bond limit for every scheme; input state unchanged; the returned "
             "state carries the configuration it was produced with and the caller's configuration is not re-configured (call splitting).",
        design_ref="DESIGN.md §4 C09",
        note="Trusted: numpy eigh-based exp(-iHt). ||H||=1 by scaling, ||H||dt in [0.03,3], dense dimension <= 128. CMF is only bounded "
             "(its inner sites use scipy's default rtol 1e-3 inside the library).",
        technique="property-based testing (Hypothesis) with dense-propagator oracle, exact algebraic replicas and differential (solver vs solver) relations",
    ),
    "C10": dict(
        category="exploration",
        text="Generated cases in seven modes: imaginary-time PS / PS2 / VMF (all solvers, successive calls) vs the normalised "
             "exp(-tau H) psi; Taylor / RK4 / general-RK P&C with imaginary guess_dt vs the algebraic replica (also adaptive, also MpDm); "
             "imaginary-time CMF within the scheme's bound; ThermalProp from the maximally entangled state of generated Holstein models "
             "(schemes 1-4, zero- and one-exciton) vs a dense replica with the same energy re-centring and vs canonical Gibbs averages; "
             "exact thermal propagation and the closed-form local propagator (GS/EX, real/imaginary/complex x, shift) vs the dense "
             "exponential of the documented local Hamiltonian; evolve_exact for two offsets (same result, input untouched); tree purification with auxiliary space vs a dense replica and Gibbs averages.",
        design_ref="DESIGN.md §4 C10",
        note="Trusted: numpy eigh-based exponentials, harness ladder matrices for the local Hamiltonian; dense Holstein H via Mpo.todense (C16). "
             "tau*||H|| <= 3. Tree purification: max_entangled_ex on tree.add_auxiliary_space() with a TTNO on the physical half (mode thermal_tree).",
        technique="property-based testing (Hypothesis) with dense Gibbs/propagator oracle, algebraic replicas and a metamorphic offset relation",
    ),
    "C11": dict(
        category="exploration",
        text="Model-based testing of tree states over generated topologies (1-7 nodes, multi-basis and dummy nodes, auxiliary-space "
             "trees): programs of random/product states, sums, complex superpositions, scalings, TTNO application (incl. partial "
             "operators), canonicalisation, pushes of the centre, lossless and truncating compression, norms, expectations, one- and "
             "two-body RDMs of nodes and of single degrees of freedom, entropies, mutual information, bond spectra, conversion "
             "from chain states, executed with a dense model in lock step; metamorphic twin with permuted children lists; isometry, "
             "bond bounds, label validity; truncation obeys the C05 bounds per edge. Also: states with nodes of different dtypes, norms / lossless compression of 1e-20 ... 2e5 multiples, observables around an in-place rescaling of the same object.",
        design_ref="DESIGN.md §4 C11",
        note="Trusted: numpy dense algebra / partial traces; independent raw-tensor contraction. TTNS.add with differing prefactors is outside "
             "the domain (DESIGN §3.9).",
        technique="model-based property testing (Hypothesis-generated TTNS programs, dense reference in lock step, children-permutation metamorphic twin)",
    ),
    "C12": dict(
        category="exploration",
        text="Generated (tree, real Hermitian Hamiltonian, random TTNS, scheme, step, real/imaginary time) cases in six modes: VMF / one-site "
             "PS / two-site PS at verified full bond dimension (1-4 successive calls) vs the dense propagator; P&C RK4 vs the Taylor-4 "
             "replica; norm and energy conservation of one-site PS at bond 1-3; linear tree vs the chain implementation; bond limit; "
             "optimize_ttns energies vs exact diagonalisation in the sector (variational bound, equality on two-node trees); sector, "
             "labels and input-unchanged after every call. Also: per-bond limits (max_dims), complex-typed real steps, untruncated last sweeps of the tree optimiser (energy of the returned state).",
        design_ref="DESIGN.md §4 C12",
        note="Trusted: numpy eigh-based propagators. ||H||=1, ||H||t in [0.03,2], dense dimension <= 128. Projector-splitting schemes carry "
             "their O(dt^3) splitting error in the oracle.",
        technique="property-based testing (Hypothesis) with dense-propagator / exact-diagonalisation oracle and chain-vs-tree differential relation",
    ),
    "C13": dict(
        category="exploration",
        text="History-based aliasing test: over a pool of live Mps / MpDm / Mpo objects a generated sequence of derive / observe / "
             "mutate instructions is executed (every public producing method incl. evolve with every scheme in real and imaginary "
             "time, measurements, dump, in-place scale / canonicalise / compress / normalise / tensor overwrite incl. write-through of "
             "the stored ndarray, config changes, model.mpos.clear()); all live objects are snapshotted (tensors x prefactor, qntot) "
             "before every instruction and every object but the documented in-place target must be unchanged afterwards; methods "
             "documented to return new objects must not return their input. One case in four is a tree history (TTNS / TTNO on generated "
             "trees: arithmetic, gauge moves, observers, truncation of copies, twins, four evolution schemes, in-place mutation of node "
             "tensors / labels / prefactor / normalisation) with the same invariant computed by an independent contraction of the raw node "
             "tensors, label validity and a no-shared-memory check between live states. Aliasing probes (derive by copy / conj / "
             "to_complex / scale by exactly one / conj_trans, then mutate one side at once) are injected in every history.",
        design_ref="DESIGN.md §4 C13, §9",
        note="Trusted: snapshot comparison of todense()*coeff (chains), numpy contraction of raw node tensors (trees). evolve_exact is covered in C10, OFS in C17.",
        technique="stateful property testing (generated derive/mutate/observe histories, snapshot invariant over all live objects)",
    ),
    "C14": dict(
        category="fault_enumeration",
        text="(a) Round trip: generated Mps / MpDm / Mpo / TTNS objects (real/complex, any gauge and qn centre, 1-2 quantum numbers, "
             "prefactor != 1, with and without spilling site tensors to disk) are dumped and loaded: tensors bit-identical, prefactor, "
             "qntot, qnidx, direction, labels, dtype equal, and an identical follow-up program (canonicalise, compress, expectation, one "
             "TDVP step) gives identical results. (b) Crash safety by fault enumeration: for generated job histories (a harness "
             "TdMpsJob and the real ThermalProp, 1-4 steps, dump_mps None/one/all) EVERY crash instant is enumerated - before/after each "
             "file-system call of dump_dict and four byte-truncation classes inside the write, in-process (uncatchable exception) and, "
             "in the thorough tier, by real SIGKILL under strace syscall injection - optionally followed by a restart into the "
             "left-over directory crashed again at every instant of its first two dumps; oracle: a complete loadable result of "
             "the current or previous step remains. Also: trees with 11-14 nodes, file names as pathlib.Path / without extension, other_attrs of trees, restarts into a legacy left-over directory (complete .bak + truncated file).",
        design_ref="DESIGN.md §4 C14",
        note="Crash = process death at a file-system call boundary or inside the write (no page-cache reordering model). Legacy dump "
             "formats 0.1-0.3 have no writer in the tree and are not round-tripped.",
        technique="fault injection enumerated over all crash points of generated job histories + round-trip property testing (Hypothesis)",
    ),
    "C15": dict(
        category="exploration",
        text="Generated expression programs over Op / OpSum / lists / scalars (all public operators, both operand orders, in-place add, "
             "simplify with tolerances, squeeze_identity, split_elementary, copy, invalid operands) evaluated in lock step by a harness "
             "dense evaluator; homomorphism laws, simplify bound and canonical form, eq/hash consistency on operators built by different "
             "routes, and the tie-in Mpo(model, expr).todense() == den(expr).",
        design_ref="DESIGN.md §4 C15",
        note="Trusted: harness evaluator (single-symbol local matrices, written-order products). Models of 1-4 sites.",
        technique="property-based testing (Hypothesis-generated expression programs) against a dense evaluator (homomorphism oracle)",
    ),
    "C16": dict(
        category="exploration",
        text="Every basis class x every supported symbol x generated sizes/frequencies/origins/grids (a completely enumerated grid "
             "of sizes x dvr x general_xp_power first) against defining relations computed by the harness: ladder matrices built at "
             "a larger size and truncated, products in the written order, canonical commutator, DVR/shifted-origin consistency, "
             "Gauss-Legendre quadrature of the sine basis functions, Pauli algebra, single-entry electron matrices; Holstein "
             "(schemes 1-4, periodic, different ground/excited frequencies), spin-boson and translation-invariant builders against "
             "Hamiltonians assembled from the documented physics, scheme equivalence on shared excitation sectors; Quantity units. copy() of the sine basis must reproduce grid and operator matrices.",
        design_ref="DESIGN.md §4 C16",
        note="Trusted: harness ladder algebra, numpy quadrature, CODATA constants in the harness; dense models observed through Mpo.todense (C01).",
        technique="property-based testing (Hypothesis) + enumerated grid against harness-computed defining relations and independent physics assembly",
    ),
    "C17": dict(
        category="exploration",
        text="Generated quantum-chemistry integrals (dense / sparse / block / Hubbard / one- or two-body only, scaled over decades) "
             "through int_to_h and qc_model against a harness fermion model (signed maps on occupation bit strings; the repository's "
             "H6 FCIDUMP pins the index convention); generated sequences of adjacent site swaps with and without the Jordan-Wigner "
             "sign against P H P^T resp. F H F^dagger; ground-state searches and two-site TDVP steps with every on-the-fly-swapping "
             "criterion (a spy counts the exchanges really performed) against the exact sector ground energy, the exact propagator "
             "and the same run without swapping: operator and state reordered consistently, sector / labels / norm kept, energies "
             "variational and monotone for lossless schedules. Integer-typed one-electron matrices and integral scales down to 1e-10 are generated.",
        design_ref="DESIGN.md §4 C17, §9",
        note="Trusted: harness fermion algebra on bit strings, numpy eigh/expm. <= 4 spatial orbitals (8 spin sites), <= 3 evolution steps; "
             "sharp OFS = non-OFS comparison only from verified full-bond states (else dt = 1e-6 with a rigorous bound).",
        technique="property-based testing (Hypothesis) with occupation-number fermion reference model, permutation/JW metamorphic relation and differential OFS vs non-OFS runs",
    ),
    "C18": dict(
        category="exploration",
        text="Generated Hermitian matrices with structured spectra x dt phases x start vectors (generic, in/near invariant subspaces, "
             "real start with complex A) x block sizes for expm_krylov against the dense eigendecomposition at the routine's own "
             "stopping tolerance; generated coefficient arrays with arbitrary quantum-number label patterns (empty and one-sided "
             "sectors, 1-2 components) for svd_qn (SVD/QR, both systems, full/economic), eigh_qn, select_basis and helpers against "
             "numpy SVD/eigh of the masked matrix, orthonormality, label validity, global ordering and exact restoration. The Davidson eigensolver is checked with the optimisers' own call (variational Ritz value, unit vector, Rayleigh quotient) on generated Hermitian matrices incl. exactly diagonal ones.",
        design_ref="DESIGN.md §4 C18",
        note="Trusted: numpy/LAPACK eigh and svd. Krylov dimension <= 60 (quick) / 300 (thorough).",
        technique="property-based testing (Hypothesis) with dense linear-algebra oracles (differential vs numpy/scipy) + coverage-guided fuzzing (atheris/libFuzzer) of the same strategy and oracle",
    ),
    "C20": dict(
        category="exploration",
        text="Complete enumeration of all bipartite graphs with >=1 edge on every |U|x|V| grid up to 4x4 (quick) / 5x4 (thorough), both "
             "algorithms, both neighbour orders, against the minimum cover by definition (min over subsets on bit masks) and an "
             "independent augmenting-path maximum matching (Koenig); Hypothesis-generated random graphs up to 40x40 in eleven styles; "
             "generated term tables: Mpo.bond_dims at every cut equals the minimum vertex cover of the harness-built prefix/suffix "
             "incidence graph and never exceeds the number of distinct prefixes/suffixes; a spy applies the cover test to every graph "
             "the builder submits; three-site operators with more than 65 536 distinct partial terms at a cut (bond_dims == minimum "
             "cover, todense() == the element-wise reference).",
        design_ref="DESIGN.md §4 C20",
        note="Trusted: harness bit-mask minimum cover and BFS matching (cross-validated on every enumerated graph). The finite part is exhaustive.",
        technique="exhaustive enumeration + property-based testing (Hypothesis) + coverage-guided fuzzing (atheris/libFuzzer) against an independent matching/cover oracle (Koenig's theorem)",
    ),
    "C19": dict(
        category="exploration",
        text="Complete enumeration of the finite space (10 tableaux x rows x 17 rooted trees of order <=5, row sums, "
             "stage/order attributes, constant-coefficient expansion, Taylor tables) against Butcher theory computed by the "
             "harness, plus Hypothesis-generated polynomial non-autonomous ODE systems whose exact-flow power series the RK "
             "step map must reproduce through h^p. All of it is evaluated on RungeKutta(method) and again on the tables the integrators "
             "receive, EvolveConfig(rk_solver=method, adaptive=0/1).rk_config / .taylor_config. The finite part is exhaustive, so for it exploration equals decision.",
        design_ref="DESIGN.md §4 C19",
        note="Trusted: harness implementation of elementary weights / density, advertised orders from the literature table.",
        technique="exhaustive enumeration + property-based testing (Hypothesis) vs Butcher order conditions and power-series oracle",
    ),
}

NOT_YET = "check not built yet in this session (see DESIGN.md for the planned generator/oracle)"


def main():
    checks = []
    for pid in ALL:
        c = CHECKS.get(pid)
        if c is None:
            continue
        checks.append({
            "property_id": pid,
            "quick_cmd": f"./check {pid} --tier quick",
            "thorough_cmd": f"./check {pid} --tier thorough",
            "evidence_file": f"evidence/{pid}.json",
            "replay_cmd_template": f"./check {pid} --replay {{path}}",
            "engine": "vf",
            "level_claimed": {"category": c["category"], "text": c["text"], "design_ref": c["design_ref"]},
            "level_note": c["note"],
            "technique": c["technique"],
        })
    man = {
        "version": 1,
        "setup_cmd": "./setup.sh",
        "hooks": {
            "guard": "RENORMALIZER_VERIF",
            "enable": "no source hooks are needed: the library is pure Python and is imported from /repo's working tree in a "
                      "fresh process by every check (PYTHONPATH=/repo); instrumentation (spies, fault injection) is installed "
                      "from the check process by monkey-patching. ./check exports RENORMALIZER_VERIF=1 for uniformity.",
            "baseline_off_cmd": "cd /repo && /venv/bin/python -m pytest -ra -q -p no:cacheprovider --timeout=900 "
                                "--continue-on-collection-errors",
            "source_commits": [],
            "add_only": True,
        },
        "engines": [{
            "name": "vf",
            "path": "vf/core.py",
            "serves_properties": [c["property_id"] for c in checks],
            "kind_free_text": "Hypothesis-driven generated-input search (sharded over processes, collect-then-shrink) plus "
                              "complete enumeration of finite sub-domains, against harness-side dense/algebraic oracles",
        }],
        "checks": checks,
        "not_applicable": [{"property_id": p, "reason": NOT_YET} for p in ALL if p not in CHECKS],
        "notes": "Every check: exit 0 = held (KNOWN-FINDING lines possible), 1 = VIOLATION line(s), 2 = harness error. "
                 "VERIF_SEED selects the Hypothesis seed; evidence is rewritten on every run.",
    }
    with open(os.path.join(VERIF, "MANIFEST.json"), "w") as f:
        json.dump(man, f, indent=1)
    print("checks:", [c["property_id"] for c in checks])


if __name__ == "__main__":
    main()

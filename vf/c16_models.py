"""C16 part (b): model builders, Quantity, Phonon/Mol.  References are assembled from the physics with the
harness matrices of vf/c16_util.py; the library is only asked for Model objects and their dense Hamiltonian."""
import math

import numpy as np
from hypothesis import strategies as st

from vf.core import lib_exception_sig
from vf import c16_util as U

MODEL_KINDS = {"holstein", "sbm", "ti1d", "quantity"}
DENSE_CAP = 640
TOL = 1e-9

MODEL_MATCHERS = {
    # HolsteinModel.j_constant raises ValueError("J is not constant") for a homogeneous J = 0
    "FC16a": lambda spec, sig, msg: spec.get("kind") == "holstein" and sig == "holstein.j_constant.zero",
}


def _libcall(r, sig, fn):
    try:
        return fn(), True
    except Exception as e:  # noqa
        s, in_lib = lib_exception_sig(e)
        if not in_lib:
            raise
        r.fail(f"{sig}.{s}", repr(e))
        return None, False


def _dense(r, sig, model):
    from renormalizer.mps import Mpo

    return _libcall(r, sig, lambda: np.asarray(Mpo(model, algo="Hopcroft-Karp").todense()))


def _cap_dims(dims, base, cap=DENSE_CAP):
    dims = list(dims)
    while base * int(np.prod(dims)) > cap:
        i = int(np.argmax(dims))
        if dims[i] == 1:
            break
        dims[i] -= 1
    return dims


# ------------------------------------------------------------------------------------------------
# strategies
# ------------------------------------------------------------------------------------------------
WG = [0.5, 1.0, 1.7, 0.02, 0.004556]
DIS = [0.0, 0.5, -1.2, 2.0, 7.5]
EUNITS = ["a.u.", "a.u.", "eV", "meV", "cm-1"]


@st.composite
def holstein_cases(draw, tier):
    nmol = draw(st.sampled_from([1, 2, 2, 3, 3, 4]))
    mols = []
    dims = []
    wunit = draw(st.sampled_from(["a.u.", "a.u.", "cm-1"]))
    for i in range(nmol):
        nmode = draw(st.sampled_from([1, 2]))
        modes = []
        for _ in range(nmode):
            wg = draw(st.sampled_from(WG))
            if wunit == "cm-1":
                wg = round(wg * 2000, 6)
            ratio = draw(st.sampled_from([1.0, 1.0, 0.7, 1.25, 1.002]))
            modes.append([wg, round(wg * ratio, 9), draw(st.sampled_from(DIS))])
            dims.append(draw(st.sampled_from([1, 2, 3, 4])))
        mols.append({"e": draw(st.sampled_from([0.0, 0.1, 2.5, -0.3])), "modes": modes})
    dims = _cap_dims(dims, 2 ** nmol)
    k = 0
    for m in mols:
        for mode in m["modes"]:
            mode.append(dims[k])
            k += 1
    spec = {"kind": "holstein", "mols": mols, "eunit": draw(st.sampled_from(EUNITS)),
            "wunit": wunit,
            "same_mol": draw(st.integers(0, 4)) == 0, "simple_ctor": draw(st.booleans()),
            "primary": draw(st.integers(1, 4)), "switch_to": draw(st.integers(1, 4))}
    if draw(st.booleans()):
        spec["jtype"] = "Q"
        spec["jval"] = draw(st.sampled_from([0.1, -0.3, 1.0, 0.0, 0.05]))
        spec["junit"] = draw(st.sampled_from(EUNITS))
        spec["periodic"] = draw(st.booleans())
    else:
        spec["jtype"] = "M"
        style = draw(st.sampled_from(["sym", "sym", "const", "nonsym"]))
        vals = st.sampled_from([0.0, 0.1, -0.3, 0.7, 0.05])
        J = [[0.0] * nmol for _ in range(nmol)]
        c = draw(st.sampled_from([0.1, -0.3]))
        for i in range(nmol):
            for j in range(i + 1, nmol):
                if style == "const":
                    J[i][j] = J[j][i] = c
                else:
                    J[i][j] = draw(vals)
                    J[j][i] = J[i][j] if style == "sym" else draw(vals)
        spec["jmat"] = J
        spec["jstyle"] = style
        spec["periodic"] = bool(nmol >= 2 and J[0][-1] != 0 and J[-1][0] != 0 and draw(st.booleans()))
    return spec


@st.composite
def sbm_cases(draw, tier):
    nmode = draw(st.integers(0, 5))
    dims = _cap_dims([draw(st.integers(1, 5)) for _ in range(nmode)], 2)
    modes = [[draw(st.sampled_from(WG + [3.0])), draw(st.sampled_from(DIS + [-0.4])), dims[i]] for i in range(nmode)]
    eps, delta = draw(st.sampled_from([0.0, 1.0, -0.4, 0.02])), draw(st.sampled_from([1.0, 0.3, 0.0, -2.0]))
    if not modes and eps == 0 and delta == 0:
        delta = 1.0  # an identically zero Hamiltonian is refused by Mpo ("Terms contain nothing")
    return {"kind": "sbm", "eps": eps, "delta": delta,
            "unit": draw(st.sampled_from(EUNITS)), "modes": modes, "simple_ctor": draw(st.booleans())}


TI_SINGLE = {
    "elec": [r"a^\dagger a"],
    "spin": ["X", "Z", "sigma_z", "sigma_x", "iY", "+", "-", "sigma_+", "sigma_-"],
    "sho": ["x", "x^2", "p^2", r"b^\dagger b", r"b^\dagger + b", "n", "dx^2", "x^3"],
    "hops": [r"\tilde{b}^\dagger", r"\tilde{b}", r"b^\dagger b"],
    "mvac": [],
}
TI_PAIR = {
    "elec": [(r"a^\dagger", "a")],
    "spin": [(a, b) for a in ["X", "Z", "+", "-", "iY", "sigma_z"] for b in ["X", "Z", "+", "-", "sigma_x"]],
    "sho": [("x", "x"), (r"b^\dagger", "b"), ("b", r"b^\dagger"), ("b", "b"), (r"b^\dagger", r"b^\dagger"), ("dx", "dx")],
    "mvac": [(r"a^\dagger", "a")],
}


@st.composite
def ti1d_cases(draw, tier):
    ns = draw(st.sampled_from([1, 2, 2, 3]))
    ncell = draw(st.sampled_from([1, 2, 3, 3, 4]))
    kinds = ["elec", "spin", "sho", "sho", "hops", "mvac"]
    sites = []
    for _ in range(ns):
        k = draw(st.sampled_from(kinds))
        s = {"k": k}
        if k == "sho":
            s.update(omega=draw(st.sampled_from([0.5, 1.0, 1.7])), nbas=draw(st.integers(1, 3)), x0=draw(st.sampled_from([0.0, 0.0, 0.6])))
        elif k == "hops":
            s.update(nbas=draw(st.integers(1, 3)))
        elif k == "mvac":
            s.update(n=draw(st.integers(1, 2)))
        sites.append(s)

    def sdim(s):
        return {"elec": 2, "spin": 2}.get(s["k"], s.get("nbas", s.get("n", 0) + 1))

    while int(np.prod([sdim(s) for s in sites])) ** ncell > DENSE_CAP:
        if ncell > 1:
            ncell -= 1
        else:
            sites.pop()
    ns = len(sites)
    coef = st.sampled_from([1.0, -0.5, 0.3, 2.0, -1.7])

    def pick(site, offsets):
        s = sites[site]
        k = s["k"]
        pair_ok = k in TI_PAIR and (k != "sho" or s["x0"] == 0.0 or True)
        if (k == "mvac") or (pair_ok and draw(st.booleans())):
            a, b = draw(st.sampled_from(TI_PAIR[k]))
            sub = [draw(st.integers(0, s["n"] - 1)), draw(st.integers(0, s["n"] - 1))] if k == "mvac" else [0, 0]
            if offsets is None:
                return [[0, site, a, sub[0]], [0, site, b, sub[1]]]
            return [[draw(offsets), site, a, sub[0]], [draw(offsets), site, b, sub[1]]]
        w = draw(st.sampled_from(TI_SINGLE[k]))
        return [[0 if offsets is None else draw(offsets), site, w, 0]]

    def term(offsets):
        npick = draw(st.integers(1, min(2, ns)))
        chosen = draw(st.permutations(list(range(ns))))[:npick]
        ops = []
        for site in chosen:
            ops.extend(pick(site, offsets))
        if len(chosen) == 2 and len(ops) >= 3 and ops[0][1] == ops[1][1] and draw(st.booleans()):
            # interleave another site between the two factors of a pair (written order on each site is kept)
            ops = [ops[0]] + ops[2:] + [ops[1]]
        return {"c": draw(coef), "ops": ops}

    offs = st.integers(-2, ncell + 2)
    local = [term(None) for _ in range(draw(st.integers(0, 3)))]
    nonlocal_ = [term(offs) for _ in range(draw(st.integers(0 if local else 1, 3)))]
    return {"kind": "ti1d", "sites": sites, "ncell": ncell, "names": draw(st.integers(0, 2)), "local": local, "nonlocal": nonlocal_}


UNITS = sorted(U.UNIT_RATIO)


@st.composite
def quantity_cases(draw, tier):
    val = draw(st.sampled_from([0.0, 1.0, 300.0, 0.5, -2.0, 1e-3, 12345.6])) if draw(st.booleans()) else round(draw(st.floats(-1e4, 1e4, allow_nan=False)), 4)
    return {"kind": "quantity", "value": val, "unit": draw(st.sampled_from(UNITS)), "unit2": draw(st.sampled_from(UNITS)),
            "other": round(draw(st.floats(-100, 100, allow_nan=False)), 4), "ounit": draw(st.sampled_from(UNITS)),
            "scalar": draw(st.sampled_from([2.0, -0.5, 3, 1e-3]))}


def model_strategy(tier):
    return st.integers(0, 9).flatmap(lambda k: holstein_cases(tier) if k < 4 else sbm_cases(tier) if k < 6 else
                                     ti1d_cases(tier) if k < 9 else quantity_cases(tier))


def model_finite_cases(tier):
    out = []
    for u in UNITS:
        for v in (0.0, 1.0, 300.0):
            out.append({"kind": "quantity", "value": v, "unit": u, "unit2": "eV", "other": 2.0, "ounit": "cm-1", "scalar": 2.0})
    # the in-repo TI1D usage (test_spectral_function) with 3 cells, and a wrap-around variant
    for ncell, off in ((3, 1), (2, 3), (1, 1), (3, -1)):
        out.append({"kind": "ti1d", "ncell": ncell, "names": 0,
                    "sites": [{"k": "elec"}, {"k": "sho", "omega": 1.0, "nbas": 2, "x0": 0.0}],
                    "local": [{"c": 1.0, "ops": [[0, 0, r"a^\dagger a", 0]]}, {"c": 1.0, "ops": [[0, 1, r"b^\dagger b", 0]]},
                              {"c": -0.7, "ops": [[0, 0, r"a^\dagger a", 0], [0, 1, r"b^\dagger + b", 0]]}],
                    "nonlocal": [{"c": 1.0, "ops": [[0, 0, r"a^\dagger", 0], [off, 0, "a", 0]]},
                                 {"c": 1.0, "ops": [[off, 0, r"a^\dagger", 0], [0, 0, "a", 0]]}]})
    for scheme in (1, 2, 3, 4):
        for periodic in (False, True):
            out.append({"kind": "holstein", "eunit": "eV", "wunit": "cm-1", "same_mol": True, "simple_ctor": True, "primary": scheme,
                        "switch_to": 5 - scheme, "jtype": "Q", "jval": -0.1, "junit": "eV", "periodic": periodic,
                        "mols": [{"e": 2.0, "modes": [[1000.0, 1000.0, 6.0, 2]]}] * 3})
            out.append({"kind": "holstein", "eunit": "a.u.", "wunit": "a.u.", "same_mol": False, "simple_ctor": False, "primary": scheme,
                        "switch_to": 1 + scheme % 4, "jtype": "Q", "jval": 0.3, "junit": "a.u.", "periodic": periodic,
                        "mols": [{"e": 0.2, "modes": [[1.0, 1.3, 0.8, 3]]}, {"e": -0.1, "modes": [[0.5, 0.5, -1.0, 2], [1.7, 1.2, 0.4, 2]]}]})
    return out


def model_view(spec):
    k = spec["kind"]
    if k == "holstein":
        return {"kind": k, "nmol": len(spec["mols"]), "modes": [[m[:] for m in mol["modes"]] for mol in spec["mols"]][:2],
                "j": spec.get("jmat", [spec.get("jval"), spec.get("junit")]), "periodic": spec["periodic"], "primary": spec["primary"]}
    if k == "ti1d":
        return {"kind": k, "sites": [s["k"] for s in spec["sites"]], "ncell": spec["ncell"], "local": spec["local"][:2], "nonlocal": spec["nonlocal"][:2]}
    return spec


# ------------------------------------------------------------------------------------------------
# interpreters
# ------------------------------------------------------------------------------------------------

def run_model(spec, r):
    return {"holstein": run_holstein, "sbm": run_sbm, "ti1d": run_ti1d, "quantity": run_quantity}[spec["kind"]](spec, r)


def _au(v, unit):
    from renormalizer.utils import Quantity

    return Quantity(v, unit).as_au()


def run_holstein(spec, r):
    from renormalizer.model import HolsteinModel, Mol, Phonon
    from renormalizer.utils import Quantity

    mols = spec["mols"]
    nmol = len(mols)
    eu, wu = spec["eunit"], spec["wunit"]
    if spec.get("same_mol") and 2 ** nmol * int(np.prod([m[3] for m in mols[0]["modes"]])) ** nmol <= DENSE_CAP:
        mols = [mols[0]] * nmol  # identical molecules: the callers' `[Mol(...)] * n` idiom (one shared object)
        r.classes.append("holstein.same_mol")
    r.nontrivial = nmol >= 2
    r.classes += [f"holstein.nmol{nmol}", f"holstein.j{spec['jtype']}", f"holstein.periodic{int(spec['periodic'])}",
                  f"holstein.primary{spec['primary']}"]
    # ---- library objects ------------------------------------------------------------------------
    def build_mols():
        out = []
        for m in mols:
            if out and m is mols[0]:
                out.append(out[0])
                continue
            phs = []
            for wg, we, d, n in m["modes"]:
                if wg == we and spec["simple_ctor"]:
                    phs.append(Phonon.simple_phonon(Quantity(wg, wu), Quantity(d), n))
                else:
                    phs.append(Phonon([Quantity(wg, wu), Quantity(we, wu)], [Quantity(0), Quantity(d)], n))
            mol = Mol(Quantity(m["e"], eu), phs)
            out.append(mol)
        return out

    mol_list, ok = _libcall(r, "holstein.mol", build_mols)
    if not ok:
        return r
    if spec["jtype"] == "Q":
        jarg = Quantity(spec["jval"], spec["junit"])
        jau = _au(spec["jval"], spec["junit"])
        J = np.zeros((nmol, nmol))
        for i in range(nmol):
            for j in range(nmol):
                dist = (i - j) % nmol
                if i != j and (abs(i - j) == 1 or (spec["periodic"] and dist in (1, nmol - 1))):
                    J[i, j] = jau
    else:
        J = np.array(spec["jmat"], dtype=float).reshape(nmol, nmol)
        jarg = J.copy()
    # physical parameters in a.u.
    par = []
    for m in mols:
        par.append((_au(m["e"], eu), [(_au(wg, wu), _au(we, wu), d, n) for wg, we, d, n in m["modes"]]))
    differ = any(wg != we for _, ms in par for wg, we, _, _ in ms)
    if differ:
        r.classes.append("holstein.we!=wg")
    # ---- Phonon / Mol documented attributes --------------------------------------------------------
    zpe = 0.0
    for mol, (e, ms) in zip(mol_list, par):
        lam_tot = 0.0
        for ph, (wg, we, d, n) in zip(mol.ph_list, ms):
            lam = 0.5 * d ** 2 * we ** 2
            lam_tot += lam
            zpe += wg / 2
            r.check_close("phonon.reorganization_energy", [ph.reorganization_energy.as_au(), ph.e0.as_au()], [lam, lam], 1e-13 * max(lam, 1e-300) + 1e-300, "lambda = d^2 w_e^2/2")
            r.check_close("phonon.coupling_constant", ph.coupling_constant, math.sqrt(lam / wg), 1e-13 * max(1.0, math.sqrt(lam / wg)), "g = sqrt(lambda/w)")
            r.check("phonon.attrs", ph.is_simple == (wg == we) and ph.nlevels == n and ph.pbond == n and ph.n_phys_dim == n
                    and ph.omega == [wg, we] and ph.dis == [0.0, d], f"omega {ph.omega} dis {ph.dis} n {ph.n_phys_dim}")
        r.check_close("mol.energies", [mol.e0, mol.reorganization_energy, mol.gs_zpe, mol.ex_zpe, mol.elocalex],
                      [lam_tot, lam_tot, sum(m[0] for m in ms) / 2, sum(m[1] for m in ms) / 2, e],
                      1e-13 * max(1.0, lam_tot, abs(e)), "Mol e0/gs_zpe/ex_zpe/elocalex")
    # ---- the four schemes --------------------------------------------------------------------------
    dense = {}
    layouts = {}
    models = {}
    scale_all = 1.0
    for scheme in (1, 2, 3, 4):
        model, ok = _libcall(r, f"holstein.construct", lambda: HolsteinModel(mol_list, jarg.copy() if isinstance(jarg, np.ndarray) else jarg,
                                                                             scheme=scheme, periodic=spec["periodic"]))
        if not ok:
            continue
        models[scheme] = model
        lay = _holstein_layout(model)
        layouts[scheme] = lay
        # documented arrangement
        want = []
        for i, (e, ms) in enumerate(par):
            if scheme < 4:
                want.append(("e", i, 2))
            for k, (wg, we, d, n) in enumerate(ms):
                want.append(("ph", (i, k), n))
        if scheme < 4:
            r.check("holstein.layout.scheme123", lay == want, f"basis arrangement {lay} != documented {want}")
        else:
            ph_only = [x for x in lay if x[0] == "ph"]
            es = [x for x in lay if x[0] == "E"]
            r.check("holstein.layout.scheme4", ph_only == want and len(es) == 1 and es[0][1] == tuple(range(nmol)) and es[0][2] == nmol + 1,
                    f"scheme-4 arrangement {lay}")
        if not _layout_ok(lay, par):
            r.fail("holstein.layout.unusable", f"scheme {scheme}: {lay}")
            continue
        okb = all(abs(b.omega - par[b.dof[0]][1][b.dof[1]][0]) <= 1e-15 and b.x0 == 0 for b in model.basis if b.is_phonon)
        r.check("holstein.basis_frequency", okb, "phonon basis uses the ground-state frequency and origin 0")
        H, ok = _dense(r, f"holstein.mpo", model)
        if not ok:
            continue
        ref, scale = _holstein_reference(lay, par, J)
        scale_all = max(scale_all, scale)
        dense[scheme] = H
        r.check_close("holstein.dense.scheme4" if scheme == 4 else "holstein.dense.scheme123", H, ref, TOL * scale,
                      f"Mpo(HolsteinModel(scheme={scheme})).todense() vs Hamiltonian assembled from the physics")
        r.check("holstein.mol_num", model.mol_num == nmol and len(model) == nmol and model.scheme == scheme, "mol_num/len/scheme")
        r.check_close("holstein.gs_zpe", model.gs_zpe, zpe, 1e-13 * max(zpe, 1e-300), "gs_zpe = sum w_g/2")
        r.check_close("holstein.j_matrix", np.asarray(model.j_matrix, dtype=float) * (1 - np.eye(nmol)), J, 1e-15 * max(1.0, np.abs(J).max()), "j_matrix attribute")
    # ---- schemes agree: embedding + sector spectra ------------------------------------------------------
    if 4 in dense:
        k4, i4 = _sector_keys(layouts[4], par)
        hermitian = np.allclose(J, J.T)
        for s in (1, 2, 3):
            if s not in dense:
                continue
            ks, isel = _sector_keys(layouts[s], par)
            o4, os_ = np.argsort(k4), np.argsort(ks)
            if not np.array_equal(k4[o4], ks[os_]):
                r.fail("harness.embedding", "sector labels differ")
                continue
            a = dense[4][np.ix_(i4[o4], i4[o4])]
            b = dense[s][np.ix_(isel[os_], isel[os_])]
            r.check_close("holstein.scheme_embedding", b, a, TOL * scale_all, f"scheme {s} restricted to <=1 exciton vs scheme 4")
            if hermitian:
                for nex in (0, 1):
                    sel4 = i4[_nex(k4, par) == nex]
                    sels = isel[_nex(ks, par) == nex]
                    ea = np.linalg.eigvalsh(dense[4][np.ix_(sel4, sel4)])
                    eb = np.linalg.eigvalsh(dense[s][np.ix_(sels, sels)])
                    r.check_close(f"holstein.sector_spectrum", eb, ea, 10 * TOL * scale_all, f"{nex}-exciton spectrum scheme {s} vs 4")
        r.classes.append("holstein.scheme4_vs_123")
    # ---- docstring (second-quantised) form when w_e == w_g ------------------------------------------------
    p = spec["primary"]
    if not differ and p in dense:
        ref2, scale2 = _holstein_docstring_form(layouts[p], par, J)
        D = dense[p].shape[0]
        r.check_close("holstein.docstring_form", dense[p] - zpe * np.eye(D), ref2, TOL * max(scale2, zpe),
                      "H - gs_zpe vs sum J a^dag a + w b^dag b + g w a^dag a (b^dag+b), J_ii = elocalex+lambda, g = -d sqrt(w/2)")
    # ---- switch_scheme ------------------------------------------------------------------------------------
    t = spec["switch_to"]
    if p in models and t in dense:
        sw, ok = _libcall(r, "holstein.switch_scheme", lambda: models[p].switch_scheme(t))
        if ok:
            r.check("holstein.switch_scheme.attrs", isinstance(sw, HolsteinModel) and sw.scheme == t and _holstein_layout(sw) == layouts[t],
                    f"switch_scheme({t}) gives scheme {getattr(sw, 'scheme', None)}")
            Hs, ok = _dense(r, "holstein.switch_scheme.mpo", sw)
            if ok:
                r.check_close("holstein.switch_scheme", Hs, dense[t], 1e-12 * scale_all, f"switch_scheme({p}->{t}) vs direct construction")
    # ---- j_constant -----------------------------------------------------------------------------------------
    if p in models and nmol >= 2:
        off = J[~np.eye(nmol, dtype=bool)]
        nz = set(off[off != 0].tolist())
        m = models[p]
        if len(nz) == 1:
            val, ok = _libcall(r, "holstein.j_constant", lambda: m.j_constant)
            if ok:
                r.check_close("holstein.j_constant", val, nz.pop(), 0.0, "j_constant")
            r.classes.append("holstein.j_constant.const")
        elif len(nz) == 0:
            r.classes.append("holstein.j_constant.zero")
            try:
                val = m.j_constant
                r.check_close("holstein.j_constant.zero", val, 0.0, 0.0, "j_constant of J=0")
            except ValueError as e:
                r.fail("holstein.j_constant.zero", f"homogeneous J=0 is a constant, but j_constant raised {e!r}")
            except Exception as e:  # noqa
                s, in_lib = lib_exception_sig(e)
                if not in_lib:
                    raise
                r.fail(f"holstein.j_constant.zero.{s}", repr(e))
        else:
            r.classes.append("holstein.j_constant.nonconst")
            try:
                val = m.j_constant
                r.fail("holstein.j_constant.no_error", f"J has values {sorted(nz)} but j_constant returned {val}")
            except ValueError:
                r.subchecks += 1
            except Exception as e:  # noqa
                s, in_lib = lib_exception_sig(e)
                if not in_lib:
                    raise
                r.fail(f"holstein.j_constant.{s}", repr(e))
    return r


def _holstein_layout(model):
    lay = []
    for b in model.basis:
        if b.is_electron and b.multi_dof:
            lay.append(("E", tuple(b.dofs), b.nbas))
        elif b.is_electron:
            lay.append(("e", b.dof, b.nbas))
        else:
            lay.append(("ph", b.dof, b.nbas))
    return lay


def _layout_ok(lay, par):
    nmol = len(par)
    phs = sorted(x[1] for x in lay if x[0] == "ph")
    want = sorted((i, k) for i, (e, ms) in enumerate(par) for k in range(len(ms)))
    if phs != want:
        return False
    for x in lay:
        if x[0] == "ph" and x[2] != par[x[1][0]][1][x[1][1]][3]:
            return False
    es = [x for x in lay if x[0] == "e"]
    E = [x for x in lay if x[0] == "E"]
    if E:
        return len(E) == 1 and not es and E[0][1] == tuple(range(nmol)) and E[0][2] == nmol + 1
    return sorted(x[1] for x in es) == list(range(nmol)) and all(x[2] == 2 for x in es)


def _elec_ops(lay, nmol):
    """number operators and hopping operators as {site: matrix} dictionaries"""
    E = [i for i, x in enumerate(lay) if x[0] == "E"]
    if E:
        s = E[0]
        num = [{s: U.unit(nmol + 1, i + 1, i + 1)} for i in range(nmol)]
        hop = {(i, j): {s: U.unit(nmol + 1, i + 1, j + 1)} for i in range(nmol) for j in range(nmol) if i != j}
    else:
        pos = {x[1]: i for i, x in enumerate(lay) if x[0] == "e"}
        num = [{pos[i]: U.unit(2, 1, 1)} for i in range(nmol)]
        hop = {(i, j): {pos[i]: U.unit(2, 1, 0), pos[j]: U.unit(2, 0, 1)} for i in range(nmol) for j in range(nmol) if i != j}
    return num, hop


def _holstein_reference(lay, par, J):
    nmol = len(par)
    dims = [x[2] for x in lay]
    num, hop = _elec_ops(lay, nmol)
    phpos = {x[1]: i for i, x in enumerate(lay) if x[0] == "ph"}
    terms = []
    for i, (e, ms) in enumerate(par):
        terms.append((e, num[i]))
        for k, (wg, we, d, n) in enumerate(ms):
            ref = U.ShoRef(n, wg, 0.0, extra=4)
            M = ref.M
            x, p = ref.x, ref.p
            vg = 0.5 * wg ** 2 * (x @ x)
            ve = 0.5 * we ** 2 * ((x - d * np.eye(M)) @ (x - d * np.eye(M)))
            h0 = (0.5 * (p @ p) + vg)[:n, :n]
            dv = (ve - vg)[:n, :n]
            s = phpos[(i, k)]
            terms.append((1.0, {s: h0}))
            t = dict(num[i])
            t[s] = dv
            terms.append((1.0, t))
    for (i, j), mats in hop.items():
        terms.append((J[i, j], mats))
    return U.assemble(dims, terms)


def _holstein_docstring_form(lay, par, J):
    nmol = len(par)
    dims = [x[2] for x in lay]
    num, hop = _elec_ops(lay, nmol)
    phpos = {x[1]: i for i, x in enumerate(lay) if x[0] == "ph"}
    terms = []
    for i, (e, ms) in enumerate(par):
        lam = sum(0.5 * d ** 2 * we ** 2 for wg, we, d, n in ms)
        terms.append((e + lam, num[i]))
        for k, (wg, we, d, n) in enumerate(ms):
            b = np.diag(np.sqrt(np.arange(1, n)), 1) if n > 1 else np.zeros((1, 1))
            s = phpos[(i, k)]
            terms.append((wg, {s: b.T @ b}))
            g = -d * math.sqrt(wg / 2)
            t = dict(num[i])
            t[s] = b + b.T
            terms.append((g * wg, t))
    for (i, j), mats in hop.items():
        terms.append((J[i, j], mats))
    return U.assemble(dims, terms)


def _sector_keys(lay, par):
    """for every basis state with <=1 exciton: canonical key (electronic state, phonon occupations) and its flat index"""
    nmol = len(par)
    dims = [x[2] for x in lay]
    idx = np.indices(dims).reshape(len(dims), -1)
    phorder = [(i, k) for i, (e, ms) in enumerate(par) for k in range(len(ms))]
    phdims = [par[i][1][k][3] for i, k in phorder]
    phpos = {x[1]: s for s, x in enumerate(lay) if x[0] == "ph"}
    E = [s for s, x in enumerate(lay) if x[0] == "E"]
    if E:
        est = idx[E[0]]
        valid = np.ones(idx.shape[1], dtype=bool)
    else:
        pos = {x[1]: s for s, x in enumerate(lay) if x[0] == "e"}
        occ = np.array([idx[pos[i]] for i in range(nmol)])
        valid = occ.sum(axis=0) <= 1
        est = (occ * (np.arange(nmol)[:, None] + 1)).sum(axis=0)
    key = est.copy()
    for (i, k), d in zip(phorder, phdims):
        key = key * d + idx[phpos[(i, k)]]
    flat = np.arange(idx.shape[1])
    return key[valid], flat[valid]


def _nex(keys, par):
    tot = int(np.prod([n for e, ms in par for (_, _, _, n) in ms]))
    return (keys // tot > 0).astype(int)


# ------------------------------------------------------------------------------------------------

def run_sbm(spec, r):
    from renormalizer.model import SpinBosonModel, Phonon
    from renormalizer.utils import Quantity

    modes = spec["modes"]
    r.nontrivial = len(modes) >= 1
    r.classes.append(f"sbm.modes{len(modes)}")
    u = spec["unit"]

    def build():
        phs = []
        for w, d, n in modes:
            if spec["simple_ctor"]:
                phs.append(Phonon.simple_phonon(Quantity(w), Quantity(d), n))
            else:
                phs.append(Phonon([Quantity(w), Quantity(w)], [Quantity(0), Quantity(d)], n))
        return SpinBosonModel(Quantity(spec["eps"], u), Quantity(spec["delta"], u), phs)

    model, ok = _libcall(r, "sbm.construct", build)
    if not ok:
        return r
    eps, delta = _au(spec["eps"], u), _au(spec["delta"], u)
    lay = [(type(b).__name__, b.dof, b.nbas) for b in model.basis]
    want = [("BasisHalfSpin", "spin", 2)] + [("BasisSHO", i, n) for i, (w, d, n) in enumerate(modes)]
    if not r.check("sbm.layout", lay == want, f"basis {lay} != {want}"):
        return r
    H, ok = _dense(r, "sbm.mpo", model)
    if not ok:
        return r
    dims = [2] + [n for w, d, n in modes]
    best = None
    for sign in (-1.0, 1.0):
        terms = [(eps, {0: U.PZ}), (delta, {0: U.PX})]
        for i, (w, d, n) in enumerate(modes):
            ref = U.ShoRef(n, w, 0.0, extra=4)
            h0 = (0.5 * (ref.p @ ref.p) + 0.5 * w ** 2 * (ref.x @ ref.x))[:n, :n]
            terms.append((1.0, {i + 1: h0}))
            terms.append((sign * w ** 2 * d, {0: U.PZ, i + 1: ref.x[:n, :n]}))
        refH, scale = U.assemble(dims, terms)
        err = float(np.max(np.abs(H - refH))) if H.shape == refH.shape else float("inf")
        if best is None or err < best[0]:
            best = (err, refH, scale)
    r.check_close("sbm.dense", H, best[1], TOL * max(best[2], 1e-300), "eps sz + delta sx + sum (p^2+w^2 q^2)/2 + sz sum c q, |c| = w^2|d|")
    r.check_close("sbm.attrs", [model.epsilon, model.delta], [eps, delta], 0.0, "epsilon/delta attributes in a.u.")
    return r


# ------------------------------------------------------------------------------------------------

def _ti_names(spec):
    style = spec["names"]
    names = []
    for i, s in enumerate(spec["sites"]):
        base = [f"d{i}", i, ("u", i)][style]
        if s["k"] == "mvac":
            names.append([[f"d{i}_{j}", 100 * (i + 1) + j, ("u", i, j)][style] for j in range(s["n"])])
        else:
            names.append(base)
    return names


def _ti_basis(spec, names):
    from renormalizer.model import basis as B

    out = []
    for s, nm in zip(spec["sites"], names):
        k = s["k"]
        if k == "elec":
            out.append(B.BasisSimpleElectron(nm))
        elif k == "spin":
            out.append(B.BasisHalfSpin(nm))
        elif k == "sho":
            out.append(B.BasisSHO(nm, s["omega"], s["nbas"], x0=s["x0"]))
        elif k == "hops":
            out.append(B.BasisHopsBoson(nm, s["nbas"]))
        elif k == "mvac":
            out.append(B.BasisMultiElectronVac(nm))
    return out


def _ti_site_matrix(s, seq):
    """matrix of a word sequence [(word, sub)] on one site, product in the written order"""
    k = s["k"]
    if k == "sho":
        ref = U.ShoRef(s["nbas"], s["omega"], s["x0"], extra=6)
        m, _ = ref.symbol(" ".join(w for w, _ in seq))
        return m
    if k == "elec":
        d, tab = 2, U.ELEC
    elif k == "spin":
        d, tab = 2, U.SPIN
    elif k == "hops":
        n = s["nbas"]
        up = np.zeros((n, n))
        dn = np.zeros((n, n))
        for i in range(n - 1):
            up[i + 1, i] = i + 1
            dn[i, i + 1] = 1.0
        d, tab = n, {r"\tilde{b}^\dagger": up, r"\tilde{b}": dn, r"b^\dagger b": np.diag(np.arange(n) * 1.0), "I": np.eye(n)}
    out = None
    for w, sub in seq:
        if k == "mvac":
            n = s["n"]
            m = U.unit(n + 1, sub + 1, 0) if w == r"a^\dagger" else U.unit(n + 1, 0, sub + 1)
        else:
            m = tab[w]
        out = m if out is None else out @ m
    return out


def run_ti1d(spec, r):
    from renormalizer.model import TI1DModel, Op

    sites = spec["sites"]
    ns, ncell = len(sites), spec["ncell"]
    names = _ti_names(spec)
    wrap = any(o[0] < 0 or o[0] >= ncell for t in spec["nonlocal"] for o in t["ops"])
    r.nontrivial = ncell >= 2 or wrap
    r.classes += [f"ti1d.ncell{ncell}", f"ti1d.sites{ns}"] + (["ti1d.wrap"] if wrap else []) + sorted({"ti1d.kind." + s["k"] for s in sites})

    def dof(site, sub):
        return names[site][sub] if sites[site]["k"] == "mvac" else names[site]

    def build():
        basis = _ti_basis(spec, names)
        def rep(o, name):  # a symbol such as 'a^\\dagger a' counts as two simple symbols of the same DoF
            return [name] * len(U.split_words(o[2]))

        loc = [Op(" ".join(o[2] for o in t["ops"]), [n for o in t["ops"] for n in rep(o, dof(o[1], o[3]))], t["c"]) for t in spec["local"]]
        non = [Op(" ".join(o[2] for o in t["ops"]), [n for o in t["ops"] for n in rep(o, (o[0], dof(o[1], o[3])))], t["c"])
               for t in spec["nonlocal"]]
        return TI1DModel(basis, loc, non, ncell)

    model, ok = _libcall(r, "ti1d.construct", build)
    if not ok:
        return r

    def sdim(s):
        return {"elec": 2, "spin": 2}.get(s["k"], s.get("nbas", s.get("n", 0) + 1))

    dims = [sdim(s) for _ in range(ncell) for s in sites]
    r.check("ti1d.basis", [b.nbas for b in model.basis] == dims and
            [b.dofs for b in model.basis] == [tuple((f"cell{c}", d) for d in (names[i] if sites[i]["k"] == "mvac" else [names[i]]))
                                              for c in range(ncell) for i in range(ns)],
            f"full basis {[(b.dofs, b.nbas) for b in model.basis]}")
    if same_site_clash(spec, ncell):
        r.classes.append("ti1d.same_site_merge")
    terms = []
    for c in range(ncell):
        for t in spec["local"] + spec["nonlocal"]:
            seqs = {}
            for off, site, w, sub in t["ops"]:
                cell = (c + off) % ncell
                seqs.setdefault(cell * ns + site, []).append((w, sub))
            terms.append((t["c"], {idx: _ti_site_matrix(sites[idx % ns], seq) for idx, seq in seqs.items()}))
    ref, scale = U.assemble(dims, terms)
    if np.max(np.abs(ref)) <= 1e-13 * scale:
        r.rejected = "TI1D Hamiltonian cancels to zero"
        return r
    H, ok = _dense(r, "ti1d.mpo", model)
    if not ok:
        return r
    r.check_close("ti1d.dense.wrap" if wrap else "ti1d.dense", H, ref, TOL * scale, "Mpo(TI1DModel).todense() vs translated cell terms with modular wrap")
    return r


def same_site_clash(spec, ncell):
    for t in spec["nonlocal"]:
        seen = {}
        for off, site, w, sub in t["ops"]:
            key = (off % ncell, site)
            if key in seen and seen[key] != off:
                return True
            seen[key] = off
    return False


# ------------------------------------------------------------------------------------------------

def run_quantity(spec, r):
    from renormalizer.utils import Quantity

    v, u, u2 = spec["value"], spec["unit"], spec["unit2"]
    r.nontrivial = u not in ("a.u.", "au")
    r.classes += [f"quantity.unit.{u.lower()}"]
    q, ok = _libcall(r, "quantity.construct", lambda: Quantity(v, u))
    if not ok:
        return r
    au = q.as_au()
    ref_au = v / U.UNIT_RATIO[u]
    r.check_close("quantity.as_au", au, ref_au, 1e-6 * abs(ref_au), f"Quantity({v}, {u}).as_au() vs CODATA ratio")
    q2, ok = _libcall(r, "quantity.as_unit", lambda: q.as_unit(u2))
    if ok:
        r.check("quantity.as_unit.unit", q2.unit == u2, f"unit {q2.unit}")
        r.check_close("quantity.as_unit.roundtrip", q2.as_au(), au, 3e-14 * abs(au) + 1e-300, "as_unit(u).as_au() == as_au()")
        r.check_close("quantity.as_unit.value", q2.value, ref_au * U.UNIT_RATIO[u2], 2e-6 * abs(ref_au * U.UNIT_RATIO[u2]), "value in the new unit")
    if u.lower() == "k":
        beta, ok = _libcall(r, "quantity.to_beta", lambda: q.to_beta())
        if ok:
            if v == 0:
                r.check("quantity.to_beta.zero", beta == math.inf, f"0 K -> beta {beta}")
            else:
                r.check_close("quantity.to_beta", beta, U.HARTREE_K / v, 1e-6 * abs(U.HARTREE_K / v), "beta = 1/(k_B T)")
    o = Quantity(spec["other"], spec["ounit"])
    oau = o.as_au()
    c = spec["scalar"]
    tol = 1e-15 * (abs(au) + abs(oau)) * 4
    for name, fn, want in (("add", lambda: (q + o).as_au(), au + oau), ("sub", lambda: (q - o).as_au(), au - oau),
                           ("mul", lambda: (q * c).as_au(), au * c), ("rmul", lambda: (c * q).as_au(), au * c),
                           ("div", lambda: (q / c).as_au(), au / c), ("neg", lambda: (-q).as_au(), -au)):
        got, ok = _libcall(r, f"quantity.{name}", fn)
        if ok:
            r.check_close("quantity.arith", got, want, tol * max(1.0, abs(c), 1 / abs(c)), name)
    r.check("quantity.eq", (q == Quantity(v, u)) and (q == 0) == (v == 0) and (q != o) == (au != oau), "==, != semantics")
    return r

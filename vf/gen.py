"""Shared plain-data specs, builders and Hypothesis strategies for models and operator term tables.

A *model spec* is {"names": 0|1|2, "sites": [site, ...]} with site = {"k": kind, ...}.
A *term spec* is {"f": [re, im], "ops": [[site_idx, symbol, [local dof idx per word]], ...]}.
Everything is JSON-serialisable so that a failing case can be replayed without Hypothesis.
"""
import numpy as np
from hypothesis import strategies as st

# ------------------------------------------------------------------------------------------------
# building library objects from specs
# ------------------------------------------------------------------------------------------------


def dof_name(style, i, j=None):
    if j is None:
        return [i, f"d{i}", (i, 0)][style]
    return [(i, j), f"d{i}_{j}", ("m", i, j)][style]


def site_dofs(spec, i):
    s = spec["sites"][i]
    style = spec.get("names", 0)
    if s["k"] in ("multi", "mvac"):
        return [dof_name(style, i, j) for j in range(s["n"])]
    return [dof_name(style, i)]


def build_basis(spec, i):
    from renormalizer.model import basis as B

    s = spec["sites"][i]
    k = s["k"]
    dofs = site_dofs(spec, i)
    if k == "spin":
        return B.BasisHalfSpin(dofs[0], sigmaqn=s.get("qn")) if s.get("qn") is not None else B.BasisHalfSpin(dofs[0])
    if k == "elec":
        return B.BasisSimpleElectron(dofs[0], sigmaqn=s.get("qn")) if s.get("qn") is not None else B.BasisSimpleElectron(dofs[0])
    if k == "sho":
        return B.BasisSHO(dofs[0], s["omega"], s["nbas"], x0=s.get("x0", 0.0), dvr=s.get("dvr", False))
    if k == "sine":
        return B.BasisSineDVR(dofs[0], s["nbas"], s["xi"], s["xf"], endpoint=s.get("endpoint", False))
    if k == "hops":
        return B.BasisHopsBoson(dofs[0], s["nbas"])
    if k == "multi":
        return B.BasisMultiElectron(dofs, s["qn"])
    if k == "mvac":
        return B.BasisMultiElectronVac(dofs)
    if k == "dummy":
        return B.BasisDummy(dofs[0]) if s.get("qn") is None else B.BasisDummy(dofs[0], sigmaqn=s["qn"])
    raise ValueError(k)


def build_basis_list(spec):
    return [build_basis(spec, i) for i in range(len(spec["sites"]))]


def site_sigmaqn(spec, i):
    """sigmaqn array (nbas, qn_size) of site i as the library will see it."""
    s = spec["sites"][i]
    k = s["k"]
    qs = qn_size(spec)
    if k in ("spin", "elec", "multi", "dummy") and s.get("qn") is not None:
        return np.array([np.atleast_1d(q) for q in s["qn"]], dtype=int)
    if k == "elec":
        return np.array([[0], [1]])
    if k == "mvac":
        return np.array([[0]] + [[1]] * s["n"])
    return np.zeros((site_nbas(s), qs), dtype=int)


def site_nbas(s):
    k = s["k"]
    if k in ("spin", "elec"):
        return 2
    if k in ("sho", "sine", "hops"):
        return s["nbas"]
    if k == "multi":
        return s["n"]
    if k == "mvac":
        return s["n"] + 1
    if k == "dummy":
        return 1
    raise ValueError(k)


def qn_size(spec):
    for s in spec["sites"]:
        if s.get("qn") is not None:
            return len(np.atleast_1d(s["qn"][0]))
    return 1


def pdims(spec):
    return [site_nbas(s) for s in spec["sites"]]


def word_qn(spec, i, word, ldof=0, ldof2=None):
    """quantum number carried by one simple symbol on site i (None = indefinite)."""
    s = spec["sites"][i]
    k = s["k"]
    qs = qn_size(spec)
    zero = [0] * qs
    sq = site_sigmaqn(spec, i)
    if k == "spin":
        if word in ("+", "sigma_+"):
            return list(sq[0] - sq[1])
        if word in ("-", "sigma_-"):
            return list(sq[1] - sq[0])
        if word in ("I", "Z", "sigma_z", "z"):
            return zero
        return zero if not sq.any() else None
    if k == "elec":
        if word == r"a^\dagger":
            return list(sq[1] - sq[0])
        if word == "a":
            return list(sq[0] - sq[1])
        return zero
    if k == "mvac":
        if word == r"a^\dagger":
            return [1]
        if word == "a":
            return [-1]
        return zero
    if k == "multi":
        if word == r"a^\dagger":
            return list(sq[ldof])
        if word == "a":
            return list(-sq[ldof])
        return zero
    return zero


def build_op(spec, term, with_qn=True):
    """library Op for a term spec."""
    from renormalizer.model import Op

    ops = []
    for site, sym, ldofs in term["ops"]:
        words = sym.replace(r"b^\dagger + b", r"b^\dagger+b").split(" ")
        dofs_all = site_dofs(spec, site)
        if len(ldofs) == 0:
            ldofs = [0] * len(words)
        dofs = [dofs_all[j] for j in ldofs]
        if with_qn:
            qn = []
            for w, j in zip(words, ldofs):
                q = word_qn(spec, site, w, j)
                qn.append(q if q is not None else [0] * qn_size(spec))
            ops.append(Op(sym, dofs if len(words) > 1 else dofs[0], qn=qn))
        else:
            ops.append(Op(sym, dofs if len(words) > 1 else dofs[0]))
    f = complex(term["f"][0], term["f"][1])
    if f.imag == 0:
        f = f.real
    if not ops:
        raise ValueError("empty term")
    return Op.product(ops) * f


def term_factor(term):
    f = complex(term["f"][0], term["f"][1])
    return f


def term_charge(spec, term):
    """total quantum number of a term or None when some word has no definite charge."""
    tot = np.zeros(qn_size(spec), dtype=int)
    for site, sym, ldofs in term["ops"]:
        words = sym.replace(r"b^\dagger + b", r"b^\dagger+b").split(" ")
        if len(ldofs) == 0:
            ldofs = [0] * len(words)
        for w, j in zip(words, ldofs):
            q = word_qn(spec, site, w, j)
            if q is None:
                return None
            tot += np.array(q)
    return tot


# ------------------------------------------------------------------------------------------------
# dense reference (independent re-grouping; local matrices from the basis sets)
# ------------------------------------------------------------------------------------------------


def regroup(term):
    """site -> (joined symbol, local dof indices), preserving the written order within a site."""
    groups = {}
    for site, sym, ldofs in term["ops"]:
        words = sym.replace(r"b^\dagger + b", r"b^\dagger+b").split(" ")
        if len(ldofs) == 0:
            ldofs = [0] * len(words)
        g = groups.setdefault(site, ([], []))
        g[0].extend(words)
        g[1].extend(ldofs)
    return groups


def local_matrix(spec, basis_list, site, words, ldofs):
    from renormalizer.model import Op

    dofs_all = site_dofs(spec, site)
    dofs = [dofs_all[j] for j in ldofs]
    sym = " ".join(words).replace(r"b^\dagger+b", r"b^\dagger + b")
    op = Op(sym, dofs if len(words) > 1 else dofs[0], qn=[[0] * qn_size(spec)] * len(words))
    return np.asarray(basis_list[site].op_mat(op))


def kron_all(mats):
    out = np.ones((1, 1))
    for m in mats:
        out = np.kron(out, m)
    return out


def dense_operator(spec, terms, offset=0.0, basis_list=None, order=None):
    """sum_k c_k (x)_sites local matrices  -  offset*1 ; returns (matrix, scale).
    ``order``: permutation of sites for the tensor-product ordering (default: model order)."""
    if basis_list is None:
        basis_list = build_basis_list(spec)
    n = len(spec["sites"])
    if order is None:
        order = list(range(n))
    dims = pdims(spec)
    D = int(np.prod(dims))
    total = np.zeros((D, D), dtype=complex)
    scale = abs(offset)
    eyes = [np.eye(d) for d in dims]
    for t in terms:
        groups = regroup(t)
        mats = list(eyes)
        nrm = 1.0
        for site, (words, ldofs) in groups.items():
            m = local_matrix(spec, basis_list, site, words, ldofs)
            mats[site] = m
            nrm *= max(np.linalg.norm(m, 2), 1e-300)
        f = term_factor(t)
        total += f * kron_all([mats[i] for i in order])
        scale += abs(f) * nrm
    total -= offset * np.eye(D)
    return total, max(scale, 1e-300)


def permute_dense_operator(mat, dims, perm):
    """re-express an operator given in site order 0..n-1 in the order perm (new position p holds old site perm[p])."""
    n = len(dims)
    t = mat.reshape(list(dims) + list(dims))
    axes = list(perm) + [n + p for p in perm]
    t = t.transpose(axes)
    D = int(np.prod(dims))
    return t.reshape(D, D)


def permute_dense_vector(vec, dims, perm):
    t = np.asarray(vec).reshape(list(dims))
    return t.transpose(list(perm)).reshape(-1)


# ------------------------------------------------------------------------------------------------
# symbol menus
# ------------------------------------------------------------------------------------------------

SPIN_WORDS = ["X", "Y", "Z", "+", "-", "sigma_x", "sigma_y", "sigma_z", "sigma_+", "sigma_-", "iY", "I"]
SPIN_WORDS_REAL = ["X", "Z", "+", "-", "sigma_x", "sigma_z", "sigma_+", "sigma_-", "iY", "I"]
SPIN_WORDS_QN = ["Z", "+", "-", "sigma_z", "sigma_+", "sigma_-", "I"]
SHO_SINGLE = ["x", "p", "x^2", "p^2", "x^3", "p^3", "x^4", "b", r"b^\dagger", r"b^\dagger b", r"b b^\dagger",
              r"b^\dagger + b", "dx", "dx^2", "n", "I", "b b", r"b^\dagger b^\dagger"]
SHO_SINGLE_REAL = [s for s in SHO_SINGLE if s not in ("p", "p^3")]
SHO_PAIRS = [("x", "x"), ("p", "p"), ("b", r"b^\dagger"), (r"b^\dagger", "b"), ("b", "b"),
             (r"b^\dagger", r"b^\dagger"), ("x", "p"), ("p", "x"), ("x", "dx"), ("dx", "x"), ("dx", "dx")]
SHO_PAIRS_REAL = [p for p in SHO_PAIRS if "p" not in p or p == ("p", "p")]
SINE_SINGLE = ["x", "x^2", "x^3", "dx", "dx^2", "p", "p^2", "x dx", "x^2 p^2", "x^2 dx", "x p^2", "x^3 p^2", "I"]
SINE_SINGLE_REAL = [s for s in SINE_SINGLE if s != "p"]
SINE_PAIRS = [("x", "x"), ("x", "dx"), ("dx", "dx"), ("x^2", "p^2"), ("x^2", "dx"), ("x", "p^2"), ("x^3", "p^2"),
              ("x", "dx^2"), ("x^2", "dx^2")]
HOPS_SINGLE = [r"b^\dagger b", r"\tilde{b}^\dagger", r"\tilde{b}", "I"]
ELEC_SINGLE = ["a", r"a^\dagger", r"a^\dagger a", "I"]


def is_complex_symbol(kind, sym):
    words = sym.split(" ")
    if kind == "spin":
        n = sum(w in ("Y", "sigma_y", "y") for w in words)
        return n > 0  # conservatively: any Y makes the local matrix possibly complex
    if kind in ("sho", "sine"):
        n = sum(w in ("p", "p^3") for w in words)
        return n % 2 == 1
    return False


@st.composite
def site_specs(draw, kinds, qn=0, real_only=False):
    k = draw(st.sampled_from(kinds))
    if k == "spin":
        s = {"k": "spin"}
        if qn == 1:
            # incl. labels of both signs (2*S_z)
            s["qn"] = draw(st.sampled_from([[[0], [1]], [[1], [0]], [[0], [0]], [[1], [-1]], [[-1], [1]], [[0], [1]]]))
        elif qn == 2:
            s["qn"] = draw(st.sampled_from([[[0, 0], [1, 0]], [[0, 0], [0, 1]], [[0, 0], [0, 0]]]))
        return s
    if k == "elec":
        s = {"k": "elec"}
        if qn == 2:
            s["qn"] = draw(st.sampled_from([[[0, 0], [1, 0]], [[0, 0], [0, 1]]]))
        return s
    if k == "sho":
        return {"k": "sho", "omega": draw(st.sampled_from([0.3, 0.5, 1.0, 1.7, 3.0])),
                "nbas": draw(st.integers(1, 4)), "x0": draw(st.sampled_from([0.0, 0.0, 0.7, -0.7])),
                "dvr": draw(st.booleans()) if draw(st.integers(0, 3)) == 0 else False}
    if k == "sine":
        xi = draw(st.sampled_from([-1.0, 0.0, 0.5]))
        return {"k": "sine", "nbas": draw(st.integers(2, 4)), "xi": xi,
                "xf": xi + draw(st.sampled_from([1.0, 2.5, 3.14])), "endpoint": draw(st.booleans())}
    if k == "hops":
        return {"k": "hops", "nbas": draw(st.integers(2, 4))}
    if k == "multi":
        n = draw(st.integers(2, 3))
        if qn == 2:
            q = [draw(st.sampled_from([[1, 0], [0, 1], [0, 0]])) for _ in range(n)]
        elif qn == 1:
            q = [[draw(st.integers(0, 1))] for _ in range(n)]
        else:
            q = [[0]] * n
        return {"k": "multi", "n": n, "qn": q}
    if k == "mvac":
        return {"k": "mvac", "n": draw(st.integers(1, 3))}
    if k == "dummy":
        return {"k": "dummy"} if qn != 2 else {"k": "dummy", "qn": [[0, 0]]}
    raise ValueError(k)


ALL_KINDS = ["spin", "spin", "elec", "sho", "sho", "sine", "hops", "multi", "mvac", "dummy"]
QN1_KINDS = ["spin", "elec", "elec", "sho", "mvac", "multi", "hops"]
QN2_KINDS = ["spin", "spin", "elec", "multi", "dummy"]


@st.composite
def model_specs(draw, min_sites=1, max_sites=6, qn=None, kinds=None, max_dim=4096):
    """qn: None -> draw from {0 (no qn),1,2}; kinds: list of site kinds to draw from."""
    if qn is None:
        qn = draw(st.sampled_from([0, 0, 1, 2]))
    if kinds is None:
        kinds = {0: ALL_KINDS, 1: QN1_KINDS, 2: QN2_KINDS}[qn]
    n = draw(st.integers(min_sites, max_sites))
    sites = []
    dim = 1
    for _ in range(n):
        s = draw(site_specs(kinds, qn))
        if dim * site_nbas(s) > max_dim:
            s = {"k": "spin"} if "spin" in kinds else s
            if qn == 1:
                s = {"k": "spin", "qn": [[0], [1]]}
            elif qn == 2:
                s = {"k": "spin", "qn": [[0, 0], [1, 0]]}
            if dim * 2 > max_dim:
                break
        dim *= site_nbas(s)
        sites.append(s)
    if not sites:
        sites = [{"k": "spin"}]
    return {"names": draw(st.integers(0, 2)), "sites": sites, "qnmode": qn}


def _spin_words(spec, i, real_only):
    s = spec["sites"][i]
    if s.get("qn") is not None and np.any(np.array(s["qn"]) != 0):
        return SPIN_WORDS_QN
    if spec.get("qnmode", 0) != 0:
        return SPIN_WORDS_QN
    return SPIN_WORDS_REAL if real_only else SPIN_WORDS


@st.composite
def site_pick(draw, spec, i, count, real_only=False):
    """list of `count` picks [(site, sym, ldofs)] on site i whose joined symbol the basis supports."""
    s = spec["sites"][i]
    k = s["k"]
    if k == "spin":
        words = _spin_words(spec, i, real_only)
        out = []
        for _ in range(count):
            nw = draw(st.integers(1, 2))
            out.append([i, " ".join(draw(st.sampled_from(words)) for _ in range(nw)), []])
        return out
    if k == "elec":
        if count == 1:
            return [[i, draw(st.sampled_from(ELEC_SINGLE)), []]]
        return [[i, r"a^\dagger", []], [i, "a", []]]
    if k == "sho":
        single = SHO_SINGLE_REAL if real_only else SHO_SINGLE
        pairs = SHO_PAIRS_REAL if real_only else SHO_PAIRS
        if s.get("dvr"):
            # DVR variant: symbols for which the class defines a DVR form
            single = [x for x in single if x in ("x", "x^2", "x^3", "x^4", "p", "p^2", "p^3", "dx", "dx^2", "I")]
            pairs = [p for p in pairs if p in (("x", "x"), ("p", "p"), ("dx", "dx"))]
        if count == 1:
            return [[i, draw(st.sampled_from(single)), []]]
        if count == 2:
            a, b = draw(st.sampled_from(pairs))
            return [[i, a, []], [i, b, []]]
        w = draw(st.sampled_from(["x"] if real_only else ["x", "p"]))
        return [[i, w, []] for _ in range(min(count, 4))]
    if k == "sine":
        single = SINE_SINGLE_REAL if real_only else SINE_SINGLE
        if count == 1:
            return [[i, draw(st.sampled_from(single)), []]]
        if count == 2:
            a, b = draw(st.sampled_from(SINE_PAIRS))
            return [[i, a, []], [i, b, []]]
        return [[i, "x", []] for _ in range(3)]
    if k == "hops":
        return [[i, draw(st.sampled_from(HOPS_SINGLE)), []]]
    if k == "mvac":
        n = s["n"]
        if count == 1:
            kind = draw(st.integers(0, 3))
            j = draw(st.integers(0, n - 1))
            if kind == 0:
                return [[i, r"a^\dagger", [j]]]
            if kind == 1:
                return [[i, "a", [j]]]
            j2 = draw(st.integers(0, n - 1))
            if kind == 2:
                return [[i, r"a^\dagger a", [j, j2]]]
            return [[i, r"a a^\dagger", [j, j2]]]
        j = draw(st.integers(0, n - 1))
        j2 = draw(st.integers(0, n - 1))
        if draw(st.booleans()):
            return [[i, r"a^\dagger", [j]], [i, "a", [j2]]]
        return [[i, "a", [j]], [i, r"a^\dagger", [j2]]]
    if k == "multi":
        n = s["n"]
        j = draw(st.integers(0, n - 1))
        j2 = draw(st.integers(0, n - 1))
        if count == 1:
            if draw(st.booleans()):
                return [[i, r"a^\dagger a", [j, j2]]]
            return [[i, r"a a^\dagger", [j, j2]]]
        if draw(st.booleans()):
            return [[i, r"a^\dagger", [j]], [i, "a", [j2]]]
        return [[i, "a", [j]], [i, r"a^\dagger", [j2]]]
    if k == "dummy":
        return [[i, "I", []]]
    raise ValueError(k)


@st.composite
def factors(draw, real_only=False, decades=3):
    e = draw(st.integers(-decades, decades))
    mant = draw(st.sampled_from([1.0, -1.0, 0.5, -2.5, 3.0, 0.7]))
    mag = mant * 10.0 ** e
    if real_only or draw(st.integers(0, 2)) > 0:
        return [mag, 0.0]
    ph = draw(st.sampled_from([0.5, 1.0, 2.0, 3.0, 4.5]))
    return [float(mag * np.cos(ph)), float(mag * np.sin(ph))]


@st.composite
def one_term(draw, spec, real_only=False, max_support=4, decades=3):
    n = len(spec["sites"])
    npick = draw(st.integers(1, max_support))
    sites = [draw(st.integers(0, n - 1)) for _ in range(npick)]
    counts = {}
    for sidx in sites:
        counts[sidx] = counts.get(sidx, 0) + 1
    picks_by_site = {sidx: draw(site_pick(spec, sidx, c, real_only)) for sidx, c in counts.items()}
    # interleave in the drawn order (same site may re-appear at non-adjacent positions)
    ops = []
    cursor = {sidx: 0 for sidx in counts}
    for sidx in sites:
        lst = picks_by_site[sidx]
        if cursor[sidx] < len(lst):
            ops.append(lst[cursor[sidx]])
            cursor[sidx] += 1
    return {"f": draw(factors(real_only, decades)), "ops": ops}


def term_needs_complex(spec, term):
    for site, (words, ldofs) in regroup(term).items():
        if is_complex_symbol(spec["sites"][site]["k"], " ".join(words)):
            return True
    return term["f"][1] != 0


def disambiguate(term):
    """Op.product joins symbols with blanks and the library parses the substring 'b^\\dagger + b' as ONE symbol; a spin '+'
    written between 'b^\\dagger' and 'b...' of other picks would therefore be mis-parsed (AssertionError / ValueError in
    Op.__init__).  Such a spelling is not a valid way to write the product: move every pick that starts with '+' to the
    front of the term (generation-time normalisation, the spec stays self-consistent)."""
    ops = term["ops"]
    plus = [o for o in ops if o[1] == "+" or o[1].startswith("+ ")]
    if plus:
        rest = [o for o in ops if not (o[1] == "+" or o[1].startswith("+ "))]
        term["ops"] = plus + rest
    return term


@st.composite
def term_tables(draw, spec, min_terms=1, max_terms=12, real_only=False, max_support=4, decades=3):
    """term list with the structure knobs: duplicates, partially cancelling copies, shared prefixes/suffixes
    (terms differing from an earlier one on a single site), explicit identities."""
    nt = draw(st.integers(min_terms, max_terms))
    terms = []
    flags = set()
    n = len(spec["sites"])
    for _ in range(nt):
        knob = draw(st.integers(0, 9)) if terms else 9
        if knob == 0:
            t = dict(draw(st.sampled_from(terms)))
            t = {"f": list(t["f"]), "ops": [list(o) for o in t["ops"]]}
            flags.add("duplicate")
        elif knob == 1:
            t0 = draw(st.sampled_from(terms))
            t = {"f": [-0.5 * t0["f"][0], -0.5 * t0["f"][1]], "ops": [list(o) for o in t0["ops"]]}
            flags.add("cancelling")
        elif knob == 2:
            t0 = draw(st.sampled_from(terms))
            t = {"f": [-t0["f"][0], -t0["f"][1]], "ops": [list(o) for o in t0["ops"]]}
            flags.add("exact_cancel")
        elif knob in (3, 4, 5):
            # same as an earlier term except on one site -> shared prefix / suffix
            t0 = draw(st.sampled_from(terms))
            sidx = draw(st.integers(0, n - 1))
            keep = [list(o) for o in t0["ops"] if o[0] != sidx]
            new = draw(site_pick(spec, sidx, 1, real_only))
            pos = draw(st.integers(0, len(keep)))
            t = {"f": draw(factors(real_only, decades)), "ops": keep[:pos] + new + keep[pos:]}
            flags.add("shared")
        elif knob == 6:
            t = draw(one_term(spec, real_only, max_support, decades))
            sidx = draw(st.integers(0, n - 1))
            if all(o[0] != sidx for o in t["ops"]):
                t["ops"].append([sidx, "I", [0] if spec["sites"][sidx]["k"] in ("multi", "mvac") else []])
                flags.add("explicit_identity")
        else:
            t = draw(one_term(spec, real_only, max_support, decades))
        terms.append(disambiguate(t))
    return terms, sorted(flags)


def fix_complex_precondition(spec, terms):
    """§3 precondition 1: Mpo takes its dtype from the factor vector only; if some local matrix is complex and
    all factors are real the library refuses the input (numpy casting error).  In-repo callers pass a complex
    factor in that case; do the same: multiply the first offending term's factor representation by (1+0j) is
    not enough (the library converts with `+ 0.0`), so give one term a tiny non-zero imaginary part is *not*
    acceptable either (changes the operator).  Instead mark the factor complex by adding a zero-valued complex
    companion term."""
    need = any(is_complex_local(spec, t) for t in terms)
    has = any(t["f"][1] != 0 for t in terms)
    return need and not has


def is_complex_local(spec, term):
    for site, (words, ldofs) in regroup(term).items():
        if is_complex_symbol(spec["sites"][site]["k"], " ".join(words)):
            return True
    return False


# ------------------------------------------------------------------------------------------------
# charge-definite operators (for models with quantum numbers)
# ------------------------------------------------------------------------------------------------


def site_blocks(spec, i, real_only=False):
    """candidate single-site pick lists with a definite charge: list of (picks, charge tuple)."""
    s = spec["sites"][i]
    k = s["k"]
    out = []

    def add(picks):
        q = term_charge(spec, {"f": [1, 0], "ops": picks})
        if q is not None:
            out.append((picks, tuple(int(x) for x in q)))

    if k == "spin":
        words = _spin_words(spec, i, real_only)
        for w in words:
            add([[i, w, []]])
        for w1, w2 in [("+", "-"), ("-", "+"), ("Z", "+"), ("-", "Z"), ("sigma_+", "sigma_z")]:
            if w1 in words and w2 in words:
                add([[i, w1 + " " + w2, []]])
    elif k == "elec":
        for w in ELEC_SINGLE:
            add([[i, w, []]])
    elif k == "sho":
        single = SHO_SINGLE_REAL if real_only else SHO_SINGLE
        if s.get("dvr"):
            single = [x for x in single if x in ("x", "x^2", "x^3", "p", "p^2", "dx", "dx^2", "I")]
        for w in single:
            add([[i, w, []]])
    elif k == "sine":
        for w in (SINE_SINGLE_REAL if real_only else SINE_SINGLE):
            add([[i, w, []]])
    elif k == "hops":
        for w in HOPS_SINGLE:
            add([[i, w, []]])
    elif k == "mvac":
        n = s["n"]
        for j in range(n):
            add([[i, r"a^\dagger", [j]]])
            add([[i, "a", [j]]])
            for j2 in range(n):
                add([[i, r"a^\dagger a", [j, j2]]])
    elif k == "multi":
        n = s["n"]
        for j in range(n):
            for j2 in range(n):
                add([[i, r"a^\dagger a", [j, j2]]])
    elif k == "dummy":
        add([[i, "I", []]])
    return out


@st.composite
def charged_term(draw, spec, charge, blocks=None, real_only=False, decades=1):
    """one term whose total charge is exactly `charge` (tuple) - by construction; falls back to a neutral term
    when no site can carry the requested charge (returns (term, achieved charge))."""
    n = len(spec["sites"])
    if blocks is None:
        blocks = [site_blocks(spec, i, real_only) for i in range(n)]
    qs = qn_size(spec)
    zero = tuple([0] * qs)
    used = set()
    ops = []
    total = np.zeros(qs, dtype=int)
    # 0-2 arbitrary blocks on distinct sites
    for _ in range(draw(st.integers(0, 2))):
        i = draw(st.integers(0, n - 1))
        if i in used or not blocks[i]:
            continue
        picks, q = draw(st.sampled_from(blocks[i]))
        used.add(i)
        ops.extend([list(p) for p in picks])
        total += np.array(q)
    # compensate the residual with single-site blocks of the needed charge on unused sites
    resid = np.array(charge) - total
    guard = 0
    while np.any(resid != 0) and guard < 6:
        guard += 1
        cands = []
        for i in range(n):
            if i in used:
                continue
            for picks, q in blocks[i]:
                qa = np.array(q)
                if np.any(qa != 0) and np.sum(np.abs(resid - qa)) < np.sum(np.abs(resid)):
                    cands.append((i, picks, q))
        if not cands:
            break
        i, picks, q = draw(st.sampled_from(cands))
        used.add(i)
        ops.extend([list(p) for p in picks])
        resid = resid - np.array(q)
    if np.any(resid != 0):
        # could not reach the requested charge: return a neutral single block instead
        neutral = [(i, p) for i in range(n) for p, q in blocks[i] if q == zero]
        i, picks = draw(st.sampled_from(neutral))
        return {"f": draw(factors(real_only, decades)), "ops": [list(p) for p in picks]}, zero
    if not ops:
        neutral = [(i, p) for i in range(n) for p, q in blocks[i] if q == zero]
        i, picks = draw(st.sampled_from(neutral))
        ops = [list(p) for p in picks]
    # shuffle written order across sites (keeps intra-site order)
    order = draw(st.permutations(list(range(len(ops)))))
    bysite = {}
    for o in ops:
        bysite.setdefault(o[0], []).append(o)
    seq = []
    cursor = {k: 0 for k in bysite}
    for idx in order:
        sidx = ops[idx][0]
        seq.append(bysite[sidx][cursor[sidx]])
        cursor[sidx] += 1
    return disambiguate({"f": draw(factors(real_only, decades)), "ops": seq}), tuple(int(x) for x in charge)


def reachable_charges(spec):
    """unit charges some single site block can carry"""
    out = set()
    for i in range(len(spec["sites"])):
        for _, q in site_blocks(spec, i):
            if any(q):
                out.add(q)
    return sorted(out)


@st.composite
def charged_operator(draw, spec, charge=None, max_terms=4, real_only=False, decades=1):
    """list of terms with one common definite charge; returns (terms, charge tuple)."""
    n = len(spec["sites"])
    blocks = [site_blocks(spec, i, real_only) for i in range(n)]
    qs = qn_size(spec)
    if charge is None:
        rc = reachable_charges(spec)
        if rc and draw(st.integers(0, 2)) == 0:
            charge = draw(st.sampled_from(rc))
        else:
            charge = tuple([0] * qs)
    t0, q0 = draw(charged_term(spec, charge, blocks, real_only, decades))
    terms = [t0]
    for _ in range(draw(st.integers(0, max_terms - 1))):
        t, q = draw(charged_term(spec, q0, blocks, real_only, decades))
        if q == q0:
            terms.append(t)
    return terms, q0


def sectors(spec):
    """all total quantum numbers reachable by product basis states (sorted list of tuples)."""
    cur = {tuple([0] * qn_size(spec))}
    for i in range(len(spec["sites"])):
        sq = site_sigmaqn(spec, i)
        cur = {tuple(np.array(c) + q) for c in cur for q in sq}
    return sorted(cur)


def basis_state_qn(spec):
    """(D, qs) array: quantum number of every product basis state in the dense ordering."""
    qs = qn_size(spec)
    out = np.zeros((1, qs), dtype=int)
    for i in range(len(spec["sites"])):
        sq = site_sigmaqn(spec, i)
        out = (out[:, None, :] + sq[None, :, :]).reshape(-1, qs)
    return out


# ------------------------------------------------------------------------------------------------
# Hermitian Hamiltonians with a dense reference
# ------------------------------------------------------------------------------------------------

_ADJ = {"+": "-", "-": "+", "sigma_+": "sigma_-", "sigma_-": "sigma_+", "a": r"a^\dagger", r"a^\dagger": "a",
        "b": r"b^\dagger", r"b^\dagger": "b"}
_SELF_ADJ = {"I", "X", "Y", "Z", "x", "y", "z", "sigma_x", "sigma_y", "sigma_z", "n", "p", "x^2", "x^3", "x^4", "p^2", "p^3",
             "dx^2", r"b^\dagger+b"}
_ANTI = {"iY", "iy", "isigma_y", "dx"}


def dagger_term(term):
    """term spec of the Hermitian conjugate; returns None when some word has no adjoint in the menus."""
    ops = []
    sign = 1.0
    for site, sym, ldofs in reversed(term["ops"]):
        words = sym.replace(r"b^\dagger + b", r"b^\dagger+b").split(" ")
        ld = list(ldofs) if len(ldofs) else [0] * len(words)
        nw = []
        for w in reversed(words):
            if w in _ADJ:
                nw.append(_ADJ[w])
            elif w in _SELF_ADJ:
                nw.append(w)
            elif w in _ANTI:
                nw.append(w)
                sign = -sign
            else:
                return None
        ld = list(reversed(ld))
        sym2 = " ".join(nw).replace(r"b^\dagger+b", r"b^\dagger + b")
        ops.append([site, sym2, ld if len(ldofs) else []])
    return {"f": [sign * term["f"][0], -sign * term["f"][1]], "ops": ops}


@st.composite
def hermitian_hamiltonian(draw, spec, max_terms=5, real_only=False):
    """charge-neutral terms t plus their adjoints: H = sum (t + t^dagger) is Hermitian by construction."""
    terms, q = draw(charged_operator(spec, charge=tuple([0] * qn_size(spec)), max_terms=max_terms, real_only=real_only))
    out = []
    bl = build_basis_list(spec)
    for t in terms:
        d = dagger_term(t)
        if d is None:
            continue
        try:
            # the adjoint must be spelt with symbols the basis sets support (e.g. SineDVR has 'x^2 dx' but not 'dx x^2')
            for site, (words, ldofs) in regroup(d).items():
                local_matrix(spec, bl, site, words, ldofs)
        except ValueError:
            continue
        out.append(t)
        out.append(d)
    if not out:
        # always available: a diagonal term
        i = draw(st.integers(0, len(spec["sites"]) - 1))
        blocks = [p for p, qq in site_blocks(spec, i, real_only) if not any(qq)]
        p = blocks[0]
        t = {"f": [1.0, 0.0], "ops": [list(x) for x in p]}
        d = dagger_term(t)
        out = [t, d] if d is not None else [{"f": [1.0, 0.0], "ops": [[i, "I", [0] if spec["sites"][i]["k"] in ("multi", "mvac") else []]]}]
    return out

"""C14 helpers (crash-safety part): harness-side jobs, in-process fault injection, real process death under strace,
and the result-file oracle.

Nothing in here changes library code: faults are injected by wrapping the file-system entry points the library resolves at
call time (attributes of the modules ``os``, ``shutil``, ``numpy`` and ``builtins`` - ``renormalizer.utils.tdmps.os`` *is* the
``os`` module, ``renormalizer.utils.tdmps.np`` *is* ``numpy`` - plus any alias a library module imported by name), or by
SIGKILLing a forked child at a chosen system call with ``strace -e inject``.
"""
import builtins
import io
import os
import re
import shutil
import signal
import subprocess
import sys
import tempfile
import traceback

import numpy as np

JOB = "job"
TRUNC = ("0%", "header", "middle", "all_but_last")
SYSCALLS = "openat,write,rename,renameat,renameat2,unlink,unlinkat"


class Crash(BaseException):
    """simulated process death; a BaseException so that `except Exception` / `except IOError` in the job cannot swallow it"""


# ------------------------------------------------------------------------------------------------
# jobs
# ------------------------------------------------------------------------------------------------

def toy_value(run, step):
    return float(np.cos(0.7 * step + 1.3 * run))


def toy_checksum(run, step, n):
    i = np.arange(n, dtype=float)
    return np.sin(0.37 * i * (run + 1) + 1.7 * step) + step


def toy_mps():
    from renormalizer.model import Model
    from renormalizer.model import basis as ba
    from renormalizer.mps import Mps

    bl = [ba.BasisHalfSpin(0), ba.BasisHalfSpin(1)]
    return Mps.hartree_product_state(Model(bl, []), {})


_TOY_CLS = None


def toy_class():
    """minimal TdMpsJob subclass: cheap deterministic 'evolution'; the dump dict carries a step counter, the run id and a
    checksum array that is a function of (run, step)"""
    global _TOY_CLS
    if _TOY_CLS is not None:
        return _TOY_CLS
    from renormalizer.utils import TdMpsJob

    class ToyJob(TdMpsJob):
        def __init__(self, run, alen, mps0, **kw):
            self.run = run
            self.alen = alen
            self._mps0 = mps0
            self.acc = []
            super().__init__(**kw)

        def init_mps(self):
            return self._mps0

        def process_mps(self, mps):
            self.acc.append(toy_value(self.run, len(self.evolve_times) - 1))

        def evolve_single_step(self, evolve_dt):
            new = self.latest_mps.copy()
            step = len(self.evolve_times)
            new.coeff = complex(np.cos(0.3 * step + self.run), np.sin(0.3 * step + self.run))
            return new

        def get_dump_dict(self):
            step = len(self.evolve_times) - 1
            return {"step": step, "run": self.run, "series": list(self.acc), "time series": list(self.evolve_times),
                    "checksum": toy_checksum(self.run, step, self.alen)}

    _TOY_CLS = ToyJob
    return ToyJob


def build_holstein(h):
    from renormalizer.model import HolsteinModel, Mol, Phonon
    from renormalizer.utils import Quantity

    mols = []
    for m in h["mols"]:
        phs = [Phonon([Quantity(p["w0"]), Quantity(p["w1"])], [Quantity(0), Quantity(p["d"])], p["nbas"]) for p in m["ph"]]
        mols.append(Mol(Quantity(m["e"]), phs))
    return HolsteinModel(mols, Quantity(h["J"]), scheme=h["scheme"], periodic=False)


def build_job(js, dump_dir, run):
    """a fresh job object of history spec `js` writing into dump_dir (constructor only: nothing is written yet)"""
    if js["kind"] == "toy":
        return toy_class()(run=run, alen=js["alen"], mps0=toy_mps(), dump_mps=js["dump_mps"], dump_dir=dump_dir, job_name=JOB)
    from renormalizer.mps import MpDm, ThermalProp
    from renormalizer.utils import EvolveConfig, EvolveMethod, CompressConfig, CompressCriteria

    model = build_holstein(js["holstein"])
    mpdm = MpDm.max_entangled_ex(model) if js["space"] == "EX" else MpDm.max_entangled_gs(model)
    mpdm.compress_config = CompressConfig(CompressCriteria.fixed, max_bonddim=16)
    if js["exact"]:
        return ThermalProp(mpdm, exact=True, space=js["space"], dump_mps=js["dump_mps"], dump_dir=dump_dir, job_name=JOB)
    cfg = EvolveConfig(EvolveMethod.prop_and_compress, taylor_order=4)
    return ThermalProp(mpdm, evolve_config=cfg, dump_mps=js["dump_mps"], dump_dir=dump_dir, job_name=JOB)


def evolve_job(job, js, run):
    if js["kind"] == "toy":
        job.evolve(evolve_dt=0.1 * run, nsteps=js["nsteps"])
    else:
        # a restarted run uses another step size, so that its result files are distinguishable from the first run's
        tau = js["tau"] * (1.0 if run == 1 else 1.5)
        job.evolve(evolve_dt=-1j * tau, nsteps=js["nsteps"])


def job_step(job):
    return len(job.evolve_times) - 1


def capture_dumps(job, store):
    """harness-side spy: remember a copy of every dump dict by step (does not change what is dumped)"""
    orig = job.get_dump_dict

    def spy():
        d = orig()
        store[job_step(job)] = {k: np.array(v) for k, v in d.items()}
        return d

    job.get_dump_dict = spy


# ------------------------------------------------------------------------------------------------
# result-file oracle
# ------------------------------------------------------------------------------------------------

def load_complete(path):
    """dict name -> array when the file is a zip archive of arrays in which every member can be read; "mps" for a state
    dump; None when the file does not load completely"""
    try:
        z = np.load(path, allow_pickle=False)
    except BaseException as e:  # noqa
        if isinstance(e, (KeyboardInterrupt, Crash)):
            raise
        return None
    if not hasattr(z, "files"):
        return None
    try:
        if "nsites" in z.files:
            return "mps"
        return {k: np.asarray(z[k]) for k in z.files}
    except BaseException as e:  # noqa
        if isinstance(e, (KeyboardInterrupt, Crash)):
            raise
        return None
    finally:
        z.close()


def match_ref(content, refs):
    """(run, step) of the reference dump dict the file content equals, else None"""
    for run, by_step in refs.items():
        for step, ref in by_step.items():
            if set(ref) != set(content):
                continue
            ok = True
            for k, v in ref.items():
                c = content[k]
                if c.shape != v.shape:
                    ok = False
                    break
                if c.size and not np.allclose(c, v, rtol=0, atol=1e-10):
                    ok = False
                    break
            if ok:
                return run, step
    return None


def scan_dir(d, refs):
    """classification of every file in the dump directory:
    name -> ("result", run, step) | ("mps",) | ("incomplete", size) | ("loadable_but_wrong",)"""
    out = {}
    for fn in sorted(os.listdir(d)):
        p = os.path.join(d, fn)
        if not os.path.isfile(p):
            continue
        c = load_complete(p)
        if c is None:
            out[fn] = ("incomplete", os.path.getsize(p))
        elif isinstance(c, str):
            out[fn] = ("mps",)
        else:
            m = match_ref(c, refs)
            out[fn] = ("result", m[0], m[1]) if m is not None else ("loadable_but_wrong",)
    return out


def is_mps_name(fn):
    return "_mps" in fn


def partial_result_present(scan):
    return any(v[0] == "incomplete" and not is_mps_name(fn) for fn, v in scan.items())


def results_of(scan):
    return sorted((v[1], v[2]) for v in scan.values() if v[0] == "result")


def fmt_scan(scan):
    parts = []
    for fn, v in scan.items():
        if v[0] == "result":
            parts.append(f"{fn}:complete(run{v[1]},step{v[2]})")
        elif v[0] == "incomplete":
            parts.append(f"{fn}:UNLOADABLE({v[1]}B)")
        else:
            parts.append(f"{fn}:{v[0]}")
    return "{" + ", ".join(parts) + "}"


def judge_single(scan, k):
    """single run, dump of step k in progress: (required?, satisfied?)"""
    res = results_of(scan)
    if k <= 1:
        return False, True
    return True, any(run == 1 and step in (k, k - 1) for run, step in res)


def judge_restart(scan_before, scan_after, k, k2):
    """restarted run (run 2) crashed while dumping its step k2 into the directory left by a crash in dump k of run 1.
    From its second dump on the restarted run is held to the single-run rule.  During its first dump a complete file must
    survive if the first crash was guaranteed to leave one (k >= 2) - a file of the earlier run or the new run's step 1;
    after a crash in the very first dump of run 1 nothing was promised, so nothing is demanded."""
    res = results_of(scan_after)
    if k2 >= 2:
        return True, any(run == 2 and step in (k2, k2 - 1) for run, step in res)
    had = any(run == 1 for run, step in results_of(scan_before))
    if k < 2 or not had:
        return False, True
    return True, any((run == 2 and step == 1) or run == 1 for run, step in res)


# ------------------------------------------------------------------------------------------------
# in-process fault injection
# ------------------------------------------------------------------------------------------------

def _npy_header_end(data):
    i = data.find(b"\x93NUMPY")
    if i < 0 or len(data) < i + 10:
        return min(len(data), 30)
    major = data[i + 6]
    if major == 1:
        hl = int.from_bytes(data[i + 8:i + 10], "little")
        return i + 10 + hl
    hl = int.from_bytes(data[i + 8:i + 12], "little")
    return i + 12 + hl


def cut_point(data, cls):
    n = len(data)
    if cls == "0%":
        return 0
    if cls == "header":
        return max(0, min(_npy_header_end(data), n - 1))
    if cls == "middle":
        return n // 2
    return max(n - 1, 0)


_real_open = builtins.open

LIB_MODULES = ("renormalizer.utils.tdmps", "renormalizer.mps.thermalprop", "renormalizer.mps.mp", "renormalizer.mps.mps",
               "renormalizer.tn.tree")


class FS:
    """Wraps the mutating file-system entry points.  Calls that touch `root` are numbered 0,1,2,...; in fault mode call
    number fault[0] raises Crash - before doing anything (action "before") or, for a write, after materialising the first
    j bytes of the real file content (actions TRUNC).  Nested calls (np.savez -> open, shutil.move -> os.rename) are part of
    the outer call."""

    def __init__(self, root, fault=None, step_fn=None, stop_after_step=None):
        self.root = os.path.realpath(root)
        self.fault = fault
        self.step_fn = step_fn or (lambda: -1)
        self.ops = []
        self.depth = 0
        self._saved = []
        self.fired = None

    # -- helpers --
    def _abs(self, p):
        p = os.fspath(p)
        if isinstance(p, bytes):
            p = p.decode()
        p = os.path.abspath(p)
        if not p.startswith(self.root):
            rp = os.path.realpath(p)
            if rp.startswith(self.root):
                return rp
        return p

    def _under(self, p):
        try:
            p = self._abs(p)
        except TypeError:
            return False
        return p == self.root or p.startswith(self.root + os.sep)

    def _rel(self, p):
        return os.path.relpath(self._abs(p), self.root)

    def _next(self, name, kind, paths, result_write=False):
        i = len(self.ops)
        self.ops.append({"i": i, "name": name, "kind": kind, "paths": [self._rel(p) for p in paths], "step": self.step_fn(),
                         "result_write": result_write})
        return i

    def _hit(self, i):
        return self.fault is not None and self.fault[0] == i

    def _die(self, i, extra=""):
        self.fired = dict(self.ops[i], action=self.fault[1], extra=extra)
        raise Crash(f"op {i} {self.ops[i]['name']} {self.fault[1]}")

    # -- wrappers --
    def _meta(self, name, orig):
        def w(*a, **k):
            paths = [x for x in a[:2] if isinstance(x, (str, bytes, os.PathLike)) and self._under(x)]
            if self.depth or not paths:
                return orig(*a, **k)
            i = self._next(name, "meta", paths)
            if self._hit(i):
                self._die(i)
            self.depth += 1
            try:
                return orig(*a, **k)
            finally:
                self.depth -= 1
        return w

    def _write(self, name, orig, ext):
        def w(file, *a, **k):
            if isinstance(file, (str, bytes, os.PathLike)):
                path = os.fspath(file)
                if isinstance(path, bytes):
                    path = path.decode()
                if not path.endswith(ext):
                    path = path + ext
                fobj = None
            else:
                path = getattr(file, "name", None)
                fobj = file
            if self.depth or not isinstance(path, str) or not self._under(path):
                return orig(file, *a, **k)
            result_write = name != "np.save" and "nsites" not in k and "version" not in k
            i = self._next(name, "write", [path], result_write)
            if self._hit(i):
                if self.fault[1] == "before":
                    self._die(i)
                buf = io.BytesIO()
                self.depth += 1
                try:
                    orig(buf, *a, **k)
                finally:
                    self.depth -= 1
                data = buf.getvalue()
                j = cut_point(data, self.fault[1])
                if fobj is None:
                    with _real_open(path, "wb") as f:  # the real call opens with truncation, then writes
                        f.write(data[:j])
                else:
                    fobj.write(data[:j])
                    fobj.flush()
                self._die(i, f"{j}/{len(data)}B")
            self.depth += 1
            try:
                return orig(file, *a, **k)
            finally:
                self.depth -= 1
        return w

    def _open(self, orig):
        def w(file, mode="r", *a, **k):
            if (self.depth or not isinstance(mode, str) or not any(c in mode for c in "wax+")
                    or not isinstance(file, (str, bytes, os.PathLike)) or not self._under(file)):
                return orig(file, mode, *a, **k)
            i = self._next("open", "open", [file])
            if self._hit(i):
                if self.fault[1] != "before":
                    orig(file, mode, *a, **k).close()
                self._die(i)
            return orig(file, mode, *a, **k)
        return w

    def __enter__(self):
        targets = [(os, "rename", self._meta), (os, "replace", self._meta), (os, "remove", self._meta),
                   (os, "unlink", self._meta), (shutil, "move", self._meta)]
        repl = {}
        for mod, attr, mk in targets:
            orig = getattr(mod, attr)
            repl[id(orig)] = (orig, mk(f"{mod.__name__}.{attr}", orig))
            self._patch(mod, attr, repl[id(orig)][1])
        for attr, ext in (("savez", ".npz"), ("savez_compressed", ".npz"), ("save", ".npy")):
            orig = getattr(np, attr)
            repl[id(orig)] = (orig, self._write(f"np.{attr}", orig, ext))
            self._patch(np, attr, repl[id(orig)][1])
        orig = builtins.open
        repl[id(orig)] = (orig, self._open(orig))
        self._patch(builtins, "open", repl[id(orig)][1])
        # aliases imported by name into library modules (from os import rename, ...)
        for mn in LIB_MODULES:
            mod = sys.modules.get(mn)
            if mod is None:
                continue
            for attr, val in list(vars(mod).items()):
                hit = repl.get(id(val))
                if hit is not None and hit[0] is val:
                    self._patch(mod, attr, hit[1])
        return self

    def _patch(self, mod, attr, new):
        self._saved.append((mod, attr, getattr(mod, attr)))
        setattr(mod, attr, new)

    def __exit__(self, *exc):
        for mod, attr, old in reversed(self._saved):
            setattr(mod, attr, old)
        self._saved = []
        return False


def crash_points(ops, max_step=None):
    out = []
    for o in ops:
        if max_step is not None and o["step"] > max_step:
            continue
        out.append((o["i"], "before"))
        if o["kind"] == "write":
            out.extend((o["i"], c) for c in TRUNC)
        elif o["kind"] == "open":
            out.append((o["i"], "0%"))
    return out


def run_inproc(js, d, run, fault=None, dumps=None):
    """run the job of spec js in directory d; returns (crashed, step at the crash / last step, FS object)"""
    os.makedirs(d, exist_ok=True)
    job = build_job(js, d, run)
    if dumps is not None:
        capture_dumps(job, dumps)
    fs = FS(d, fault, step_fn=lambda: job_step(job))
    crashed = False
    try:
        with fs:
            evolve_job(job, js, run)
    except Crash:
        crashed = True
    return crashed, job_step(job), fs


def snapshot(d):
    out = {}
    for fn in os.listdir(d):
        p = os.path.join(d, fn)
        if os.path.isfile(p):
            with _real_open(p, "rb") as f:
                out[fn] = f.read()
    return out


def clear_dir(d):
    """empty directory d (created when missing) without removing the directory itself"""
    if not os.path.isdir(d):
        os.makedirs(d)
        return
    for fn in os.listdir(d):
        p = os.path.join(d, fn)
        if os.path.isdir(p) and not os.path.islink(p):
            shutil.rmtree(p)
        else:
            os.unlink(p)


def restore(snap, d):
    """make directory d hold exactly the files of the snapshot"""
    clear_dir(d)
    for fn, data in snap.items():
        with _real_open(os.path.join(d, fn), "wb") as f:
            f.write(data)


def describe_job(js):
    return f"job={js['kind']} nsteps={js['nsteps']} dump_mps={js['dump_mps']}"


class Tally:
    """collects the outcome of all enumerated crash sequences of one history"""

    def __init__(self, r, js1, js2, mode):
        self.r = r
        self.js1, self.js2, self.mode = js1, js2, mode
        self.n = {"l1": 0, "l2": 0, "l1.required": 0, "l2.required": 0, "l1.inside_write": 0, "l2.after_partial": 0}
        self.per_sig = {}

    def _fail(self, sig, msg):
        c = self.per_sig.get(sig, 0)
        self.per_sig[sig] = c + 1
        if c < 2:
            self.r.fail(sig, msg)

    def level1(self, what, k, scan):
        self.n["l1"] += 1
        self.r.subchecks += 1
        req, ok = judge_single(scan, k)
        self.n["l1.required"] += int(req)
        part = partial_result_present(scan)
        self.n["l1.inside_write"] += int(part and k >= 2)
        if any(v[0] == "loadable_but_wrong" for v in scan.values()):
            self._fail("crash.single_run.loadable_but_wrong_content",
                       f"{describe_job(self.js1)} mode={self.mode} | l1: {what} step={k} -> {fmt_scan(scan)}")
        if not ok:
            self._fail("crash.single_run.no_complete_file",
                       f"{describe_job(self.js1)} mode={self.mode} | l1: {what} l1.step={k} -> {fmt_scan(scan)}: no complete result "
                       f"file of step {k} or {k - 1}")
        return part

    def level2(self, what1, k, scan1, what2, k2, scan2):
        self.n["l2"] += 1
        self.r.subchecks += 1
        req, ok = judge_restart(scan1, scan2, k, k2)
        self.n["l2.required"] += int(req)
        part = partial_result_present(scan1)
        self.n["l2.after_partial"] += int(part)
        if any(v[0] == "loadable_but_wrong" for v in scan2.values()):
            self._fail("crash.restart.loadable_but_wrong_content", f"l1: {what1} | l2: {what2} -> {fmt_scan(scan2)}")
        if ok:
            return
        msg = (f"{describe_job(self.js1)} restart[{describe_job(self.js2)}] mode={self.mode} | l1: {what1} l1.step={k} "
               f"l1.partial_result={int(part)} left {fmt_scan(scan1)} | l2: {what2} l2.step={k2} -> {fmt_scan(scan2)}: no complete "
               f"result file remains")
        if part and k >= 2 and k2 == 1:
            self._fail("crash.restart_after_partial_write.no_complete_file", msg)
        else:
            self._fail("crash.restart.no_complete_file", msg)


def final_state_check(r, scan, run, nsteps, what):
    r.subchecks += 1
    if (run, nsteps) not in results_of(scan):
        r.fail("crash.none.final_state", f"{what}: after an undisturbed run the directory holds {fmt_scan(scan)}, "
                                        f"expected a complete file of run {run} step {nsteps}")


def enumerate_inproc(js1, js2, r, l2_stride=1):
    """all single crashes of history js1 and - when js2 is given - all two-level sequences (crash, restart with js2, crash
    within the restarted job's dumps).  Returns the Tally."""
    base = tempfile.mkdtemp(prefix="c14b_", dir="/tmp")
    t = Tally(r, js1, js2, "inproc")
    try:
        refs = {1: {}, 2: {}}
        d = os.path.join(base, "rec1")
        crashed, _, fs0 = run_inproc(js1, d, 1, None, refs[1])
        assert not crashed
        final_state_check(r, scan_dir(d, refs), 1, js1["nsteps"], describe_job(js1))
        ops1 = fs0.ops
        if js2 is not None:
            d2 = os.path.join(base, "rec2")
            run_inproc(js2, d2, 2, None, refs[2])
            final_state_check(r, scan_dir(d2, refs), 2, js2["nsteps"], describe_job(js2) + " (restart, clean dir)")
        t.ops1 = len(ops1)
        work = os.path.join(base, "w")
        work2 = os.path.join(base, "w2")
        for p1 in crash_points(ops1):
            clear_dir(work)
            crashed, k, fs = run_inproc(js1, work, 1, p1)
            if not crashed:
                raise RuntimeError(f"fault {p1} did not fire: the job's file-system call sequence is not reproducible")
            f = fs.fired
            what1 = f"crash {f['action']} call#{f['i']} {f['name']}({','.join(f['paths'])}) {f['extra']}".strip()
            scan1 = scan_dir(work, refs)
            t.level1(what1, k, scan1)
            if js2 is None:
                continue
            snap = snapshot(work)
            # undisturbed restart into the left-over directory: must end with the restarted run's last step on disk
            restore(snap, work2)
            crashed, _, fsr = run_inproc(js2, work2, 2, None)
            assert not crashed
            final_state_check(r, scan_dir(work2, refs), 2, js2["nsteps"], f"restart after [{what1}]")
            pts2 = crash_points(fsr.ops, max_step=2)
            for idx, p2 in enumerate(pts2):
                if l2_stride > 1 and idx % l2_stride:
                    continue
                restore(snap, work2)
                crashed, k2, fs2 = run_inproc(js2, work2, 2, p2)
                if not crashed:
                    raise RuntimeError(f"restart fault {p2} did not fire")
                g = fs2.fired
                what2 = f"crash {g['action']} call#{g['i']} {g['name']}({','.join(g['paths'])}) {g['extra']}".strip()
                t.level2(what1, k, scan1, what2, k2, scan_dir(work2, refs))
        if js2 is not None and js1["nsteps"] >= 1:
            # a directory as a crash of the OLD rotate-to-backup protocol (or any foreign tool) leaves it, which dump_dict
            # explicitly caters for ("restarted in a directory that holds a partial file left by an earlier crash"): the complete
            # last result as <job>.npz.bak next to a truncated <job>.npz.  The restarted job must never lose the only complete file.
            good = os.path.join(d, JOB + ".npz")
            if os.path.isfile(good):
                with _real_open(good, "rb") as fh:
                    data = fh.read()
                snap = {JOB + ".npz.bak": data, JOB + ".npz": data[: max(1, len(data) // 2)]}
                restore(snap, work)
                scan1 = scan_dir(work, refs)
                what1 = "legacy left-over: complete .npz.bak + truncated .npz"
                k = js1["nsteps"] + 1
                restore(snap, work2)
                crashed, _, fsr = run_inproc(js2, work2, 2, None)
                assert not crashed
                final_state_check(r, scan_dir(work2, refs), 2, js2["nsteps"], f"restart after [{what1}]")
                for p2 in crash_points(fsr.ops, max_step=2):
                    restore(snap, work2)
                    crashed, k2, fs2 = run_inproc(js2, work2, 2, p2)
                    if not crashed:
                        raise RuntimeError(f"restart fault {p2} did not fire")
                    g = fs2.fired
                    what2 = f"crash {g['action']} call#{g['i']} {g['name']}({','.join(g['paths'])}) {g['extra']}".strip()
                    t.level2(what1, max(k, 2), scan1, what2, k2, scan_dir(work2, refs))
                t.n["legacy_leftover"] = t.n.get("legacy_leftover", 0) + 1
    finally:
        shutil.rmtree(base, ignore_errors=True)
    return t


# ------------------------------------------------------------------------------------------------
# real process death: forked child, strace attached, SIGKILL injected at the N-th matching system call
# ------------------------------------------------------------------------------------------------

_STRACE_OK = None


def strace_available():
    global _STRACE_OK
    if _STRACE_OK is None:
        try:
            _STRACE_OK = subprocess.run(["strace", "-V"], capture_output=True, timeout=20).returncode == 0
        except Exception:
            _STRACE_OK = False
    return _STRACE_OK


def guess_names():
    names = [JOB + ".npz", JOB + ".npz.bak", JOB + "_mps.npz", JOB + ".npz.tmp", JOB + ".tmp.npz", JOB + ".npz.new",
             JOB + ".tmp", JOB + ".npz.part"]
    names += [f"{JOB}_mps_{i}.npz" for i in range(0, 8)]
    return names


def run_child(js, run, d, inject=None, names=None, trace_path=None):
    """fork; the child builds the job, waits for the go signal and evolves; strace is attached to it before the go signal.
    inject = (syscall, N): SIGKILL on entering the N-th such call on one of the named paths.
    returns dict(killed, exit, step, trace)"""
    os.makedirs(d, exist_ok=True)
    go_r, go_w = os.pipe()
    pr_r, pr_w = os.pipe()
    pid = os.fork()
    if pid == 0:
        code = 3
        try:
            os.close(go_w)
            os.close(pr_r)
            signal.alarm(0)
            job = build_job(js, d, run)
            orig = job.get_dump_dict

            def spy():
                os.write(pr_w, b"%d\n" % job_step(job))
                return orig()

            job.get_dump_dict = spy
            if os.read(go_r, 1) == b"g":  # EOF = the harness went away: do nothing
                evolve_job(job, js, run)
                code = 0
        except BaseException:  # noqa
            try:
                traceback.print_exc()
            except BaseException:  # noqa
                pass
        finally:
            os._exit(code)
    os.close(go_r)
    os.close(pr_w)
    own_trace = trace_path is None
    if own_trace:
        fd, trace_path = tempfile.mkstemp(prefix="c14tr_", dir=os.path.dirname(os.path.abspath(d)))
        os.close(fd)
    cmd = ["strace", "-f", "-s", "0", "-p", str(pid), "-o", trace_path, "-e", "trace=" + SYSCALLS]
    if inject is not None:
        cmd += ["-e", f"inject={inject[0]}:signal=KILL:when={inject[1]}"]
    if names is not None:
        for n in names:
            cmd += ["-P", os.path.join(d, n)]
    st = None
    attached = False
    try:
        st = subprocess.Popen(cmd, stdout=subprocess.DEVNULL, stderr=subprocess.PIPE)
        while True:
            line = st.stderr.readline()
            if not line:
                break
            if b"attached" in line:
                attached = True
                break
        if not attached:
            os.kill(pid, signal.SIGKILL)
        else:
            os.write(go_w, b"g")
        os.close(go_w)
        _, status = os.waitpid(pid, 0)
        try:
            st.stderr.read()
        except Exception:
            pass
        st.wait(timeout=60)
        prog = b""
        while True:
            chunk = os.read(pr_r, 65536)
            if not chunk:
                break
            prog += chunk
        os.close(pr_r)
        steps = [int(x) for x in prog.split()]
        with _real_open(trace_path, "r", errors="replace") as f:
            trace = f.read()
    finally:
        if st is not None and st.poll() is None:
            st.kill()
        if own_trace and os.path.exists(trace_path):
            os.remove(trace_path)
    return {"attached": attached, "killed": os.WIFSIGNALED(status) and os.WTERMSIG(status) == signal.SIGKILL,
            "exit": os.WEXITSTATUS(status) if os.WIFEXITED(status) else None, "step": steps[-1] if steps else 0,
            "trace": trace}


_LINE = re.compile(r"^\d+\s+(\w+)\((.*)$")


def parse_trace(trace, d):
    """(names under d mentioned by path-taking calls, count of traced calls per syscall name)"""
    names, counts = set(), {}
    root = os.path.realpath(d)
    for line in trace.splitlines():
        m = _LINE.match(line)
        if not m:
            continue
        name, rest = m.group(1), m.group(2)
        counts[name] = counts.get(name, 0) + 1
        for s in re.findall(r'"((?:[^"\\]|\\.)*)"', rest):
            if s.startswith(root + os.sep) or s.startswith(d + os.sep):
                names.add(os.path.basename(s))
    return names, counts


def discover(js, run, d, snap=None, names=None):
    """undisturbed traced runs: which paths does the job touch, how many traced calls of each kind on them"""
    if snap is not None:
        restore(snap, d)
    elif os.path.isdir(d):
        shutil.rmtree(d)
    if names is None:
        res = run_child(js, run, d)
        if not res["attached"]:
            return None, None, res
        found, _ = parse_trace(res["trace"], d)
        names = sorted(set(guess_names()) | found)
        if snap is not None:
            restore(snap, d)
        else:
            shutil.rmtree(d)
    res = run_child(js, run, d, names=names)
    _, counts = parse_trace(res["trace"], d)
    return names, counts, res


_DEATH_CTX = {}


def _death_task(arg):
    """one level-1 crash (syscall s, N) and - with a restart spec - every level-2 crash after it; returns plain records"""
    s, N, idx = arg
    c = _DEATH_CTX
    js1, js2, refs, names, base = c["js1"], c["js2"], c["refs"], c["names"], c["base"]
    d = os.path.join(base, f"t{idx}")
    out = []
    try:
        res = run_child(js1, 1, d, inject=(s, N), names=names)
        scan1 = scan_dir(d, refs)
        rec = {"what": f"SIGKILL entering {s} #{N}", "k": res["step"], "scan": scan1, "killed": res["killed"], "l2": [],
               "restart_final": None}
        out.append(rec)
        if js2 is None or not res["killed"]:
            return out
        snap = snapshot(d)
        d2 = os.path.join(base, f"t{idx}r")
        _, counts2, res0 = discover(js2, 2, d2, snap=snap, names=names)
        rec["restart_final"] = (scan_dir(d2, refs), res0["exit"])
        for s2, cnt in sorted(counts2.items()):
            for N2 in range(1, cnt + 1):
                restore(snap, d2)
                res2 = run_child(js2, 2, d2, inject=(s2, N2), names=names)
                rec["l2"].append({"what": f"SIGKILL entering {s2} #{N2}", "k": res2["step"], "scan": scan_dir(d2, refs),
                                  "killed": res2["killed"]})
        return out
    finally:
        for x in (d, os.path.join(base, f"t{idx}r")):
            shutil.rmtree(x, ignore_errors=True)


def enumerate_death(js1, js2, r, workers=16):
    """real process death at every traced system call of the run (and of the restarted run's dumps)"""
    import multiprocessing as mp

    t = Tally(r, js1, js2, "sigkill")
    if not strace_available():
        r.rejected = "strace not available"
        return t
    base = tempfile.mkdtemp(prefix="c14d_", dir="/tmp")
    try:
        refs = {1: {}, 2: {}}
        run_inproc(js1, os.path.join(base, "rec1"), 1, None, refs[1])
        if js2 is not None:
            run_inproc(js2, os.path.join(base, "rec2"), 2, None, refs[2])
        d0 = os.path.join(base, "d0")
        names, counts, res = discover(js1, 1, d0)
        if names is None:
            r.rejected = "strace could not attach (ptrace not permitted)"
            return t
        if js2 is not None:
            n2, _, _ = discover(js2, 2, os.path.join(base, "d0r"))
            names = sorted(set(names) | set(n2 or []))
        final_state_check(r, scan_dir(d0, refs), 1, js1["nsteps"], describe_job(js1) + " (child under strace, no fault)")
        tasks = []
        for s, cnt in sorted(counts.items()):
            for N in range(1, cnt + 1):
                tasks.append((s, N, len(tasks)))
        t.ops1 = len(tasks)
        _DEATH_CTX.update(js1=js1, js2=js2, refs=refs, names=names, base=base)
        if mp.current_process().daemon or workers <= 1 or len(tasks) < 4:
            recs = [_death_task(a) for a in tasks]
        else:
            ctx = mp.get_context("fork")
            with ctx.Pool(min(workers, os.cpu_count() or 1, len(tasks))) as pool:
                recs = pool.map(_death_task, tasks, chunksize=1)
        not_killed = 0
        for rl in recs:
            for rec in rl:
                if not rec["killed"]:
                    not_killed += 1
                    continue
                t.level1(rec["what"], rec["k"], rec["scan"])
                if rec["restart_final"] is not None:
                    final_state_check(r, rec["restart_final"][0], 2, js2["nsteps"], f"restart after [{rec['what']}]")
                for l2 in rec["l2"]:
                    if not l2["killed"]:
                        not_killed += 1
                        continue
                    t.level2(rec["what"], rec["k"], rec["scan"], l2["what"], l2["k"], l2["scan"])
        t.not_killed = not_killed
    finally:
        shutil.rmtree(base, ignore_errors=True)
    return t

"""Coverage-guided phase (atheris / libFuzzer) for properties whose case runs in milliseconds.

    python -m vf.fuzz <ID> <tier> <seed> <runs> <shard> <outfile> [corpus_dir]

The fuzzer mutates the byte stream that drives the property's Hypothesis strategy (`test.hypothesis.fuzz_one_input`), with the
library modules named by `PROP.fuzz(tier)["include"]` instrumented for coverage, so inputs that reach new branches of the
library are kept and mutated further.  The oracle is the property's own `run_case` (same signatures, same replay files); results
are accumulated in an `Agg` that is pickled to <outfile> (atheris.Fuzz() never returns and skips atexit, hence the periodic
flush).  Started by vf.core as sub-processes, one per shard, each with its own empty corpus directory and -seed."""
import os
import pickle
import sys
import tempfile
import warnings


def main():
    pid, tier, seed, runs, shard, outfile = sys.argv[1], sys.argv[2], int(sys.argv[3]), int(sys.argv[4]), int(sys.argv[5]), sys.argv[6]
    warnings.filterwarnings("ignore")
    import atheris

    from vf import core

    mod = __import__(f"vf.props.{pid.lower()}", fromlist=["PROP"])
    prop = mod.PROP
    cfg = prop.fuzz(tier) or {}
    include = list(cfg.get("include", ["renormalizer"]))
    # instrument the library modules under test (they are imported lazily by run_case, i.e. after this point)
    for name in list(sys.modules):
        if any(name == inc or name.startswith(inc + ".") for inc in include):
            del sys.modules[name]
    with atheris.instrument_imports(include=include):
        for inc in include:
            try:
                __import__(inc)
            except Exception:  # noqa
                pass

    import hypothesis
    from hypothesis import given, settings, HealthCheck, Phase

    agg = core.Agg()
    state = {"n": 0}

    def flush():
        tmp = outfile + ".tmp"
        with open(tmp, "wb") as f:
            pickle.dump(agg, f)
        os.replace(tmp, outfile)

    @settings(database=None, deadline=None, phases=[Phase.generate], suppress_health_check=list(HealthCheck), max_examples=1)
    @given(prop.strategy(tier))
    def body(spec):
        res, herr = core.safe_run(prop, spec)
        agg.add(spec, res, herr)

    def one(data):
        state["n"] += 1
        try:
            body.hypothesis.fuzz_one_input(data)
        except BaseException as e:  # noqa
            if isinstance(e, (KeyboardInterrupt, SystemExit)):
                raise
            import traceback
            agg.harness_errors.append({"spec": None, "trace": traceback.format_exc()[-3000:]})
        if state["n"] % 100 == 0 or state["n"] >= runs:
            flush()

    corpus = sys.argv[7] if len(sys.argv) > 7 else tempfile.mkdtemp(prefix=f"vfuzz_{pid}_{shard}_")
    os.makedirs(corpus, exist_ok=True)
    # starting corpus: a few pseudo-random byte strings (a pure function of seed and shard), long enough for the strategy to draw a
    # complete case from them; libFuzzer's own first inputs are too short for that and would all be rejected as incomplete
    import random as _random
    rnd = _random.Random(seed * 1000 + shard)
    for k, ln in enumerate((256, 512, 1024, 2048, 4096, 4096)):
        with open(os.path.join(corpus, f"seed_{k}"), "wb") as f:
            f.write(bytes(rnd.getrandbits(8) for _ in range(ln)))
    flush()
    try:
        atheris.Setup([sys.argv[0], f"-runs={runs}", f"-seed={seed * 1000 + shard + 1}", "-max_len=8192", "-len_control=0", "-print_final_stats=0",
                       "-verbosity=0", corpus], one)
        atheris.Fuzz()
    finally:
        flush()


if __name__ == "__main__":
    main()

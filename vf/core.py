"""Shared runner for all property checks.

A property module (vf/props/cXX.py) exposes an object ``PROP`` (subclass of ``Prop``) with

* ``strategy(tier)``      -> Hypothesis strategy that draws a *plain-data* case spec
* ``run_case(spec)``      -> ``Result`` (never raises for library misbehaviour)
* ``budget(tier)``        -> dict(examples=int, shards=int)
* optional ``finite_cases(tier)`` -> iterable of specs enumerated completely (no Hypothesis)

The runner replays saved specs first, then drives the generators (sharded over worker processes, each
shard seeded with ``VERIF_SEED*1000+i``), collects failures by signature without stopping at the first
one, filters them through ``known_findings.json``, writes the evidence file and prints the
``VIOLATION`` / ``KNOWN-FINDING`` lines demanded by the interface.
"""
import hashlib
import json
import os
import sys
import time
import traceback
import multiprocessing as mp

VERIF = os.path.dirname(os.path.dirname(os.path.abspath(__file__)))
REPO = os.environ.get("VERIF_REPO", "/repo")


class Result:
    """Outcome of one executed case."""

    __slots__ = ("failures", "nontrivial", "classes", "rejected", "residuals", "info", "subchecks")

    def __init__(self):
        self.failures = []  # list of (signature, message)
        self.nontrivial = False
        self.classes = []  # labels for the class histogram
        self.rejected = None  # reason string when the library refused the input cleanly
        self.residuals = {}  # name -> (value, tolerance)
        self.info = {}
        self.subchecks = 0

    def fail(self, sig, msg):
        self.failures.append((str(sig), str(msg)[:2000]))

    def resid(self, name, value, tol):
        try:
            value = float(value)
        except Exception:
            value = float("nan")
        old = self.residuals.get(name)
        ratio = value / tol if tol else value
        if old is None or ratio > (old[0] / old[1] if old[1] else old[0]):
            self.residuals[name] = (value, float(tol))

    def check_close(self, sig, got, ref, tol, what=""):
        """‖got-ref‖_max <= tol ; shape/finite mismatches are failures too."""
        import numpy as np

        self.subchecks += 1
        try:
            got = np.asarray(got)
            ref = np.asarray(ref)
            if got.shape != ref.shape:
                self.fail(sig, f"{what} shape {got.shape} != reference {ref.shape}")
                return False
            if got.size == 0:
                return True
            if not np.all(np.isfinite(got)):
                self.fail(sig, f"{what} non-finite result")
                return False
            err = float(np.max(np.abs(got - ref)))
        except Exception as e:  # noqa
            self.fail(sig, f"{what} incomparable: {e!r}")
            return False
        self.resid(sig, err, tol)
        if not err <= tol:
            self.fail(sig, f"{what} err={err:.3e} tol={tol:.3e}")
            return False
        return True

    def check(self, sig, cond, msg=""):
        self.subchecks += 1
        if not cond:
            self.fail(sig, msg)
            return False
        return True


class Prop:
    id = "C00"
    level = "exploration"
    rule = ""
    assumptions = []
    exhaustive = False

    def strategy(self, tier):
        raise NotImplementedError

    def budget(self, tier):
        return dict(examples=200, shards=1)

    def fuzz(self, tier):
        """optional coverage-guided phase: dict(runs=<per shard>, shards=<n>, include=[library modules to instrument]) or None"""
        return None

    def finite_cases(self, tier):
        return []

    def run_case(self, spec):
        raise NotImplementedError

    # known findings: name -> predicate(spec, signature, message)
    known_matchers = {}

    def sample_view(self, spec):
        return spec


# ------------------------------------------------------------------------------------------------


def canon(spec):
    return json.dumps(spec, sort_keys=True, default=_json_default)


def _json_default(o):
    import numpy as np

    if isinstance(o, (np.integer,)):
        return int(o)
    if isinstance(o, (np.floating,)):
        return float(o)
    if isinstance(o, complex):
        return {"__complex__": [o.real, o.imag]}
    if isinstance(o, np.ndarray):
        return o.tolist()
    if isinstance(o, (set, frozenset, tuple)):
        return list(o)
    return repr(o)


def spec_hash(spec):
    return hashlib.sha1(canon(spec).encode()).hexdigest()[:16]


def lib_exception_sig(e):
    """(type, innermost renormalizer frame) bucket for an exception raised by the library."""
    tb = traceback.extract_tb(e.__traceback__)
    where = "harness"
    for fr in reversed(tb):
        if "/renormalizer/" in fr.filename:
            where = f"{os.path.basename(fr.filename)}:{fr.name}"
            break
    return f"exc.{type(e).__name__}@{where}", where != "harness"


class CaseTimeout(BaseException):
    pass


def _alarm(*a):
    raise CaseTimeout()


def safe_run(prop, spec):
    """run_case with a last-resort guard.  An exception that escapes run_case is a library failure
    when its innermost frames are in the library (the generators only produce in-domain inputs) and a
    harness error otherwise.  A case that exceeds the per-case wall budget (VERIF_CASE_TIMEOUT seconds,
    default 180) is abandoned and counted as inconclusive - never as a violation."""
    import signal

    limit = int(os.environ.get("VERIF_CASE_TIMEOUT", "0") or 0) or int(getattr(prop, "case_timeout", 180))
    use_alarm = limit > 0 and hasattr(signal, "SIGALRM")
    try:
        if use_alarm:
            try:
                signal.signal(signal.SIGALRM, _alarm)
                signal.alarm(limit)
            except ValueError:  # not in the main thread
                use_alarm = False
        try:
            return prop.run_case(spec), None
        finally:
            if use_alarm:
                signal.alarm(0)
    except CaseTimeout:
        try:  # keep the spec for inspection (tools/slow.py); never part of the verdict
            d = os.path.join(VERIF, "out", "timeouts")
            os.makedirs(d, exist_ok=True)
            with open(os.path.join(d, f"{prop.id}_{hashlib.sha1(canon(spec).encode()).hexdigest()[:10]}.json"), "w") as f:
                json.dump({"property": prop.id, "spec": spec}, f)
        except Exception:  # noqa
            pass
        r = Result()
        r.rejected = "inconclusive: per-case time budget exceeded"
        r.classes.append("inconclusive_budget")
        return r, None
    except BaseException as e:  # noqa
        if isinstance(e, (KeyboardInterrupt, SystemExit)):
            raise
        sig, in_lib = lib_exception_sig(e)
        txt = "".join(traceback.format_exception(type(e), e, e.__traceback__))[-3000:]
        r = Result()
        if in_lib:
            r.fail(sig, txt)
            return r, None
        return r, txt


class Agg:
    def __init__(self):
        self.evaluations = 0
        self.nontrivial_hashes = set()
        self.classes = {}
        self.rejected = {}
        self.residuals = {}
        self.failures = {}  # sig -> dict(count, spec, msg, size)
        self.harness_errors = []
        self.samples = []
        self.subchecks = 0

    def add(self, spec, res, herr):
        self.evaluations += 1
        self.subchecks += res.subchecks
        if herr is not None:
            if len(self.harness_errors) < 5:
                self.harness_errors.append({"spec": spec, "trace": herr})
            return
        if res.rejected:
            self.rejected[res.rejected] = self.rejected.get(res.rejected, 0) + 1
        if res.nontrivial:
            self.nontrivial_hashes.add(spec_hash(spec))
        for c in res.classes:
            self.classes[c] = self.classes.get(c, 0) + 1
        for k, (v, t) in res.residuals.items():
            old = self.residuals.get(k)
            if old is None or (v / t if t else v) > (old[0] / old[1] if old[1] else old[0]):
                self.residuals[k] = (v, t)
        if res.nontrivial and len(self.samples) < 4 and not res.failures:
            self.samples.append(spec)
        for sig, msg in res.failures:
            size = len(canon(spec))
            f = self.failures.get(sig)
            if f is None:
                self.failures[sig] = dict(count=1, spec=spec, msg=msg, size=size)
            else:
                f["count"] += 1
                if size < f["size"]:
                    f.update(spec=spec, msg=msg, size=size)

    def merge(self, other):
        self.evaluations += other.evaluations
        self.subchecks += other.subchecks
        self.nontrivial_hashes |= other.nontrivial_hashes
        for k, v in other.classes.items():
            self.classes[k] = self.classes.get(k, 0) + v
        for k, v in other.rejected.items():
            self.rejected[k] = self.rejected.get(k, 0) + v
        for k, (v, t) in other.residuals.items():
            old = self.residuals.get(k)
            if old is None or (v / t if t else v) > (old[0] / old[1] if old[1] else old[0]):
                self.residuals[k] = (v, t)
        for sig, f in other.failures.items():
            g = self.failures.get(sig)
            if g is None:
                self.failures[sig] = dict(f)
            else:
                g["count"] += f["count"]
                if f["size"] < g["size"]:
                    g.update(spec=f["spec"], msg=f["msg"], size=f["size"])
        self.harness_errors.extend(other.harness_errors)
        self.harness_errors = self.harness_errors[:5]
        for s in other.samples:
            if len(self.samples) < 5:
                self.samples.append(s)


def _load_prop(pid):
    import importlib

    mod = importlib.import_module(f"vf.props.{pid.lower()}")
    return mod.PROP


def _shard_worker(args):
    pid, tier, seed, n_examples, shard = args
    import warnings

    warnings.filterwarnings("ignore")
    prop = _load_prop(pid)
    agg = Agg()
    if n_examples <= 0:
        return agg
    import hypothesis
    from hypothesis import given, settings, HealthCheck, Phase

    strat = prop.strategy(tier)

    @hypothesis.seed(seed)
    @settings(
        max_examples=n_examples,
        database=None,
        deadline=None,
        derandomize=False,
        report_multiple_bugs=False,
        phases=[Phase.generate],
        suppress_health_check=list(HealthCheck),
    )
    @given(strat)
    def body(spec):
        res, herr = safe_run(prop, spec)
        agg.add(spec, res, herr)

    try:
        body()
    except BaseException as e:  # noqa
        if isinstance(e, (KeyboardInterrupt, SystemExit)):
            raise
        agg.harness_errors.append({"spec": None, "trace": traceback.format_exc()[-3000:]})
    return agg


def run_fuzz(pid, tier, seed, fz, agg):
    """start one `python -m vf.fuzz` process per shard (fresh interpreter: the library is imported under coverage
    instrumentation there), wait, merge their pickled aggregates.  A shard that cannot start (atheris missing) is reported as a
    harness note, never as a violation."""
    import pickle
    import shutil
    import subprocess
    import tempfile

    shards = max(1, min(int(fz.get("shards", 8)), os.cpu_count() or 1))
    tmp = tempfile.mkdtemp(prefix=f"vfuzz_{pid}_")
    procs = []
    try:
        for i in range(shards):
            out = os.path.join(tmp, f"agg_{i}.pkl")
            cmd = [sys.executable, "-m", "vf.fuzz", pid, tier, str(seed), str(int(fz["runs"])), str(i), out, os.path.join(tmp, f"corpus_{i}")]
            procs.append((out, subprocess.Popen(cmd, stdout=subprocess.DEVNULL, stderr=subprocess.PIPE, cwd=VERIF)))
        total = 0
        for out, p in procs:
            try:
                _, err = p.communicate(timeout=float(fz.get("timeout", 3600)))
            except subprocess.TimeoutExpired:
                p.kill()
                _, err = p.communicate()
            if os.path.exists(out):
                try:
                    with open(out, "rb") as f:
                        sub = pickle.load(f)
                    total += sub.evaluations
                    agg.merge(sub)
                    continue
                except Exception:  # noqa
                    pass
            agg.fuzz_notes = getattr(agg, "fuzz_notes", []) + [(err or b"").decode(errors="replace")[-400:]]
        return total
    finally:
        shutil.rmtree(tmp, ignore_errors=True)


def shrink_failure(prop, tier, sig, seed, spec0, max_seconds=120):
    """Minimise a failing spec with Hypothesis' own shrinker (hypothesis.find).  Best effort."""
    import hypothesis
    from hypothesis import settings, HealthCheck, Phase

    t0 = time.time()

    def pred(spec):
        if time.time() - t0 > max_seconds:
            return False
        res, herr = safe_run(prop, spec)
        return any(s == sig for s, _ in res.failures)

    try:
        return hypothesis.find(
            prop.strategy(tier),
            pred,
            random=__import__("random").Random(seed),
            settings=settings(
                max_examples=400,
                database=None,
                deadline=None,
                suppress_health_check=list(HealthCheck),
                phases=[Phase.generate, Phase.shrink],
            ),
        )
    except Exception:
        return spec0


def load_known():
    path = os.path.join(VERIF, "known_findings.json")
    if not os.path.exists(path):
        return []
    with open(path) as f:
        return json.load(f).get("findings", [])


def main(argv=None):
    import argparse

    ap = argparse.ArgumentParser()
    ap.add_argument("pid")
    ap.add_argument("--tier", default=os.environ.get("VERIF_TIER", "quick"), choices=["quick", "thorough"])
    ap.add_argument("--replay", default=None)
    ap.add_argument("--examples", type=int, default=None)
    ap.add_argument("--shards", type=int, default=None)
    ap.add_argument("--no-evidence", action="store_true")
    ap.add_argument("--shrink", action="store_true")
    a = ap.parse_args(argv)
    pid = a.pid.upper()
    tier = a.tier
    try:
        seed = int(os.environ.get("VERIF_SEED", "1"))
    except ValueError:
        seed = 1
    t0 = time.time()
    import warnings

    warnings.filterwarnings("ignore")
    try:
        prop = _load_prop(pid)
    except Exception:
        traceback.print_exc()
        print(f"HARNESS-ERROR property={pid} import failed")
        return 2

    agg = Agg()
    # ---- single replay -------------------------------------------------------------------------
    if a.replay:
        with open(a.replay) as f:
            doc = json.load(f)
        spec = doc["spec"] if isinstance(doc, dict) and "spec" in doc else doc
        res, herr = safe_run(prop, spec)
        agg.add(spec, res, herr)
        return finish(prop, pid, tier, seed, agg, t0, write_evidence=False, replay_mode=True)

    # ---- saved replays (regression tier) -----------------------------------------------------------
    rdir = os.path.join(VERIF, "replay", pid)
    n_replay = 0
    if os.path.isdir(rdir):
        for fn in sorted(os.listdir(rdir)):
            if not fn.endswith(".json"):
                continue
            with open(os.path.join(rdir, fn)) as f:
                doc = json.load(f)
            spec = doc["spec"] if isinstance(doc, dict) and "spec" in doc else doc
            res, herr = safe_run(prop, spec)
            agg.add(spec, res, herr)
            n_replay += 1
    # ---- finite, completely enumerated part ------------------------------------------------------
    for spec in prop.finite_cases(tier):
        res, herr = safe_run(prop, spec)
        agg.add(spec, res, herr)
    # ---- generated part ----------------------------------------------------------------------------
    b = prop.budget(tier)
    n = a.examples if a.examples is not None else b.get("examples", 200)
    shards = a.shards if a.shards is not None else b.get("shards", 1)
    shards = max(1, min(shards, os.cpu_count() or 1))
    per = [n // shards + (1 if i < n % shards else 0) for i in range(shards)]
    jobs = [(pid, tier, seed * 1000 + i, per[i], i) for i in range(shards) if per[i] > 0]
    if len(jobs) <= 1:
        for j in jobs:
            agg.merge(_shard_worker(j))
    else:
        ctx = mp.get_context("fork")
        with ctx.Pool(len(jobs)) as pool:
            for sub in pool.imap_unordered(_shard_worker, jobs):
                agg.merge(sub)
    agg.n_replay = n_replay
    # ---- coverage-guided part (atheris / libFuzzer drives the same strategy and oracle) --------------------------------
    fz = prop.fuzz(tier) if a.examples is None else None
    if fz and fz.get("runs", 0) > 0:
        n_fuzz = run_fuzz(pid, tier, seed, fz, agg)
        agg.classes["coverage_guided_execs"] = agg.classes.get("coverage_guided_execs", 0) + n_fuzz
    if (a.shrink or tier == "thorough") and agg.failures:
        for sig, f in list(agg.failures.items())[:3]:
            small = shrink_failure(prop, tier, sig, seed, f["spec"])
            if small is not None and len(canon(small)) < f["size"]:
                res, _ = safe_run(prop, small)
                for s, m in res.failures:
                    if s == sig:
                        f.update(spec=small, msg=m, size=len(canon(small)))
    return finish(prop, pid, tier, seed, agg, t0, write_evidence=not a.no_evidence)


def finish(prop, pid, tier, seed, agg, t0, write_evidence=True, replay_mode=False):
    # a finding belongs to one property; `also` lists further properties whose checks run into the same defect
    known = [k for k in load_known() if (k.get("property") == pid or pid in k.get("also", [])) and k.get("status") == "known"]
    out_dir = os.path.join(VERIF, "out", "replay", pid)
    violations = []
    known_hits = {}
    for sig, f in sorted(agg.failures.items()):
        hit = None
        for k in known:
            m = prop.known_matchers.get(k["id"])
            try:
                if m is not None and m(f["spec"], sig, f["msg"]):
                    hit = k
                    break
            except Exception:
                pass
        if hit is not None:
            known_hits.setdefault(hit["id"], [hit, 0])
            known_hits[hit["id"]][1] += f["count"]
            continue
        os.makedirs(out_dir, exist_ok=True)
        path = os.path.join(out_dir, hashlib.sha1(sig.encode()).hexdigest()[:10] + ".json")
        with open(path, "w") as fh:
            json.dump({"property": pid, "signature": sig, "message": f["msg"], "count": f["count"],
                       "seed": seed, "tier": tier, "spec": f["spec"]}, fh, indent=1, default=_json_default)
        violations.append((sig, path, f))
    for kid, (k, cnt) in sorted(known_hits.items()):
        print(f"KNOWN-FINDING: property={pid} {kid}: {k.get('what', '')} (hit {cnt}x)")
    for sig, path, f in violations:
        print(f"VIOLATION property={pid} replay={path}")
        print(f"  signature={sig} count={f['count']}\n  {f['msg'][:600]}")
    wall = time.time() - t0
    nontriv = len(agg.nontrivial_hashes)
    if write_evidence:
        cov = {
            "evaluations": int(agg.evaluations),
            "distinct_nontrivial": int(nontriv),
            "rule": prop.rule,
            "samples": [prop.sample_view(s) for s in agg.samples[:4]],
            "exhaustive": bool(getattr(prop, "exhaustive_now", False)),
            "class_histogram": dict(sorted(agg.classes.items())),
            "rejected_by_library_precondition": agg.rejected,
            "excluded_known": {k: v[1] for k, v in known_hits.items()},
            "sub_checks_evaluated": int(agg.subchecks),
            "worst_residuals": {k: {"value": v, "tolerance": t} for k, (v, t) in sorted(agg.residuals.items())},
            "saved_replays_run": int(getattr(agg, "n_replay", 0)),
            "harness_errors": len(agg.harness_errors),
        }
        if prop.fuzz(tier):
            cov["coverage_guided"] = {"tool": "atheris (libFuzzer) mutating the byte stream behind the Hypothesis strategy",
                                      "executions_included_in_evaluations": int(agg.classes.get("coverage_guided_execs", 0)),
                                      "shards_not_run": list(getattr(agg, "fuzz_notes", []))[:4]}
        ev = {
            "property_id": pid,
            "tier": tier,
            "seed": int(seed),
            "level": prop.level,
            "coverage": cov,
            "assumptions": list(prop.assumptions),
            "wall_s": round(wall, 2),
            "violations": len(violations),
        }
        os.makedirs(os.path.join(VERIF, "evidence"), exist_ok=True)
        tmp = os.path.join(VERIF, "evidence", f".{pid}.json.tmp")
        with open(tmp, "w") as fh:
            json.dump(ev, fh, indent=1, default=_json_default)
        os.replace(tmp, os.path.join(VERIF, "evidence", f"{pid}.json"))
    print(f"[{pid}] tier={tier} seed={seed} cases={agg.evaluations} nontrivial={nontriv} "
          f"subchecks={agg.subchecks} violations={len(violations)} known={sum(v[1] for v in known_hits.values())} "
          f"rejected={sum(agg.rejected.values())} wall={wall:.1f}s")
    if agg.harness_errors:
        print(f"HARNESS-ERROR property={pid} ({len(agg.harness_errors)} shown)")
        for h in agg.harness_errors[:2]:
            print(h["trace"])
            if h.get("spec") is not None:
                print("  spec:", canon(h["spec"])[:1500])
    if violations:
        return 1
    if agg.harness_errors:
        return 2
    if not replay_mode and agg.evaluations == 0:
        print(f"HARNESS-ERROR property={pid} nothing was evaluated")
        return 2
    return 0


if __name__ == "__main__":
    sys.exit(main())

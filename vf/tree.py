"""Tree tensor network machinery shared by C02, C11, C12 and the tree parts of C05/C06/C08/C13/C14.

(a) plain-data *tree specs*  {"model": <model spec of vf.gen>, "topo": <topology>}  with
      topology = {"ctor": "linear"|"binary"|"t3ns"}
               | {"ctor": "general_mctdh", "tree_order": 2|3, "contract_primitive": bool, "contract_label": [bool]|None}
               | {"groups": [[site,...],...], "dummy": [positions], "parent": [ints], "child_order": [ints], "dummy_auto": bool}
    random topology: the node list is `groups` with dummy nodes inserted at the (final) positions `dummy`; node 0 is the
    root, node i>0 hangs below node parent[i] % i (moved on cyclically while that node already has MAX_ARITY children);
    the children of a node are listed in ascending (child_order[c], c).  build(tspec) -> TreeCtx, build_tree(tspec) -> BasisTree.
(b) dense helpers (library todense with an explicit order AND an independent contraction of the raw node tensors),
    bipartitions per edge, label predicate, isometry defect.
(c) TInterp: TTNS program interpreter with a dense model in lock step (analogue of vf.chain.Interp).
"""
import traceback

import numpy as np
from hypothesis import strategies as st

from vf import gen
from vf.core import lib_exception_sig

BIG = 10 ** 6
MAX_ARITY = 4

# ------------------------------------------------------------------------------------------------
# (a) specs -> library objects
# ------------------------------------------------------------------------------------------------


def qn_size_of(mspec):
    return gen.qn_size(mspec)


def make_dummy(tag, k, qs):
    from renormalizer.model import basis as B

    if qs == 1:
        return B.BasisDummy(("vf dummy", tag, k))
    return B.BasisDummy(("vf dummy", tag, k), sigmaqn=[[0] * qs])


def explicit_nodes(topo):
    """random topology -> list of (group | None), parents (-1 for the root), children lists (ordered)"""
    groups = [list(g) for g in topo["groups"]]
    N = len(groups) + len(topo.get("dummy", []))
    dpos = sorted(set(int(p) % N for p in topo.get("dummy", [])))
    # exactly len(dummy) dummies: fill up positions if duplicates collapsed
    k = 0
    while len(dpos) < len(topo.get("dummy", [])):
        if k not in dpos:
            dpos.append(k)
        k += 1
    dpos = sorted(dpos)
    nodes = []
    gi = 0
    for i in range(N):
        if i in dpos:
            nodes.append(None)
        else:
            nodes.append(groups[gi])
            gi += 1
    parent = [-1] * N
    arity = [0] * N
    for i in range(1, N):
        p = int(topo["parent"][i % len(topo["parent"])]) % i
        while arity[p] >= MAX_ARITY:
            p = (p + 1) % i
        parent[i] = p
        arity[p] += 1
    keys = topo.get("child_order") or [0]
    children = [[] for _ in range(N)]
    for i in range(1, N):
        children[parent[i]].append(i)
    for p in range(N):
        children[p].sort(key=lambda c: (keys[c % len(keys)], c))
    return nodes, parent, children


def build_tree(tspec, bl=None, tag="a"):
    """BasisTree of a tree spec; `bl` = basis sets of the model in site order (built when not given, shared when given)."""
    from renormalizer.tn import BasisTree, TreeNodeBasis

    mspec = tspec["model"]
    topo = tspec["topo"]
    if bl is None:
        bl = gen.build_basis_list(mspec)
    ctor = topo.get("ctor")
    if ctor == "linear":
        return BasisTree.linear(list(bl))
    if ctor == "binary":
        return BasisTree.binary(list(bl))
    if ctor == "t3ns":
        return BasisTree.t3ns(list(bl))
    if ctor == "general_mctdh":
        order = topo.get("tree_order", 2)
        cp = bool(topo.get("contract_primitive", False))
        lab = topo.get("contract_label")
        if cp and lab is not None:
            lab = [bool(lab[i % len(lab)]) for i in range(len(bl))]
        else:
            lab = None
        if order == 2 and topo.get("alias"):
            return BasisTree.binary_mctdh(list(bl), cp, lab)
        if order == 3 and topo.get("alias"):
            return BasisTree.ternary_mctdh(list(bl), cp, lab)
        return BasisTree.general_mctdh(list(bl), order, cp, lab)
    nodes, parent, children = explicit_nodes(topo)
    qs = qn_size_of(mspec)
    tn = []
    for i, g in enumerate(nodes):
        if g is None:
            if topo.get("dummy_auto") and qs == 1:
                tn.append(TreeNodeBasis())
            else:
                tn.append(TreeNodeBasis([make_dummy(tag, i, qs)]))
        else:
            tn.append(TreeNodeBasis([bl[s] for s in g]))
    for p in range(len(nodes)):
        for c in children[p]:
            tn[p].add_child(tn[c])
    return BasisTree(tn[0])


class NodeInfo:
    __slots__ = ("idx", "sets", "children", "parent", "sub", "pd")

    def __repr__(self):
        return f"N{self.idx}(sets={self.sets}, ch={self.children})"


class TreeCtx:
    """harness-side description of a BasisTree over the basis sets `bl` (site order = order of `bl`)."""

    def __init__(self, mspec, bl, tree, site_qn=None, dims=None, space="P"):
        from renormalizer.model.basis import BasisDummy

        self.mspec = mspec
        self.bl = list(bl)
        self.tree = tree
        self.space = space
        self.n = len(bl)
        self.dims = list(dims) if dims is not None else gen.pdims(mspec)
        self.D = int(np.prod(self.dims))
        self.qs = qn_size_of(mspec)
        self.site_qn = site_qn if site_qn is not None else [gen.site_sigmaqn(mspec, i) for i in range(self.n)]
        site_of = {id(b): i for i, b in enumerate(self.bl)}
        # own preorder traversal (only the children pointers of the basis nodes are used)
        order = []

        def rec(node):
            order.append(node)
            for c in node.children:
                rec(c)

        rec(tree.root)
        self.bnodes = order
        pos = {id(nd): i for i, nd in enumerate(order)}
        self.nodes = []
        self.unknown_sets = 0
        for i, nd in enumerate(order):
            ni = NodeInfo()
            ni.idx = i
            ni.sets = []
            ni.pd = []
            for b in nd.basis_sets:
                if id(b) in site_of:
                    ni.sets.append(site_of[id(b)])
                    ni.pd.append(self.dims[site_of[id(b)]])
                else:
                    ni.sets.append(None)
                    ni.pd.append(1)
                    if not isinstance(b, BasisDummy) or b.nbas != 1:
                        self.unknown_sets += 1
            ni.children = [pos[id(c)] for c in nd.children]
            ni.parent = pos[id(nd.parent)] if nd.parent is not None else -1
            self.nodes.append(ni)
        self.N = len(self.nodes)
        for ni in reversed(self.nodes):  # children come after their parent in preorder
            s = [x for x in ni.sets if x is not None]
            for c in ni.children:
                s += self.nodes[c].sub
            ni.sub = sorted(s)

    # ---- derived trees -------------------------------------------------------------------------
    def aux(self):
        """context of tree.add_auxiliary_space(): sites [P0, Q0, P1, Q1, ...]"""
        t2 = self.tree.add_auxiliary_space()
        pmap = {id(b): i for i, b in enumerate(self.bl)}
        bl2 = [None] * (2 * self.n)
        for nd in t2.node_list:
            sets = nd.basis_sets
            k = 0
            while k < len(sets):
                if id(sets[k]) in pmap:
                    i = pmap[id(sets[k])]
                    bl2[2 * i] = sets[k]
                    bl2[2 * i + 1] = sets[k + 1]
                    k += 2
                else:
                    k += 1
        dims2 = [d for d in self.dims for _ in (0, 1)]
        sq = []
        for i in range(self.n):
            sq.append(self.site_qn[i])
            sq.append(np.zeros_like(self.site_qn[i]))
        return TreeCtx(self.mspec, bl2, t2, site_qn=sq, dims=dims2, space="PQ")

    def permuted(self, keys):
        """twin tree: same basis-set objects, children of every node re-listed in ascending (keys[c], -c);
        returns (ctx2, node_map) with node_map[i] = index in the twin of node i and perms[i] = for node i the list
        `new child position -> old child position`"""
        from renormalizer.tn import BasisTree, TreeNodeBasis

        tn = [TreeNodeBasis(list(nd.basis_sets)) for nd in self.bnodes]
        perms = []
        for ni in self.nodes:
            old = list(ni.children)
            new = sorted(old, key=lambda c: (keys[c % len(keys)], -c))
            perms.append([old.index(c) for c in new])
            for c in new:
                tn[ni.idx].add_child(tn[c])
        t2 = BasisTree(tn[0])
        ctx2 = TreeCtx(self.mspec, self.bl, t2, site_qn=self.site_qn, dims=self.dims, space=self.space)
        pos2 = {id(nd): i for i, nd in enumerate(ctx2.bnodes)}
        node_map = [pos2[id(tn[i])] for i in range(self.N)]
        return ctx2, node_map, perms

    # ---- classification -------------------------------------------------------------------------
    @property
    def single_node(self):
        return self.N == 1

    @property
    def has_dummy(self):
        return any(all(s is None for s in ni.sets) for ni in self.nodes)

    def is_dummy_node(self, i):
        return all(s is None for s in self.nodes[i].sets)

    def shape_classes(self):
        out = [f"nodes={self.N}"]
        ar = max(len(ni.children) for ni in self.nodes)
        out.append(f"max_arity={ar}")
        if any(len([s for s in ni.sets if s is not None]) >= 2 for ni in self.nodes):
            out.append("multi_basis_node")
        for ni in self.nodes:
            if self.is_dummy_node(ni.idx):
                if ni.parent < 0:
                    out.append("dummy.root")
                elif ni.children:
                    out.append("dummy.internal")
                else:
                    out.append("dummy.leaf")
            elif len(ni.sets) >= 2:
                out.append("multi." + ("root" if ni.parent < 0 else "internal" if ni.children else "leaf"))
        out.append("chain" if ar <= 1 else "non_chain")
        return sorted(set(out))

    def nontrivial(self):
        return self.N >= 2 and (max(len(ni.children) for ni in self.nodes) >= 2 or self.has_dummy or
                                any(len(ni.sets) >= 2 for ni in self.nodes))

    # ---- quantum numbers -------------------------------------------------------------------------
    def state_qn(self):
        """(D, qs): quantum number of every product basis state in the dense ordering of this context"""
        out = np.zeros((1, self.qs), dtype=int)
        for i in range(self.n):
            sq = np.asarray(self.site_qn[i]).reshape(self.dims[i], self.qs)
            out = (out[:, None, :] + sq[None, :, :]).reshape(-1, self.qs)
        return out

    def sectors(self):
        return sorted({tuple(int(v) for v in q) for q in self.state_qn()})

    def set_qn(self, ni, k):
        s = ni.sets[k]
        if s is None:
            return np.zeros((1, self.qs), dtype=int)
        return np.asarray(self.site_qn[s]).reshape(self.dims[s], self.qs)

    # ---- bipartitions ---------------------------------------------------------------------------
    def edges(self):
        """[(node idx, sites of its subtree, sites of the rest)] for every non-root node"""
        allsites = set(range(self.n))
        return [(ni.idx, list(ni.sub), sorted(allsites - set(ni.sub))) for ni in self.nodes[1:]]

    def sub_dim(self, i):
        return int(np.prod([self.dims[s] for s in self.nodes[i].sub])) if self.nodes[i].sub else 1

    def edge_matrix(self, vec, i):
        sub = self.nodes[i].sub
        rest = [s for s in range(self.n) if s not in sub]
        t = np.asarray(vec).reshape(self.dims).transpose(sub + rest)
        return t.reshape(self.sub_dim(i), -1)

    def edge_spectrum(self, vec, i):
        m = self.edge_matrix(vec, i)
        if m.size == 0:
            return np.zeros(0)
        return np.linalg.svd(m, compute_uv=False)


def build(tspec, bl=None, tag="a"):
    mspec = tspec["model"]
    if bl is None:
        bl = gen.build_basis_list(mspec)
    tree = build_tree(tspec, bl, tag)
    return TreeCtx(mspec, bl, tree)


# ------------------------------------------------------------------------------------------------
# (b) dense helpers
# ------------------------------------------------------------------------------------------------

def ttns_dense(ctx, ttns):
    """library route: TTNS.todense(order = basis sets in site order) flattened (tensors only, no prefactor)"""
    return np.asarray(ttns.todense(order=list(ctx.bl))).reshape(-1)


def dense_of(ctx, ttns):
    return ttns_dense(ctx, ttns) * getattr(ttns, "coeff", 1)


def ttno_dense(ctx, ttno):
    return np.asarray(ttno.todense(order=list(ctx.bl)))


def contract_raw(ctx, tn, operator=False):
    """independent contraction of the raw node tensors (numpy tensordot, depth first, positions only):
    node tensor axes = [children..., physical (per basis set; operators: up, down interleaved)..., parent]"""
    nl = list(tn.node_list)
    if len(nl) != ctx.N:
        raise ValueError("node count mismatch")

    def rec(i):
        ni = ctx.nodes[i]
        arr = np.asarray(nl[i].tensor)
        labels = [("c", c) for c in ni.children]
        for k, s in enumerate(ni.sets):
            tag = s if s is not None else ("x", i, k)
            labels.append(("u", tag))
            if operator:
                labels.append(("d", tag))
        labels.append(("p", i))
        if arr.ndim != len(labels):
            raise ValueError(f"node {i}: tensor rank {arr.ndim}, expected {len(labels)}")
        for c in ni.children:
            carr, clabels = rec(c)
            ax = labels.index(("c", c))
            arr = np.tensordot(carr, arr, axes=([carr.ndim - 1], [ax]))
            labels = clabels[:-1] + labels[:ax] + labels[ax + 1:]
        return arr, labels

    arr, labels = rec(0)
    if arr.shape[-1] != 1:
        raise ValueError(f"root parent bond {arr.shape[-1]}")
    arr = arr[..., 0]
    labels = labels[:-1]
    keep = [k for k, l in enumerate(labels) if not isinstance(l[1], tuple)]
    for k, l in enumerate(labels):
        if isinstance(l[1], tuple) and arr.shape[k] != 1:
            raise ValueError("dummy physical index of size != 1")
    arr = arr.reshape([arr.shape[k] for k in keep])
    labels = [labels[k] for k in keep]
    want = [("u", s) for s in range(ctx.n)] + ([("d", s) for s in range(ctx.n)] if operator else [])
    arr = arr.transpose([labels.index(w) for w in want])
    return arr.reshape(ctx.D, ctx.D) if operator else arr.reshape(-1)


def ref_operator(mspec, terms, bl=None):
    """harness dense reference  sum_k c_k (x) local matrices  in site order; returns (matrix, scale)"""
    return gen.dense_operator(mspec, terms, 0.0, bl)


def qr_scale(mspec, terms, bl, scale):
    """scale for the QR construction: its rank / entry cuts (1e-10) are relative to the largest *factor of the table*, whatever the
    norm of the local matrices that factor multiplies (a term such as 1000 * (sigma_+ sigma_+) vanishes as an operator but still sets
    the cut) -> (sum_k |c_k|) * max_k prod ||local matrices of term k||"""
    big = 0.0
    tot = 0.0
    for t in terms:
        nrm = 1.0
        for site, (words, ldofs) in gen.regroup(t).items():
            nrm *= np.linalg.norm(gen.local_matrix(mspec, bl, site, words, ldofs), 2)
        big = max(big, nrm)
        tot += abs(gen.term_factor(t))
    return max(scale, tot * max(big, 1.0))


def build_ops(mspec, terms):
    return [gen.build_op(mspec, t) for t in terms]


def chain_mpo_dense(bl, ops, algo="qr"):
    from renormalizer.model import Model
    from renormalizer.mps import Mpo

    return np.asarray(Mpo(Model(list(bl), []), ops, algo=algo).todense())


def ambiguous_join(ctx, terms):
    """F41 region: TTNO multiplies the per-basis-set operators of a multi-basis node into ONE Op whose symbol is the blank-joined
    string; '<...b^\\dagger> <+...> <b...>' coming from three different basis sets (boson, spin, boson - in the node's order) is
    then parsed as the single symbol 'b^\\dagger + b' and Op.__init__ raises.  True when some term and some node produce it."""
    if ctx.space != "P":
        return False
    for t in terms:
        g = gen.regroup(t)
        for ni in ctx.nodes:
            # a site of the node that the term does not touch contributes its identity 'I' to the joined symbol
            seq = [g[s][0] if s in g else ["I"] for s in ni.sets if s is not None]
            for a in range(len(seq) - 2):
                w1, w2, w3 = seq[a], seq[a + 1], seq[a + 2]
                if w1[-1] == r"b^\dagger" and w2 == ["+"] and w3[0].startswith("b"):
                    return True
    return False


def make_ttno(ctx, terms, algo=None):
    """TTNO of a term list (plain-data terms of vf.gen) on the tree of ctx; for an auxiliary-space context the terms act on
    the physical half"""
    from renormalizer.tn import TTNO

    ops = build_ops(ctx.mspec, terms)
    return TTNO(ctx.tree, ops) if algo is None else TTNO(ctx.tree, ops, algo=algo)


def random_ttns(ctx, q, m, rng, pct=1.0):
    """seeded TTNS.random in sector q (tuple); None when the library refuses (tiny m_max / unreachable sector, DESIGN §3.2)"""
    from renormalizer.tn import TTNS

    np.random.seed(rng)
    qarg = int(q[0]) if len(q) == 1 else np.array(q)
    try:
        x = TTNS.random(ctx.tree, qarg, m, percent=pct)
        d = ttns_dense(ctx, x)
        if not np.all(np.isfinite(d)) or np.linalg.norm(d) == 0:
            return None
        return x
    except (FloatingPointError, ZeroDivisionError):
        return None
    except ValueError as e:
        if "need at least one array" in str(e) or "zero-size" in str(e):
            return None
        raise


def embed_partial(ctx_pq, mat_p):
    """operator on the physical half -> operator on [P0,Q0,P1,Q1,...]"""
    n = ctx_pq.n // 2
    dp = ctx_pq.dims[0::2]
    D = int(np.prod(dp))
    big = np.kron(mat_p, np.eye(D))
    perm = [x for i in range(n) for x in (i, n + i)]
    return gen.permute_dense_operator(big, list(dp) + list(dp), perm)


def label_violation(ctx, ttns):
    """largest |entry| (relative to the largest entry of its tensor) at a position forbidden by the stored labels:
    sum of children labels + sum of sigma = node.qn (root: node.qn is the single row qntot).  -> (value, where)"""
    nl = list(ttns.node_list)
    worst, where = 0.0, ""
    for i, node in enumerate(nl):
        ni = ctx.nodes[i]
        t = np.asarray(node.tensor)
        parts = [np.asarray(nl[c].qn).reshape(-1, ctx.qs) for c in ni.children] + [ctx.set_qn(ni, k) for k in range(len(ni.sets))]
        tgt = np.asarray(node.qn).reshape(-1, ctx.qs)
        if t.ndim != len(parts) + 1 or any(p.shape[0] != t.shape[k] for k, p in enumerate(parts)) or tgt.shape[0] != t.shape[-1]:
            return 1.0, f"node {i}: label counts {[p.shape[0] for p in parts] + [tgt.shape[0]]} vs tensor shape {t.shape}"
        if i == 0 and tgt.shape[0] != 1:
            return 1.0, f"root carries {tgt.shape[0]} label rows"
        tot = np.zeros([1] * len(parts) + [ctx.qs], dtype=int)
        for k, p in enumerate(parts):
            sh = [1] * len(parts) + [ctx.qs]
            sh[k] = p.shape[0]
            tot = tot + p.reshape(sh)
        ok = np.all(tot[..., None, :] == tgt.reshape([1] * len(parts) + [tgt.shape[0], ctx.qs]), axis=-1)
        mx = np.max(np.abs(t)) if t.size else 0.0
        if mx == 0:
            continue
        bad = np.abs(t)[~ok]
        if bad.size and float(bad.max() / mx) > worst:
            worst = float(bad.max() / mx)
            where = f"node {i}"
    return worst, where


def ttno_label_violation(ctx, ttno):
    """operator labels: sum children labels + sum (sigma_up - sigma_down) = node.qn"""
    nl = list(ttno.node_list)
    worst, where = 0.0, ""
    for i, node in enumerate(nl):
        ni = ctx.nodes[i]
        t = np.asarray(node.tensor)
        parts = [np.asarray(nl[c].qn).reshape(-1, ctx.qs) for c in ni.children]
        for k in range(len(ni.sets)):
            q = ctx.set_qn(ni, k)
            parts.append(q)
            parts.append(-q)
        tgt = np.asarray(node.qn).reshape(-1, ctx.qs)
        if t.ndim != len(parts) + 1 or any(p.shape[0] != t.shape[k] for k, p in enumerate(parts)) or tgt.shape[0] != t.shape[-1]:
            return 1.0, f"node {i}: label counts vs tensor shape {t.shape}"
        tot = np.zeros([1] * len(parts) + [ctx.qs], dtype=int)
        for k, p in enumerate(parts):
            sh = [1] * len(parts) + [ctx.qs]
            sh[k] = p.shape[0]
            tot = tot + p.reshape(sh)
        ok = np.all(tot[..., None, :] == tgt.reshape([1] * len(parts) + [tgt.shape[0], ctx.qs]), axis=-1)
        mx = np.max(np.abs(t)) if t.size else 0.0
        if mx == 0:
            continue
        bad = np.abs(t)[~ok]
        if bad.size and float(bad.max() / mx) > worst:
            worst = float(bad.max() / mx)
            where = f"node {i}"
    return worst, where


def sector_leak(ctx, vec, q):
    bq = ctx.state_qn()
    mask = np.all(bq == np.asarray(q).reshape(1, -1), axis=1)
    v = np.asarray(vec).reshape(-1)
    nrm = np.linalg.norm(v)
    if nrm == 0:
        return 0.0
    return float(np.linalg.norm(v[~mask]) / nrm)


def iso_defect(t):
    """max |A^dagger A - 1| of a node tensor unfolded as (children x physical, parent)"""
    t = np.asarray(t)
    m = t.reshape(-1, t.shape[-1])
    g = m.conj().T @ m
    return float(np.max(np.abs(g - np.eye(g.shape[0]))))


def rdm_dense(ctx, vec, sites):
    """sum_rest psi[k, rest] psi*[b, rest] for the listed sites: array of shape dims(sites)+dims(sites), ket first"""
    psi = np.asarray(vec).reshape(ctx.dims)
    rest = [s for s in range(ctx.n) if s not in sites]
    ds = [ctx.dims[s] for s in sites]
    m = psi.transpose(list(sites) + rest).reshape(int(np.prod(ds)) if ds else 1, -1)
    rho = m @ m.conj().T
    return rho.reshape(ds + ds)


def node_rdm_dense(ctx, vec, node_ids):
    """RDM of one or two tree nodes with the axis layout of TTNS.calc_*site_rdm (dummy sets keep an axis of size 1)"""
    sites, shape = [], []
    for i in node_ids:
        ni = ctx.nodes[i]
        sites += [s for s in ni.sets if s is not None]
        shape += list(ni.pd)
    return rdm_dense(ctx, vec, sites).reshape(shape + shape)


def vn_entropy(p):
    p = np.asarray(p, dtype=float)
    p = p / p.sum()
    p = p[p > 0]
    return float(-(p * np.log(p)).sum())


def entropy_of_rdm(rho):
    rho = np.asarray(rho)
    d = int(np.prod(rho.shape[: rho.ndim // 2]))
    w = np.linalg.eigvalsh(rho.reshape(d, d))
    w = np.where(w < 0, 0.0, w)
    return vn_entropy(w)


# ------------------------------------------------------------------------------------------------
# strategies for tree specs
# ------------------------------------------------------------------------------------------------

OP_KINDS = {0: ["spin", "spin", "elec", "sho", "sho", "sine", "hops", "multi", "mvac"],
            1: ["spin", "elec", "elec", "sho", "mvac", "multi", "hops"],
            2: ["spin", "spin", "elec", "multi"]}
STATE_KINDS = {0: ["spin", "spin", "sho", "elec", "mvac", "hops", "multi"],
               1: ["spin", "elec", "elec", "sho", "mvac", "multi"],
               2: ["spin", "spin", "elec", "multi"]}
AUX_KINDS = {0: ["spin", "spin", "sho", "elec", "hops"], 1: ["spin", "elec", "elec", "sho"], 2: ["spin", "spin", "elec"]}


@st.composite
def tree_model_specs(draw, min_sites=1, max_sites=6, qn=None, kinds=None, max_dim=256, small_sho=False):
    """model spec without dummy sites and without basis sets of dimension 1 (TTNS.todense squeezes size-1 legs)"""
    q = qn if qn is not None else draw(st.sampled_from([0, 0, 1, 1, 2]))
    kk = (kinds or OP_KINDS)[q]
    spec = draw(gen.model_specs(min_sites, max_sites, qn=q, kinds=kk, max_dim=max_dim))
    for s in spec["sites"]:
        if s["k"] == "sho":
            s["nbas"] = max(2, min(s["nbas"], 3) if small_sho else s["nbas"])
            if small_sho:
                s["dvr"] = False
    return spec


@st.composite
def random_topologies(draw, n, max_nodes=7, max_dummy=2, single=False):
    perm = list(draw(st.permutations(list(range(n)))))
    groups = []
    if single and n <= 3:
        groups = [perm]
        nd = 0
    else:
        i = 0
        while i < n:
            room = max_nodes - len(groups) - 1
            need = n - i
            lo = 1
            # make sure the remaining sites fit into the remaining nodes (<=3 per node)
            while room * 3 < need - lo:
                lo += 1
            sz = draw(st.integers(lo, max(lo, min(3, need))))
            groups.append(perm[i:i + sz])
            i += sz
        nd = draw(st.integers(0, max(0, min(max_dummy, max_nodes - len(groups)))))
    N = len(groups) + nd
    dummy = sorted(draw(st.lists(st.integers(0, N - 1), min_size=nd, max_size=nd, unique=True))) if nd else []
    shape = draw(st.sampled_from(["uniform", "uniform", "uniform", "star", "chain"]))
    parent = [0] + [draw(st.integers(0, i - 1)) if shape == "uniform" else (0 if shape == "star" else i - 1) for i in range(1, N)]
    return {"groups": groups, "dummy": dummy, "parent": parent,
            "child_order": [draw(st.integers(0, 3)) for _ in range(N)], "dummy_auto": draw(st.booleans())}


@st.composite
def topologies(draw, mspec, max_nodes=7, allow_single=True):
    n = len(mspec["sites"])
    qs = gen.qn_size(mspec)
    choices = ["random"] * 6 + ["linear", "binary"]
    if qs == 1 and n >= 2:
        choices += ["general_mctdh", "general_mctdh", "t3ns"]
    c = draw(st.sampled_from(choices))
    if c == "random":
        single = allow_single and n <= 3 and draw(st.integers(0, 7)) == 0
        return draw(random_topologies(n, max_nodes, single=single))
    if c == "general_mctdh":
        cp = draw(st.booleans()) if n <= 4 else False
        topo = {"ctor": c, "tree_order": draw(st.integers(2, 3)), "contract_primitive": cp,
                "contract_label": None, "alias": draw(st.booleans())}
        if cp and draw(st.booleans()):
            topo["contract_label"] = [draw(st.booleans()) for _ in range(n)]
        return topo
    return {"ctor": c}


@st.composite
def tree_specs(draw, min_sites=1, max_sites=6, qn=None, kinds=None, max_dim=256, max_nodes=7, small_sho=False, allow_single=True):
    m = draw(tree_model_specs(min_sites, max_sites, qn, kinds, max_dim, small_sho))
    return {"model": m, "topo": draw(topologies(m, max_nodes, allow_single))}


# ------------------------------------------------------------------------------------------------
# (c) TTNS program interpreter with a dense model in lock step
# ------------------------------------------------------------------------------------------------

class Reg:
    __slots__ = ("obj", "model", "q", "kind", "tag", "ctx", "terms", "partial")

    def __init__(self, obj, model, q, kind, tag="", ctx=None):
        self.obj = obj
        self.model = np.asarray(model)
        self.q = tuple(int(v) for v in q)
        self.kind = kind
        self.tag = tag
        self.ctx = ctx
        self.terms = None
        self.partial = False


class _NoHooks:
    def __getattr__(self, name):
        return lambda *a, **k: None


SCALARS = [[2.0, 0.0], [-0.5, 0.0], [0.3, 0.4], [0.0, 1.0], [-1.0, 0.0], [1e-2, 0.0], [7.0, -3.0], [1.0, 0.0]]


class TInterp:
    """executes a program (list of instruction dicts, operand references modulo the live registers) on one basis tree.
    Registers: S (TTNS on `sctx` = the tree, or its auxiliary-space extension when aux=True), O (TTNO; on the physical tree
    (`partial` when aux) or on sctx).  Every register carries its dense model (flat vector in site order of its context /
    matrix on the state space).  hooks: optional object with after_create(it, reg), after_arith(it, reg, ins, sig),
    after_gauge(it, reg, before, ins, name), after_observe(it, name, got, ref)."""

    def __init__(self, tspec, result, hooks=None, aux=False, ctx=None, probe_default_todense=False):
        self.tspec = tspec
        self.mspec = tspec["model"]
        self.r = result
        self.ctx = ctx if ctx is not None else build(tspec)
        self.aux = bool(aux)
        self.sctx = self.ctx.aux() if aux else self.ctx
        self.S = []
        self.O = []
        self.hooks = hooks if hooks is not None else _NoHooks()
        self.secs = self.sctx.sectors()
        self.trace = []
        self.zero_q = tuple([0] * self.ctx.qs)
        self.has_qn = any(np.any(np.asarray(q) != 0) for q in self.ctx.site_qn)
        self.max_regs = 10
        # C11 only: also call todense() without `order` on every created state (F13: KeyError on trees with a dummy node)
        self.probe_default_todense = bool(probe_default_todense)
        self.max_fail = 3

    # ---------------------------------------------------------------------------------------------
    def guard(self, sig, fn, *a, **k):
        try:
            return True, fn(*a, **k)
        except Exception as e:  # noqa
            s, in_lib = lib_exception_sig(e)
            if not in_lib:
                raise
            if self.sctx.qs > 1 and isinstance(e, ValueError) and "Inconsistent quantum number size" in str(e) and \
                    any(fr.name == "expectation" for fr in traceback.extract_tb(e.__traceback__)):
                # TTNS.expectation extends the tree by a BasisDummy with ONE quantum-number component: own signature so that
                # this region (expectation / norm on trees with >= 2 qn components) never hides another failure
                self.r.fail("expectation.multi_component_qn.ValueError",
                            f"TTNS.expectation (called by {sig}) on a tree with {self.sctx.qs} quantum-number components: {e!r}")
                return False, None
            self.r.fail(f"{sig}.{s}", f"{e!r} trace={self.trace[-6:]}")
            return False, None

    def tol(self, scale, rel=1e-9):
        return rel * max(scale, 1e-300) + 1e-13

    def dense(self, obj):
        return dense_of(self.sctx, obj)

    def compare(self, sig, reg, what=""):
        ok, got = self.guard(sig + ".todense", self.dense, reg.obj)
        if not ok:
            return False
        sc = max(np.linalg.norm(reg.model), 1e-300)
        return self.r.check_close(sig, got, reg.model, self.tol(sc), f"{what} trace={self.trace[-6:]}")

    def pick(self, regs, idx, same_q_as=None):
        if not regs:
            return None
        if same_q_as is None:
            return regs[idx % len(regs)]
        cands = [x for x in regs if x.q == same_q_as.q]
        if not cands:
            return None
        return cands[idx % len(cands)]

    def run(self, prog):
        for ins in prog:
            self.trace.append(ins.get("op"))
            getattr(self, "i_" + ins["op"])(ins)
            if len(self.r.failures) >= self.max_fail:
                break

    def qarg(self, q):
        return int(q[0]) if len(q) == 1 else np.array(q)

    # ---- creation -----------------------------------------------------------------------------------
    def add_state(self, obj, q, tag):
        """register a freshly created state: the model is the library's own dense vector, cross-checked against the
        independent contraction of the raw tensors; todense() with the default order is exercised here (F13)."""
        ok, d = self.guard(f"create.{tag}.todense", self.dense, obj)
        if not ok:
            return None
        if not np.all(np.isfinite(d)):
            self.r.fail(f"create.{tag}.nonfinite", "non-finite dense vector")
            return None
        raw = contract_raw(self.sctx, obj) * obj.coeff
        self.r.check_close(f"create.{tag}.raw_vs_todense", d, raw, self.tol(np.linalg.norm(raw), 1e-12), "todense(order) vs harness contraction")
        if self.probe_default_todense:
            self.check_default_todense(obj, d, f"create.{tag}")
        reg = Reg(obj, d, q, "S", tag, self.sctx)
        self.S.append(reg)
        self.hooks.after_create(self, reg)
        return reg

    def check_default_todense(self, obj, d, sig):
        """todense() without `order` is documented as 'the order of the basis sets' = basis.basis_list (preorder)"""
        sc = self.sctx
        try:
            got = np.asarray(obj.todense())
        except Exception as e:  # noqa
            s, in_lib = lib_exception_sig(e)
            if not in_lib:
                raise
            kind = "dummy_tree" if sc.has_dummy else "no_dummy"
            self.r.fail(f"todense.default_order.{kind}.{type(e).__name__}", f"{sig}: TTNS.todense() raised {e!r}; tree has dummy node: {sc.has_dummy}")
            return
        order = [s for ni in sc.nodes for s in ni.sets if s is not None]
        ref = np.asarray(d).reshape(sc.dims).transpose(order)
        self.r.check_close("todense.default_order", got.reshape(ref.shape) if got.size == ref.size else got, ref,
                           self.tol(np.linalg.norm(ref), 1e-12), f"{sig}: default order")

    def i_random(self, ins):
        from renormalizer.tn import TTNS

        if len(self.S) >= self.max_regs:
            return
        q = self.secs[ins["q"] % len(self.secs)]
        m = ins["m"]
        if isinstance(m, list):
            m = [m[i % len(m)] for i in range(self.sctx.N)]
        np.random.seed(ins["rng"])
        try:
            x = TTNS.random(self.sctx.tree, self.qarg(q), m, percent=ins.get("pct", 1.0))
            d = self.dense(x)
            if not np.all(np.isfinite(d)) or np.linalg.norm(d) == 0:
                raise FloatingPointError("non-finite random state")
        except (FloatingPointError, ZeroDivisionError) as e:
            self.r.classes.append("random.rejected")
            return
        except ValueError as e:
            if "need at least one array" in str(e) or "zero-size" in str(e):
                self.r.classes.append("random.rejected")
                return
            s, in_lib = lib_exception_sig(e)
            if not in_lib:
                raise
            self.r.fail(f"create.random.{s}", repr(e))
            return
        except Exception as e:  # noqa
            s, in_lib = lib_exception_sig(e)
            if not in_lib:
                raise
            self.r.fail(f"create.random.{s}", f"{e!r} q={q} m={m}")
            return
        tag = "random"
        if ins.get("cplx"):
            # a genuinely complex state (complex reduced density matrices): x + i*y with a second random state;
            # on a single-node tree (F9 region of add) only a global phase
            y = None
            if not self.sctx.single_node:
                try:
                    y = TTNS.random(self.sctx.tree, self.qarg(q), m, percent=ins.get("pct", 1.0))
                except Exception:  # noqa
                    y = None
            if y is not None:
                ok, x2 = self.guard("create.random.cplx", lambda: x.add(y.scale(1j)))
                if not ok:
                    return
                if np.linalg.norm(self.dense(x2)) > 1e-6:
                    x = x2
                    tag = "random_sum"
                    self.r.classes.append("create.random.complex")
            if not np.iscomplexobj(x.root.tensor):
                x = x.to_complex()
                x.scale(np.exp(0.7j), inplace=True)
        self.r.classes.append("create.random")
        self.add_state(x, q, tag)

    def i_prod(self, ins):
        from renormalizer.tn import TTNS

        if len(self.S) >= self.max_regs:
            return
        sc = self.sctx
        cond = {}
        q = np.zeros(sc.qs, dtype=int)
        vec = np.ones(1)
        rng = np.random.default_rng(ins.get("rng", 0))
        for i in range(sc.n):
            sq = np.asarray(sc.site_qn[i]).reshape(sc.dims[i], sc.qs)
            k = int(ins["occ"][i % len(ins["occ"])] % sc.dims[i])
            if ins.get("vec") and not np.any(sq != sq[0]) and (i + ins.get("rng", 0)) % 2 == 0:
                loc = rng.standard_normal(sc.dims[i])
                loc = loc / np.linalg.norm(loc)
                cond[sc.bl[i].dofs[0]] = [float(v) for v in loc]
                q = q + sq[0]
            else:
                loc = np.zeros(sc.dims[i])
                loc[k] = 1.0
                if k != 0 or ins.get("explicit"):
                    cond[sc.bl[i].dofs[0]] = k
                q = q + sq[k]
            vec = np.kron(vec, loc)
        ok, x = self.guard("create.prod", lambda: TTNS(sc.tree, cond) if cond or ins.get("explicit") else TTNS(sc.tree))
        if not ok:
            return
        self.r.classes.append("create.prod")
        reg = self.add_state(x, q, "prod")
        if reg is not None:
            self.r.check_close("create.prod.dense", reg.model, vec, 1e-12, "product state = kron of the local states")

    def i_ttno(self, ins):
        from renormalizer.tn import TTNO

        if len(self.O) >= 6:
            return
        terms = ins["terms"]
        q = tuple(ins["charge"])
        on_p = (not self.aux) or bool(ins.get("partial", True))
        octx = self.ctx if on_p else self.sctx
        ops = build_ops(self.mspec, terms)
        ref, scale = ref_operator(self.mspec, terms, self.ctx.bl)
        if np.linalg.norm(ref) <= 1e-12 * scale:
            return
        algo = ins.get("algo", "Hopcroft-Karp")
        if not self.aux and ambiguous_join(self.ctx, terms):
            # F41 region (classified, not skipped): the failure gets its own signature and nothing else is derived from it
            try:
                TTNO(octx.tree, ops)
            except (AssertionError, ValueError) as e:
                s, in_lib = lib_exception_sig(e)
                if not in_lib:
                    raise
                self.r.fail("ttno.ambiguous_symbol_join", f"{e!r}: symbols of different basis sets of one node joined to 'b^\\dagger + b'")
                return
        ok, o = self.guard("create.ttno", lambda: TTNO(octx.tree, ops, algo=algo) if algo != "default" else TTNO(octx.tree, ops))
        if not ok:
            return
        tol = 1e-7 * qr_scale(self.mspec, terms, self.ctx.bl, scale) if algo == "qr" else 1e-9 * scale
        if on_p:
            ok, got = self.guard("create.ttno.todense", ttno_dense, self.ctx, o)
            if not ok:
                return
            self.r.check_close("create.ttno", got, ref, tol, "TTNO dense vs harness reference")
            model = embed_partial(self.sctx, np.asarray(got)) if self.aux else np.asarray(got)
        else:
            ok, got = self.guard("create.ttno.todense", ttno_dense, self.sctx, o)
            if not ok:
                return
            self.r.check_close("create.ttno", got, embed_partial(self.sctx, ref), tol, "TTNO (auxiliary tree) dense vs reference")
            model = np.asarray(got)
        reg = Reg(o, model, q, "O", "ttno", octx)
        reg.terms = terms
        reg.partial = self.aux and on_p
        if reg.partial:
            self.r.classes.append("ttno.partial")
        self.O.append(reg)
        self.hooks.after_create(self, reg)

    # ---- arithmetic ------------------------------------------------------------------------------------
    def _new(self, obj, model, q, tag, ins, sig):
        reg = Reg(obj, model, q, "S", tag, self.sctx)
        self.S.append(reg)
        self.compare(sig, reg, tag)
        self.hooks.after_arith(self, reg, ins, sig)
        return reg

    MAX_TENSOR = 60000

    def _sum_fits(self, x, y):
        """would x.add(y) stay small? (virtual legs add up; node tensors of high arity grow quickly)"""
        for i, (n1, n2) in enumerate(zip(x.node_list, y.node_list)):
            k = len(self.sctx.nodes[i].children)
            sh = [a + b for a, b in zip(n1.tensor.shape[:k], n2.tensor.shape[:k])] + list(n1.tensor.shape[k:-1]) + \
                 [n1.tensor.shape[-1] + n2.tensor.shape[-1] if i else 1]
            if np.prod([float(v) for v in sh]) > self.MAX_TENSOR:
                return False
        return True

    def _product_fits(self, o, x):
        for n1, n2 in zip(x.node_list, o.node_list):
            if float(n1.tensor.size) * float(n2.tensor.size) > 40 * self.MAX_TENSOR:
                return False
            k = len(n1.children)
            sh = [a * b for a, b in zip(n1.tensor.shape[:k], n2.tensor.shape[:k])] + list(n1.tensor.shape[k:-1]) + \
                 [n1.tensor.shape[-1] * n2.tensor.shape[-1]]
            if np.prod([float(v) for v in sh]) > self.MAX_TENSOR:
                return False
        return True

    def _nonzero_sum(self, m1, m2):
        s = np.linalg.norm(m1) + np.linalg.norm(m2)
        return np.linalg.norm(m1 + m2) > 1e-6 * s

    def i_add(self, ins):
        a = self.pick(self.S, ins["a"])
        if a is None or len(self.S) >= self.max_regs:
            return
        b = self.pick(self.S, ins["b"], same_q_as=a)
        if b is None or not self._nonzero_sum(a.model, b.model):
            return
        if max(x + y for x, y in zip(a.obj.bond_dims, b.obj.bond_dims)) > 48 or not self._sum_fits(a.obj, b.obj):
            return
        if a.obj.coeff != 1 or b.obj.coeff != 1:
            return  # DESIGN §3.9: add does not fold prefactors
        if np.iscomplexobj(a.obj.root.tensor) != np.iscomplexobj(b.obj.root.tensor):
            self.r.classes.append("add.dtypes_differ")
        single = self.sctx.single_node
        sig = "arith.add.single_node" if single else "arith.add"
        ok, c = self.guard(sig, lambda: a.obj.add(b.obj) if ins.get("meth", 0) == 0 else a.obj + b.obj)
        if not ok:
            return
        ref = a.model + b.model
        self.r.classes.append("arith.add")
        if single:
            # F9 region: classify instead of cascading
            ok, got = self.guard(sig + ".todense", self.dense, c)
            if not ok:
                return
            t = self.tol(np.linalg.norm(a.model) + np.linalg.norm(b.model))
            if np.max(np.abs(got - ref)) > t:
                if np.max(np.abs(got - b.model)) <= t:
                    self.r.fail("arith.add.single_node_returns_second",
                                "TTNS.add on a single-node tree returned the second operand instead of the sum")
                else:
                    self.r.fail("arith.add.single_node", f"sum wrong by {np.max(np.abs(got - ref)):.3e}")
                return
        self._new(c, ref, a.q, "add", ins, sig)
        self.compare("arith.add.operand_a", a, "operand a after add")
        self.compare("arith.add.operand_b", b, "operand b after add")

    def i_cadd(self, ins):
        """a + i*b: a genuinely complex superposition"""
        a = self.pick(self.S, ins["a"])
        if a is None or len(self.S) >= self.max_regs or self.sctx.single_node:
            return
        b = self.pick(self.S, ins["b"], same_q_as=a)
        if b is None or not self._nonzero_sum(a.model, 1j * b.model):
            return
        if max(x + y for x, y in zip(a.obj.bond_dims, b.obj.bond_dims)) > 48 or not self._sum_fits(a.obj, b.obj):
            return
        ok, c = self.guard("arith.cadd", lambda: a.obj.add(b.obj.scale(1j)))
        if ok:
            self.r.classes.append("arith.cadd")
            self._new(c, a.model + 1j * b.model, a.q, "cadd", ins, "arith.add")

    def _scalar(self, ins):
        v = complex(ins["val"][0], ins["val"][1])
        return v if v.imag != 0 else v.real

    def i_scale(self, ins):
        a = self.pick(self.S, ins["a"])
        if a is None:
            return
        v = self._scalar(ins)
        nrm = np.linalg.norm(a.model) * abs(v)
        if not 1e-4 < nrm < 1e4:
            return
        self.r.classes.append("arith.scale")
        if ins.get("inplace"):
            ok, c = self.guard("arith.scale_inplace", a.obj.scale, v, inplace=True)
            if ok:
                a.model = a.model * v
                self.compare("arith.scale_inplace", a, "scale inplace")
                self.r.check("arith.scale_inplace.identity", c is a.obj, "scale(inplace=True) returned another object")
                self.hooks.after_arith(self, a, ins, "arith.scale_inplace")
            else:
                self.S.remove(a)
            return
        if len(self.S) >= self.max_regs:
            return
        ok, c = self.guard("arith.scale", a.obj.scale, v)
        if ok:
            self.r.check("arith.scale.new_object", c is not a.obj, "scale() returned its input")
            self._new(c, a.model * v, a.q, "scale", ins, "arith.scale")
            self.compare("arith.scale.operand", a, "operand after scale")

    def i_copy(self, ins):
        a = self.pick(self.S, ins["a"])
        if a is None or len(self.S) >= self.max_regs:
            return
        ok, c = self.guard("arith.copy", a.obj.copy)
        if ok:
            self._new(c, a.model.copy(), a.q, "copy", ins, "arith.copy")

    def i_to_complex(self, ins):
        a = self.pick(self.S, ins["a"])
        if a is None:
            return
        if ins.get("inplace"):
            ok, c = self.guard("arith.to_complex_inplace", a.obj.to_complex, inplace=True)
            if ok:
                self.r.check("arith.to_complex_inplace.identity", c is a.obj, "to_complex(inplace=True) returned another object")
                self.r.check("arith.to_complex_inplace.dtype", all(np.iscomplexobj(n.tensor) for n in a.obj.node_list), "not complex")
                self.compare("arith.to_complex_inplace", a, "to_complex inplace")
            else:
                self.S.remove(a)
            return
        if len(self.S) >= self.max_regs:
            return
        ok, c = self.guard("arith.to_complex", a.obj.to_complex)
        if ok:
            self.r.check("arith.to_complex.dtype", all(np.iscomplexobj(n.tensor) for n in c.node_list), "not complex")
            self._new(c, a.model.astype(complex), a.q, "to_complex", ins, "arith.to_complex")
            self.compare("arith.to_complex.operand", a, "operand after to_complex")

    def i_hand_complex(self, ins):
        """a node tensor replaced through the public attribute by a complex multiple of itself: the state now has nodes of
        different dtypes (real root, complex inner node); its dense model is the old one times the phase"""
        a = self.pick(self.S, ins["a"])
        if a is None or self.sctx.N < 2:
            return
        nodes = list(a.obj.node_list)
        nd = nodes[1 + ins["node"] % (len(nodes) - 1)]
        ph = np.exp(1j * 0.9)
        nd.tensor = np.asarray(nd.tensor) * ph
        a.model = a.model * ph
        self.r.classes.append("hand_complex_node")
        self.compare("create.hand_complex", a, "after making one non-root node complex")

    def _apply_pair(self, ins):
        o = self.pick(self.O, ins["o"])
        a = self.pick(self.S, ins["a"])
        if o is None or a is None or len(self.S) >= self.max_regs:
            return None, None, None
        ref = o.model @ a.model
        if np.linalg.norm(ref) <= 1e-9 * np.linalg.norm(o.model, 2) * np.linalg.norm(a.model):
            return None, None, None  # the zero state is outside the domain
        if max(x * y for x, y in zip(a.obj.bond_dims, o.obj.bond_dims)) > 64 or not self._product_fits(o.obj, a.obj):
            return None, None, None
        return o, a, ref

    def i_apply(self, ins):
        o, a, ref = self._apply_pair(ins)
        if o is None:
            return
        q = tuple(np.array(a.q) + np.array(o.q))
        if any(o.q):
            self.r.classes.append("apply.charged")
        self.r.classes.append("arith.apply" + (".partial" if o.partial else ""))
        meth = ins.get("meth", 0)
        fn = {0: lambda: o.obj.apply(a.obj), 1: lambda: o.obj @ a.obj, 2: lambda: o.obj.apply(a.obj, canonicalise=True)}[meth]
        ok, c = self.guard("arith.apply", fn)
        if ok:
            self._new(c, ref, q, "apply", ins, "arith.apply")
            self.compare("arith.apply.operand", a, "state after being applied to")

    def i_contract(self, ins):
        from renormalizer.utils import CompressConfig, CompressCriteria

        if self.sctx.single_node:
            return  # compress refuses single-node trees
        o, a, ref = self._apply_pair(ins)
        if o is None:
            return
        q = tuple(np.array(a.q) + np.array(o.q))
        ok, x = self.guard("arith.contract.copy", a.obj.copy)
        if not ok:
            return
        x.compress_config = CompressConfig(CompressCriteria.fixed, max_bonddim=BIG)
        self.r.classes.append("arith.contract")
        ok, c = self.guard("arith.contract", o.obj.contract, x)
        if ok:
            self._new(c, ref, q, "contract", ins, "arith.contract")

    # ---- gauge moves (in place; the represented state must not change) ----------------------------------------
    def _gauge(self, ins, fn, name):
        reg = self.pick(self.S, ins["a"])
        if reg is None:
            return None
        before = dict(bond_dims=list(reg.obj.bond_dims))
        ok, _ = self.guard(f"gauge.{name}", fn, reg.obj)
        if not ok:
            self.S.remove(reg)
            return None
        self.r.classes.append(f"gauge.{name}")
        self.compare(f"gauge.{name}", reg, name)
        self.hooks.after_gauge(self, reg, before, ins, name)
        return reg

    def i_canonicalise(self, ins):
        def f(x):
            ret = x.canonicalise()
            self.r.check("gauge.canonicalise.returns_self", ret is x, "canonicalise() did not return self")
        self._gauge(ins, f, "canonicalise")

    def i_push(self, ins):
        """walk the centre from the root down a path of children (push_cano_to_child) and optionally back up
        (push_cano_to_parent)"""
        def f(x):
            node = x.root
            path = []
            for k in ins["path"]:
                if not node.children:
                    break
                ich = k % len(node.children)
                x.push_cano_to_child(node, ich)
                node = node.children[ich]
                path.append(node)
            if ins.get("back"):
                for nd in reversed(path):
                    x.push_cano_to_parent(nd)
        self._gauge(ins, f, "push")

    def i_compress_lossless(self, ins):
        from renormalizer.utils import CompressConfig, CompressCriteria

        if self.sctx.single_node:
            self.r.classes.append("compress.single_node_skipped")
            return
        mode = ins.get("mode", 0)
        box = {}

        def f(x):
            x.canonicalise()
            kw = {}
            if mode == 0:
                kw["temp_m_trunc"] = BIG
            elif mode == 1:
                kw["temp_m_trunc"] = [BIG] * self.sctx.N
            elif mode == 2:
                x.compress_config = CompressConfig(CompressCriteria.fixed, max_bonddim=BIG)
            else:
                kw["temp_m_trunc"] = np.inf
            if ins.get("ret_s"):
                ret, s = x.compress(ret_s=True, **kw)
                box["s"] = s
            else:
                ret = x.compress(**kw)
            self.r.check("gauge.compress_lossless.returns_self", ret is x, "compress() did not return self")
        reg = self._gauge(ins, f, "compress_lossless")
        if reg is not None and "s" in box:
            self.check_spectra("gauge.compress_lossless.ret_s", reg, box["s"])

    def check_spectra(self, sig, reg, s_array):
        self._spectra_on(self.sctx, reg.model, s_array, sig)
        got0 = np.asarray(np.asarray(s_array)[0], dtype=float)
        self.r.check(sig + ".root", abs(got0[0] - 1) < 1e-12 and not np.any(got0[1:]), f"root row {got0}")

    # ---- truncation (C05 bounds per edge; signatures start with "trunc.") -----------------------------------------
    def i_truncate(self, ins):
        from renormalizer.utils import CompressConfig, CompressCriteria

        sc = self.sctx
        if not self.S or sc.single_node:
            return
        if ins.get("big", True):
            # prefer the registers with the largest bonds (a truncation of a product state is trivial)
            cands = sorted(self.S, key=lambda x: -max(x.obj.bond_dims))[:2]
            reg = cands[ins["a"] % len(cands)]
        else:
            reg = self.pick(self.S, ins["a"])
        r = self.r
        ok, x = self.guard("trunc.copy", reg.obj.copy)
        if not ok:
            return
        ok, _ = self.guard("trunc.prepare", x.canonicalise)
        if not ok:
            return
        psi = ttns_dense(sc, x)
        nrm = np.linalg.norm(psi)
        if not nrm > 1e-8:
            return
        N = sc.N
        spectra = {i: sc.edge_spectrum(psi, i) for i in range(1, N)}
        crit = {"threshold": CompressCriteria.threshold, "fixed": CompressCriteria.fixed, "both": CompressCriteria.both}[ins["crit"]]
        Mlist = [ins["Mlist"][i % len(ins["Mlist"])] for i in range(N + 1)]
        M = ins["M"]
        if ins.get("rel"):
            # limits relative to the bonds of the state so that something is actually cut
            bd0 = list(x.bond_dims) + [1]
            M = 1 + (M - 1) % max(1, max(bd0) - 1)
            Mlist = [1 + (Mlist[i] - 1) % max(1, bd0[i] - 1) for i in range(N + 1)]
        style = ins["style"]
        temp = None
        if style in ("temp_int", "temp_list"):
            limits = [M] * (N + 1) if style == "temp_int" else Mlist
            temp = M if style == "temp_int" else list(limits[:N])
            eff = "fixed"
        else:
            cfg = CompressConfig(crit, threshold=ins["thr"], max_bonddim=M)
            limits = [M] * (N + 1)
            if style == "config_list":
                cfg.max_dims = np.array(Mlist, dtype=int)
                limits = Mlist
            x.compress_config = cfg
            eff = ins["crit"]
        c0 = x.coeff
        ok, res = self.guard("trunc.compress", lambda: x.compress(temp_m_trunc=temp, ret_s=bool(ins.get("ret_s"))))
        if not ok:
            return
        tr = self.trace[-5:]
        bd = list(x.bond_dims)
        ok, psi_m = self.guard("trunc.todense", ttns_dense, sc, x)
        if not ok:
            return
        r.classes += [f"trunc.crit.{eff}", f"trunc.style.{style}"]
        if eff in ("fixed", "both"):
            r.check("trunc.limit", all(bd[i] <= limits[i] for i in range(1, N)), f"bond dims {bd} limits {limits[:N]} trace={tr}")
        r.check("trunc.root_bond", bd[0] == 1, f"{bd}")
        r.check("trunc.coeff", x.coeff == c0, "prefactor changed by compress")
        nm = np.linalg.norm(psi_m)
        r.check("trunc.norm", nm <= nrm * (1 + 1e-10), f"norm {nm} > original {nrm} trace={tr}")
        eps = {i: float(np.sqrt(np.sum(spectra[i][bd[i]:] ** 2))) for i in range(1, N)}
        dist = float(np.linalg.norm(psi - psi_m))
        lower = max(eps.values())
        # upper bound: error vectors of nested cuts (ancestor / descendant) are mutually orthogonal, those of unrelated
        # cuts are only bounded by Cauchy-Schwarz; every single step discards at most the tail of the ORIGINAL spectrum
        # (one-sided projections + singular value interlacing)
        anc = {i: set() for i in range(N)}
        for i in range(1, N):
            p = sc.nodes[i].parent
            anc[i] = anc[p] | {p}
        up2 = sum(e * e for e in eps.values())
        for i in range(1, N):
            for j in range(i + 1, N):
                if i not in anc[j] and j not in anc[i]:
                    up2 += 2 * eps[i] * eps[j]
        upper = float(np.sqrt(up2))
        l2 = float(np.sqrt(sum(e * e for e in eps.values())))
        r.resid("trunc.upper_excess", (dist - upper) / nrm, 1e-8)
        r.resid("trunc.lower_deficit", (lower - dist) / nrm, 1e-8)
        r.check("trunc.upper_bound", dist <= upper * (1 + 1e-8) + 1e-10 * nrm,
                f"|psi-psi_M|={dist:.6e} > bound {upper:.6e} (l2 {l2:.6e}) bonds {bd} crit {eff} trace={tr}")
        r.check("trunc.lower_bound", dist >= lower * (1 - 1e-8) - 1e-10 * nrm,
                f"|psi-psi_M|={dist:.6e} < largest single-edge discarded weight {lower:.6e} bonds {bd} trace={tr}")
        if dist > l2 * (1 + 1e-8) + 1e-10 * nrm:
            r.classes.append("trunc.exceeds_plain_l2")
        if lower > 1e-6 * nrm:
            r.classes.append("trunc.truncated")
            r.info["truncated"] = True
        if ins.get("ret_s"):
            s_arr = np.asarray(res[1])
            # the first compressed edge (root - first child) sees the original state
            first = sc.nodes[0].children[0]
            got = np.sort(np.asarray(s_arr[first], dtype=float))[::-1]
            ref = spectra[first]
            L = max(len(got), len(ref))
            r.check_close("trunc.ret_s_first", np.pad(got, (0, L - len(got))), np.pad(ref, (0, L - len(ref))), self.tol(nrm),
                          f"singular values at the first compressed edge trace={tr}")
        tmp = Reg(x, psi_m * x.coeff, reg.q, "S", "trunc", sc)
        self.hooks.after_gauge(self, tmp, None, ins, "trunc")
        # the input of the truncation is untouched
        self.compare("trunc.input_unchanged", reg, "state whose copy was truncated")

    # ---- observers ----------------------------------------------------------------------------------------
    def _obs(self, name, got, ref, scale, rel=1e-9):
        ok = self.r.check_close(f"observe.{name}", np.asarray(got, dtype=complex), np.asarray(ref, dtype=complex),
                                self.tol(scale, rel), f"{name} trace={self.trace[-6:]}")
        self.hooks.after_observe(self, name, got, ref)
        return ok

    def tens(self, reg):
        """dense of the tensors only (observers ignore the prefactor, DESIGN §3.11); prefactor is 1 throughout"""
        return reg.model / reg.obj.coeff

    def i_norm(self, ins):
        a = self.pick(self.S, ins["a"])
        if a is None:
            return
        t = self.tens(a)
        ok, v = self.guard("observe.ttns_norm", lambda: a.obj.ttns_norm)
        if ok:
            self._obs("ttns_norm", v, np.linalg.norm(t), np.linalg.norm(t), rel=1e-8)
        ok, v = self.guard("observe.norm", lambda: a.obj.norm)
        if ok:
            self._obs("norm", v, np.linalg.norm(a.model), np.linalg.norm(a.model), rel=1e-8)
        # norms are homogeneous: the same on a (non-registered) tiny / huge multiple, relative to its own scale
        n0 = np.linalg.norm(a.model)
        if n0 > 1e-6 and not self.sctx.single_node:
            # lossless compression of a tiny multiple: singular values carry the norm, nothing may be cut on an absolute scale
            for fac in (1e-13, 1e-20):
                ok, y = self.guard("observe.compress_scaled.scale", a.obj.scale, fac)
                if not ok:
                    continue
                ok, _ = self.guard("observe.compress_scaled", lambda: (y.canonicalise(), y.compress(temp_m_trunc=BIG)))
                if ok:
                    ok, d = self.guard("observe.compress_scaled.todense", self.dense, y)
                    if ok:
                        err = np.linalg.norm(np.asarray(d) / fac - a.model) / n0
                        self.r.check("observe.compress_scaled.dense", err <= 1e-8,
                                     f"lossless compress of {fac:g} x state: relative change {err:.3e} trace={self.trace[-6:]}")
        if n0 > 1e-6:
            for fac in (3e-6, 2e5):
                ok, y = self.guard("observe.norm_scaled.scale", a.obj.scale, fac)
                if not ok:
                    continue
                ok, v = self.guard("observe.norm_scaled", lambda: y.norm)
                if ok:
                    self.r.check_close("observe.norm_scaled", v, fac * n0, 1e-7 * fac * n0,
                                       f"norm of {fac} * state (norm {n0:.3e}) trace={self.trace[-6:]}")
                ok, _ = self.guard("observe.norm_scaled.normalize", y.normalize, "mps_and_coeff")
                if ok:
                    ok, d = self.guard("observe.norm_scaled.todense", self.dense, y)
                    if ok:
                        self.r.check_close("observe.norm_scaled.normalized", d, a.model / n0, 1e-7,
                                           f"normalize() of {fac} * state trace={self.trace[-6:]}")

    def i_expect(self, ins):
        from renormalizer.model import OpSum

        o = self.pick(self.O, ins["o"])
        a = self.pick(self.S, ins["a"])
        if o is None or a is None:
            return
        t = self.tens(a)
        ref = t.conj() @ (o.model @ t)
        sc = np.linalg.norm(o.model, 2) * np.linalg.norm(t) ** 2
        self.r.classes.append("observe.expectation" + (".partial" if o.partial else ""))
        ok, v = self.guard("observe.expectation", a.obj.expectation, o.obj)
        if ok:
            self._obs("expectation", v, ref, sc)
            self.r.check("observe.expectation.type", isinstance(v, (float, complex)), f"returned {type(v)}")
            # the temporary extension of the trees by a dummy root is undone
            self.r.check("observe.expectation.restores_tree", a.obj.root.parent is None and o.obj.root.parent is None and
                         a.obj.basis.root.parent is None, "expectation left a parent attached to a root")
        if ins.get("as_ops") and o.terms is not None:
            ops = build_ops(self.mspec, o.terms)
            arg = ops[0] if len(ops) == 1 else OpSum(ops)
            ok, v = self.guard("observe.expectation_ops", a.obj.expectation, arg)
            if ok:
                self._obs("expectation_ops", v, ref, sc, rel=1e-7)

    def _node_choice(self, k):
        return k % self.sctx.N

    def i_rdm1site(self, ins):
        a = self.pick(self.S, ins["a"])
        if a is None:
            return
        sc = self.sctx
        t = self.tens(a)
        mode = ins.get("mode", 0)
        if mode == 0:
            arg, want = None, list(range(sc.N))
        elif mode == 1:
            arg = self._node_choice(ins["i"])
            want = [arg]
        else:
            want = sorted({self._node_choice(k) for k in ins["idx"]})
            arg = list(want)
        ok, rd = self.guard("observe.rdm1site", lambda: a.obj.calc_1site_rdm(arg) if arg is not None else a.obj.calc_1site_rdm())
        if not ok:
            return
        self.r.classes.append("observe.rdm1site")
        if not self.r.check("observe.rdm1site.keys", sorted(rd.keys()) == want, f"keys {sorted(rd.keys())} wanted {want}"):
            return
        for i in want:
            self._obs("rdm1site", rd[i], node_rdm_dense(sc, t, [i]), np.linalg.norm(t) ** 2)

    def _node_pair(self, i, j):
        N = self.sctx.N
        i = i % N
        j = j % N
        if i == j:
            j = (j + 1) % N
        return i, j

    def i_rdm2site(self, ins):
        a = self.pick(self.S, ins["a"])
        sc = self.sctx
        if a is None or sc.N < 2:
            return
        t = self.tens(a)
        pairs = []
        for i, j in ins["pairs"]:
            p = self._node_pair(i, j)
            if p not in pairs:
                pairs.append(p)
        arg = pairs[0] if (len(pairs) == 1 and ins.get("as_tuple")) else list(pairs)
        want = [arg] if isinstance(arg, tuple) else pairs
        ok, rd = self.guard("observe.rdm2site", a.obj.calc_2site_rdm, arg)
        if not ok:
            return
        self.r.classes.append("observe.rdm2site")
        if not self.r.check("observe.rdm2site.keys", sorted(rd.keys()) == sorted(want), f"keys {sorted(rd.keys())} wanted {want}"):
            return
        for p in want:
            far = sc.nodes[p[0]].parent != p[1] and sc.nodes[p[1]].parent != p[0]
            if far:
                self.r.classes.append("observe.rdm2site.non_adjacent")
            self._obs("rdm2site", np.asarray(rd[p]), node_rdm_dense(sc, t, list(p)), np.linalg.norm(t) ** 2)

    def _dof_of_site(self, s, k=0):
        d = self.sctx.bl[s].dofs
        return d[k % len(d)]

    def i_rdm1dof(self, ins):
        a = self.pick(self.S, ins["a"])
        if a is None:
            return
        sc = self.sctx
        t = self.tens(a)
        mode = ins.get("mode", 0)
        if mode == 0:
            ok, rd = self.guard("observe.rdm1dof", a.obj.calc_1dof_rdm)
            if not ok:
                return
            want = {}
            for s in range(sc.n):
                for d in sc.bl[s].dofs:
                    want[d] = s
            extra = [d for d in rd.keys() if d not in want]
            self.r.check("observe.rdm1dof.keys", all(d in rd for d in want) and len(extra) == sum(sc.is_dummy_node(i) for i in range(sc.N)),
                         f"keys {list(rd.keys())}")
        else:
            sites = sorted({k % sc.n for k in ins["sites"]})
            dofs = [self._dof_of_site(s, ins.get("k", 0)) for s in sites]
            arg = dofs[0] if mode == 1 else dofs
            ok, rd = self.guard("observe.rdm1dof", a.obj.calc_1dof_rdm, arg)
            if not ok:
                return
            want = {dofs[0]: sites[0]} if mode == 1 else dict(zip(dofs, sites))
            self.r.check("observe.rdm1dof.keys", set(rd.keys()) == set(want), f"keys {list(rd.keys())} wanted {list(want)}")
        self.r.classes.append("observe.rdm1dof")
        for d, s in want.items():
            if d in rd:
                self._obs("rdm1dof", np.asarray(rd[d]), rdm_dense(sc, t, [s]), np.linalg.norm(t) ** 2)

    def _site_pairs(self, raw):
        sc = self.sctx
        out = []
        for i, j in raw:
            i = i % sc.n
            j = j % sc.n
            if i == j:
                j = (j + 1) % sc.n
            if (i, j) not in out:
                out.append((i, j))
        return out

    def node_of_site(self, s):
        for ni in self.sctx.nodes:
            if s in ni.sets:
                return ni.idx
        raise KeyError(s)

    def i_rdm2dof(self, ins):
        a = self.pick(self.S, ins["a"])
        sc = self.sctx
        if a is None or sc.n < 2:
            return
        t = self.tens(a)
        sp = self._site_pairs(ins["pairs"])
        if ins.get("same_node"):
            # prefer two basis sets of one node when the tree has a multi-basis node
            for ni in sc.nodes:
                ss = [s for s in ni.sets if s is not None]
                if len(ss) >= 2:
                    k = ins.get("k", 0)
                    pair = (ss[k % len(ss)], ss[(k + 1) % len(ss)])
                    if pair[0] != pair[1] and pair not in sp:
                        sp = [pair] + sp
                    break
        dp = [(self._dof_of_site(i), self._dof_of_site(j)) for i, j in sp]
        arg = dp[0] if (len(dp) == 1 and ins.get("as_tuple")) else list(dp)
        ok, rd = self.guard("observe.rdm2dof", a.obj.calc_2dof_rdm, arg)
        if not ok:
            return
        self.r.classes.append("observe.rdm2dof")
        want = [arg] if isinstance(arg, tuple) else dp
        if not self.r.check("observe.rdm2dof.keys", set(rd.keys()) == set(want), f"keys {list(rd.keys())} wanted {want}"):
            return
        for (i, j), d in zip(sp, dp):
            if d not in want:
                continue
            same = self.node_of_site(i) == self.node_of_site(j)
            self.r.classes.append("observe.rdm2dof." + ("same_node" if same else "different_nodes"))
            self._obs("rdm2dof", np.asarray(rd[d]), rdm_dense(sc, t, [i, j]), np.linalg.norm(t) ** 2)

    def i_entropy(self, ins):
        a = self.pick(self.S, ins["a"])
        sc = self.sctx
        if a is None:
            return
        t = self.tens(a)
        nrm = np.linalg.norm(t)
        if not 1e-3 < nrm < 1e3:
            return
        kind = ins["kind"]
        self.r.classes.append(f"observe.entropy.{kind}")
        etol = 1e-8
        if kind == "1site":
            ok, en = self.guard("observe.entropy_1site", a.obj.calc_1site_entropy)
            if ok:
                for i in range(sc.N):
                    self.r.check_close("observe.entropy_1site", en[i], entropy_of_rdm(node_rdm_dense(sc, t, [i])), etol, f"node {i}")
        elif kind == "1dof":
            sites = sorted({k % sc.n for k in ins["sites"]})
            dofs = [self._dof_of_site(s) for s in sites]
            ok, en = self.guard("observe.entropy_1dof", a.obj.calc_1dof_entropy, dofs)
            if ok:
                for s, d in zip(sites, dofs):
                    self.r.check_close("observe.entropy_1dof", en[d], entropy_of_rdm(rdm_dense(sc, t, [s])), etol, f"site {s}")
        elif kind == "2site":
            if sc.N < 2:
                return
            pairs = []
            for i, j in ins["pairs"]:
                p = self._node_pair(i, j)
                if p not in pairs:
                    pairs.append(p)
            ok, en = self.guard("observe.entropy_2site", a.obj.calc_2site_entropy, pairs)
            if ok:
                for p in pairs:
                    self.r.check_close("observe.entropy_2site", en[p], entropy_of_rdm(node_rdm_dense(sc, t, list(p))), etol, f"nodes {p}")
        elif kind in ("2dof", "mutual"):
            if sc.n < 2:
                return
            sp = self._site_pairs(ins["pairs"])
            dp = [(self._dof_of_site(i), self._dof_of_site(j)) for i, j in sp]
            if kind == "2dof":
                ok, en = self.guard("observe.entropy_2dof", a.obj.calc_2dof_entropy, dp)
                if ok:
                    for (i, j), d in zip(sp, dp):
                        self.r.check_close("observe.entropy_2dof", en[d], entropy_of_rdm(rdm_dense(sc, t, [i, j])), etol, f"sites {i},{j}")
            else:
                ok, res = self.guard("observe.mutual_info", a.obj.calc_2dof_mutual_info, dp)
                if ok:
                    mi, (e1, e2) = res
                    for (i, j), d in zip(sp, dp):
                        si = entropy_of_rdm(rdm_dense(sc, t, [i]))
                        sj = entropy_of_rdm(rdm_dense(sc, t, [j]))
                        sij = entropy_of_rdm(rdm_dense(sc, t, [i, j]))
                        self.r.check_close("observe.mutual_info", mi[d], (si + sj - sij) / 2, etol, f"sites {i},{j}")
                        self.r.check_close("observe.mutual_info.s1", e1[d[0]], si, etol, f"site {i}")
                        self.r.check_close("observe.mutual_info.s2", e2[d], sij, etol, f"sites {i},{j}")

    def i_bond_entropy(self, ins):
        a = self.pick(self.S, ins["a"])
        sc = self.sctx
        if a is None:
            return
        if sc.single_node:
            self.r.classes.append("bond_entropy.single_node_skipped")
            return
        t = self.tens(a)
        nrm = np.linalg.norm(t)
        if not 1e-3 < nrm < 1e3:
            return
        self.r.classes.append("observe.bond_entropy")
        ok, s_arr = self.guard("observe.bond_singular_values", a.obj.calc_bond_singular_values)
        if ok:
            tmp = Reg(a.obj, t, a.q, "S", "", sc)
            self.check_spectra("observe.bond_singular_values", tmp, s_arr)
        ok, en = self.guard("observe.bond_entropy", a.obj.calc_bond_entropy)
        if ok:
            en = np.asarray(en)
            if self.r.check("observe.bond_entropy.shape", en.shape == (sc.N,), f"shape {en.shape}"):
                ref = [0.0] + [vn_entropy(sc.edge_spectrum(t, i) ** 2) for i in range(1, sc.N)]
                self.r.check_close("observe.bond_entropy", en, np.array(ref), 1e-8, "bond entropies in node_list order")
        self.compare("observe.bond_entropy.input_unchanged", a, "state after calc_bond_entropy")

    # ---- metamorphic twin: the same state on a tree whose children lists are permuted -------------------------------
    def make_twin(self, obj, keys):
        """(ctx2, twin TTNS, node_map): node tensors with their child axes permuted, set on a product TTNS of the twin tree
        (the way tree.from_mps fills a TTNS)"""
        from renormalizer.tn import TTNS

        ctx2, node_map, perms = self.sctx.permuted(keys)
        tw = TTNS(ctx2.tree)
        nl = list(obj.node_list)
        for i, node in enumerate(nl):
            t = np.asarray(node.tensor)
            k = len(perms[i])
            axes = list(perms[i]) + list(range(k, t.ndim))
            tgt = tw.node_list[node_map[i]]
            tgt.tensor = np.ascontiguousarray(t.transpose(axes))
            tgt.qn = np.array(node.qn).copy()
        tw.coeff = obj.coeff
        tw.check_shape()
        return ctx2, tw, node_map

    def i_twin(self, ins):
        from renormalizer.tn import TTNO

        a = self.pick(self.S, ins["a"])
        sc = self.sctx
        if a is None:
            return
        keys = ins["keys"]
        ok, res = self.guard("twin.build", self.make_twin, a.obj, keys)
        if not ok:
            return
        ctx2, tw, nmap = res
        changed = any(ctx2.nodes[nmap[i]].children != [nmap[c] for c in sc.nodes[i].children] for i in range(sc.N))
        self.r.classes.append("twin.permuted" if changed else "twin.identical")
        t = self.tens(a)
        nrm = np.linalg.norm(t)
        sq = nrm ** 2
        tr = self.trace[-6:]
        ok, d2 = self.guard("twin.todense", dense_of, ctx2, tw)
        if not ok:
            return
        if not self.r.check_close("twin.todense", d2, a.model, self.tol(nrm), f"twin dense trace={tr}"):
            return
        # observables
        ok1, r1 = self.guard("twin.rdm1site", a.obj.calc_1site_rdm)
        ok2, r2 = self.guard("twin.rdm1site", tw.calc_1site_rdm)
        if ok1 and ok2:
            for i in range(sc.N):
                self.r.check_close("twin.rdm1site", r2[nmap[i]], r1[i], self.tol(sq), f"node {i}->{nmap[i]} trace={tr}")
        if sc.N >= 2:
            p = self._node_pair(ins.get("i", 0), ins.get("j", 1))
            p2 = (nmap[p[0]], nmap[p[1]])
            ok1, r1 = self.guard("twin.rdm2site", a.obj.calc_2site_rdm, [p])
            ok2, r2 = self.guard("twin.rdm2site", tw.calc_2site_rdm, [p2])
            if ok1 and ok2:
                self.r.check_close("twin.rdm2site", np.asarray(r2[p2]), np.asarray(r1[p]), self.tol(sq), f"nodes {p}->{p2} trace={tr}")
            if 1e-3 < nrm < 1e3:
                ok1, e1 = self.guard("twin.bond_entropy", a.obj.calc_bond_entropy)
                ok2, e2 = self.guard("twin.bond_entropy", tw.calc_bond_entropy)
                if ok1 and ok2:
                    e1, e2 = np.asarray(e1), np.asarray(e2)
                    self.r.check_close("twin.bond_entropy", np.array([e2[nmap[i]] for i in range(sc.N)]), e1, 1e-8, f"trace={tr}")
        o = self.pick(self.O, ins.get("o", 0))
        if o is not None and o.terms is not None:
            octx2 = ctx2
            if o.partial:
                # physical tree permuted the same way (node order of the auxiliary tree = node order of the physical tree)
                octx2, _, _ = self.ctx.permuted(keys)
            ops = build_ops(self.mspec, o.terms)
            ok, o2 = self.guard("twin.ttno", TTNO, octx2.tree, ops)
            if ok:
                ok1, v1 = self.guard("twin.expectation", a.obj.expectation, o.obj)
                ok2, v2 = self.guard("twin.expectation", tw.expectation, o2)
                if ok1 and ok2:
                    self.r.check_close("twin.expectation", complex(v2), complex(v1),
                                       self.tol(np.linalg.norm(o.model, 2) * sq, 1e-7), f"trace={tr}")
                if max(x * y for x, y in zip(tw.bond_dims, o2.bond_dims)) <= 64 and self._product_fits(o.obj, a.obj):
                    ok1, y1 = self.guard("twin.apply", o.obj.apply, a.obj)
                    ok2, y2 = self.guard("twin.apply", o2.apply, tw)
                    if ok1 and ok2:
                        ok1, d1 = self.guard("twin.apply", dense_of, sc, y1)
                        ok2, d2 = self.guard("twin.apply", dense_of, ctx2, y2)
                        if ok1 and ok2:
                            self.r.check_close("twin.apply", d2, d1, self.tol(np.linalg.norm(o.model, 2) * nrm, 1e-7), f"trace={tr}")
        b = self.pick(self.S, ins.get("b", 0), same_q_as=a)
        if b is not None and not sc.single_node and self._nonzero_sum(a.model, b.model) and \
                max(x + y for x, y in zip(a.obj.bond_dims, b.obj.bond_dims)) <= 48 and self._sum_fits(a.obj, b.obj):
            ok, res = self.guard("twin.build", self.make_twin, b.obj, keys)
            if ok:
                ok, s2 = self.guard("twin.add", tw.add, res[1])
                if ok:
                    ok, d2 = self.guard("twin.add", dense_of, ctx2, s2)
                    if ok:
                        self.r.check_close("twin.add", d2, a.model + b.model, self.tol(nrm + np.linalg.norm(b.model)), f"trace={tr}")
        # gauge moves on the twin
        ok, _ = self.guard("twin.canonicalise", tw.canonicalise)
        if ok:
            ok, d2 = self.guard("twin.canonicalise", dense_of, ctx2, tw)
            if ok:
                self.r.check_close("twin.canonicalise", d2, a.model, self.tol(nrm), f"trace={tr}")
            if not sc.single_node:
                ok, _ = self.guard("twin.compress", lambda: tw.compress(temp_m_trunc=BIG))
                if ok:
                    ok, d2 = self.guard("twin.compress", dense_of, ctx2, tw)
                    if ok:
                        self.r.check_close("twin.compress", d2, a.model, self.tol(nrm), f"trace={tr}")

    # ---- chain -> tree ---------------------------------------------------------------------------------------------
    def i_from_mps(self, ins):
        """tree.from_mps(mps) -> (basis, ttns, ttno): self-contained (the result lives on its own linear tree)"""
        from renormalizer.model import Model
        from renormalizer.mps import Mps
        from renormalizer.tn.tree import from_mps
        from renormalizer.tn import BasisTree

        c = self.ctx
        terms = ins["terms"]
        ops = build_ops(self.mspec, terms)
        ref, scale = ref_operator(self.mspec, terms, c.bl)
        if np.linalg.norm(ref) <= 1e-12 * scale:
            return
        model = Model(list(c.bl), ops)
        secs = c.sectors()
        q = secs[ins["q"] % len(secs)]
        np.random.seed(ins["rng"])
        try:
            mps = Mps.random(model, self.qarg(q), ins["m"], percent=1.0)
            d = np.asarray(mps.todense())
            if not np.all(np.isfinite(d)) or np.linalg.norm(d) == 0:
                raise FloatingPointError
        except (FloatingPointError, ZeroDivisionError, ValueError, AssertionError, IndexError):
            self.r.classes.append("from_mps.random_rejected")
            return
        if ins.get("cplx"):
            mps = mps.to_complex().scale(np.exp(0.4j))
        g = ins.get("gauge", 0)
        if c.n >= 2:
            if g == 1:
                mps.ensure_right_canonical()
            elif g == 2:
                mps.ensure_left_canonical()
        d = np.asarray(mps.todense()).reshape(-1)
        nrm = np.linalg.norm(d)
        self.r.classes.append("from_mps")
        ok, res = self.guard("from_mps", from_mps, mps)
        if not ok:
            return
        basis, ttns, ttno = res
        r = self.r
        r.check("from_mps.types", isinstance(basis, BasisTree) and ttns.basis is basis and ttno.basis is basis, "return triple")
        r.check("from_mps.order", [id(b) for b in basis.basis_list] == [id(b) for b in model.basis[::-1]],
                "tree is not the reversed chain (root = last site) as documented")
        lctx = TreeCtx(self.mspec, c.bl, basis)
        ok, got = self.guard("from_mps.todense", ttns_dense, lctx, ttns)
        if ok:
            r.check_close("from_mps.dense", got, d, self.tol(nrm), "todense(order=chain order) vs Mps.todense()")
        ok, got = self.guard("from_mps.todense_default", lambda: np.asarray(ttns.todense()))
        if ok:
            refd = d.reshape(c.dims).transpose(list(range(c.n))[::-1])
            r.check_close("from_mps.dense_default_order", got.reshape(refd.shape) if got.size == refd.size else got, refd, self.tol(nrm),
                          "todense() = reversed site order")
        r.check_close("from_mps.raw", contract_raw(lctx, ttns), d, self.tol(nrm), "harness contraction of the node tensors")
        r.check_close("from_mps.input_unchanged", np.asarray(mps.todense()).reshape(-1), d, 0.0, "mps modified")
        r.check("from_mps.qntot", tuple(int(v) for v in np.atleast_1d(ttns.qntot)) == q, f"qntot {ttns.qntot} sector {q}")
        v, where = label_violation(lctx, ttns)
        r.check("from_mps.labels", v <= 1e-10, f"forbidden entry {v:.2e} at {where}")
        r.check("from_mps.canonical", all(iso_defect(n.tensor) <= 1e-8 for n in ttns.node_list[1:]), "non-root node not an isometry")
        ok, od = self.guard("from_mps.ttno", ttno_dense, lctx, ttno)
        if ok:
            r.check_close("from_mps.ttno", od, ref, 1e-9 * scale, "ttno of the model's ham_terms")
            ok, e = self.guard("from_mps.expectation", ttns.expectation, ttno)
            if ok:
                r.check_close("from_mps.expectation", complex(e), complex(d.conj() @ (ref @ d)), self.tol(scale * nrm ** 2, 1e-8), "expectation")
        if c.n >= 2:
            ok, s_arr = self.guard("from_mps.bond_singular_values", ttns.calc_bond_singular_values)
            if ok:
                self._spectra_on(lctx, d, s_arr, "from_mps.bond_singular_values")

    def _spectra_on(self, ctx, vec, s_array, sig):
        s_array = np.asarray(s_array)
        nrm = np.linalg.norm(vec)
        if not self.r.check(sig + ".shape", s_array.ndim == 2 and s_array.shape[0] == ctx.N, f"shape {s_array.shape}"):
            return
        for i in range(1, ctx.N):
            ref = ctx.edge_spectrum(vec, i)
            got = np.sort(np.asarray(s_array[i], dtype=float))[::-1]
            L = max(len(ref), len(got))
            self.r.check_close(sig, np.pad(got, (0, L - len(got))), np.pad(ref, (0, L - len(ref))), self.tol(nrm), f"bond above node {i}")


# ------------------------------------------------------------------------------------------------
# instruction strategies
# ------------------------------------------------------------------------------------------------

_ref = st.integers(0, 20)


@st.composite
def create_instr(draw, allow=("random", "random", "prod")):
    op = draw(st.sampled_from(allow))
    if op == "random":
        m = draw(st.sampled_from([1, 2, 3, 4, 4, 6, 6]))
        if draw(st.integers(0, 4)) == 0:
            m = [draw(st.sampled_from([1, 2, 3, 4, 6])) for _ in range(7)]
        return {"op": "random", "q": draw(st.integers(0, 50)), "m": m, "pct": draw(st.sampled_from([1.0, 1.0, 0.5])),
                "rng": draw(st.integers(0, 10 ** 6)), "cplx": draw(st.booleans())}
    return {"op": "prod", "occ": draw(st.lists(st.integers(0, 3), min_size=1, max_size=6)), "vec": draw(st.booleans()),
            "rng": draw(st.integers(0, 10 ** 6)), "explicit": draw(st.booleans())}


@st.composite
def ttno_instr(draw, mspec, max_terms=4):
    has_qn = any(np.any(gen.site_sigmaqn(mspec, i) != 0) for i in range(len(mspec["sites"])))
    algo = draw(st.sampled_from(["qr", "Hopcroft-Karp", "default"]))
    partial = draw(st.integers(0, 3)) > 0
    if has_qn or draw(st.booleans()):
        terms, q = draw(gen.charged_operator(mspec, max_terms=max_terms, real_only=True))
        return {"op": "ttno", "terms": terms, "charge": list(q), "algo": algo, "partial": partial}
    terms, _ = draw(gen.term_tables(mspec, 1, max_terms, real_only=True, max_support=3, decades=1))
    return {"op": "ttno", "terms": terms, "charge": [0] * gen.qn_size(mspec), "algo": algo, "partial": partial}


_pairs = st.lists(st.tuples(st.integers(0, 12), st.integers(0, 12)).map(list), min_size=1, max_size=3)


@st.composite
def arith_instr(draw):
    op = draw(st.sampled_from(["add", "add", "add", "cadd", "scale", "scale", "copy", "to_complex", "apply", "apply", "apply", "contract"]))
    a, b, o = draw(_ref), draw(_ref), draw(_ref)
    if op == "cadd":
        return {"op": "cadd", "a": a, "b": b}
    if op == "add":
        return {"op": "add", "a": a, "b": b, "meth": draw(st.integers(0, 1))}
    if op == "scale":
        return {"op": "scale", "a": a, "val": draw(st.sampled_from(SCALARS)), "inplace": draw(st.integers(0, 2)) == 0}
    if op == "copy":
        return {"op": "copy", "a": a}
    if op == "to_complex":
        return {"op": "to_complex", "a": a, "inplace": draw(st.booleans())}
    if op == "apply":
        return {"op": "apply", "o": o, "a": a, "meth": draw(st.integers(0, 2))}
    return {"op": "contract", "o": o, "a": a}


@st.composite
def gauge_instr(draw):
    op = draw(st.sampled_from(["canonicalise", "canonicalise", "push", "push", "compress_lossless"]))
    ins = {"op": op, "a": draw(_ref)}
    if op == "push":
        ins["path"] = draw(st.lists(st.integers(0, 3), min_size=1, max_size=4))
        ins["back"] = draw(st.booleans())
    if op == "compress_lossless":
        ins["mode"] = draw(st.integers(0, 3))
        ins["ret_s"] = draw(st.booleans())
    return ins


@st.composite
def observe_instr(draw):
    op = draw(st.sampled_from(["norm", "expect", "expect", "rdm1site", "rdm2site", "rdm2site", "rdm1dof", "rdm2dof", "rdm2dof",
                               "entropy", "entropy", "bond_entropy"]))
    ins = {"op": op, "a": draw(_ref)}
    if op == "expect":
        ins["o"] = draw(_ref)
        ins["as_ops"] = draw(st.integers(0, 3)) == 0
    elif op == "rdm1site":
        ins["mode"] = draw(st.integers(0, 2))
        ins["i"] = draw(st.integers(0, 12))
        ins["idx"] = draw(st.lists(st.integers(0, 12), min_size=1, max_size=3))
    elif op == "rdm2site":
        ins["pairs"] = draw(_pairs)
        ins["as_tuple"] = draw(st.booleans())
    elif op == "rdm1dof":
        ins["mode"] = draw(st.integers(0, 2))
        ins["sites"] = draw(st.lists(st.integers(0, 12), min_size=1, max_size=3))
        ins["k"] = draw(st.integers(0, 2))
    elif op == "rdm2dof":
        ins["pairs"] = draw(_pairs)
        ins["as_tuple"] = draw(st.booleans())
        ins["same_node"] = draw(st.booleans())
        ins["k"] = draw(st.integers(0, 2))
    elif op == "entropy":
        ins["kind"] = draw(st.sampled_from(["1site", "1dof", "2site", "2dof", "mutual"]))
        ins["sites"] = draw(st.lists(st.integers(0, 12), min_size=1, max_size=3))
        ins["pairs"] = draw(_pairs)
    return ins


@st.composite
def trunc_instr(draw):
    return {"op": "truncate", "a": draw(_ref), "crit": draw(st.sampled_from(["threshold", "fixed", "fixed", "both"])),
            "thr": draw(st.sampled_from([1e-3, 1e-2, 0.05, 0.1, 0.2, 0.3, 0.5, 0.6])),
            "M": draw(st.sampled_from([1, 1, 2, 2, 3, 4])), "big": draw(st.integers(0, 3)) > 0, "rel": draw(st.booleans()),
            "style": draw(st.sampled_from(["config", "config_list", "temp_int", "temp_list"])),
            "Mlist": draw(st.lists(st.sampled_from([1, 2, 2, 3, 4]), min_size=8, max_size=8)),
            "ret_s": draw(st.booleans())}


@st.composite
def twin_instr(draw):
    return {"op": "twin", "a": draw(_ref), "b": draw(_ref), "o": draw(_ref), "keys": [draw(st.integers(0, 3)) for _ in range(8)],
            "i": draw(st.integers(0, 12)), "j": draw(st.integers(0, 12))}


@st.composite
def from_mps_instr(draw, mspec):
    t = draw(ttno_instr(mspec))
    return {"op": "from_mps", "terms": t["terms"], "q": draw(st.integers(0, 50)), "m": draw(st.sampled_from([1, 2, 4, 8])),
            "rng": draw(st.integers(0, 10 ** 6)), "cplx": draw(st.booleans()), "gauge": draw(st.integers(0, 2))}

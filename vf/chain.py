"""Chain (MPS / MPO / MpDm) program interpreter with a dense model executed in lock step.

A *program* is a list of instruction dicts (plain data).  Operand references are integers taken modulo the
number of live registers of the right kind, so every instruction list is valid by construction.
Registers: states (Mps), ops (Mpo), dms (MpDm).  Each register carries its dense model
(vector / matrix, already multiplied by the scalar prefactor) and its expected symmetry sector.

Used by C03 (arithmetic), C04 (gauge), C05 (truncation), C06 (quantum numbers), C07 (observables),
C13 (aliasing) and C14 (dump/load) - each with its own per-step checks.
"""
import numpy as np
from hypothesis import strategies as st

from vf import gen
from vf.core import lib_exception_sig

BIG = 10 ** 6


# ------------------------------------------------------------------------------------------------
# dense helpers
# ------------------------------------------------------------------------------------------------

def dense_of(x):
    """represented vector / matrix: tensors times prefactor."""
    d = np.asarray(x.todense())
    c = getattr(x, "coeff", 1)
    return d * c


def tensors_dense(x):
    return np.asarray(x.todense())


def raw_arrays(x):
    return [np.asarray(x[i].array) for i in range(len(x))]


def sigmaqn_of(x, i):
    return np.asarray(x._get_sigmaqn(i))


def label_violation(x, tol=1e-12):
    """C06(b): largest |entry| (relative to the largest entry of its tensor) in a position forbidden by the stored
    bond labels; returns (value, description) - value 0.0 when the labels are a valid description."""
    n = len(x)
    qn = [np.asarray(q) for q in x.qn]
    qntot = np.asarray(x.qntot)
    worst = 0.0
    where = ""
    if len(qn) != n + 1:
        return 1.0, f"len(qn)={len(qn)} for {n} sites"
    for i in range(n):
        a = np.asarray(x[i].array)
        if qn[i].shape[0] != a.shape[0] or qn[i + 1].shape[0] != a.shape[-1]:
            return 1.0, f"site {i}: label counts {qn[i].shape[0]},{qn[i + 1].shape[0]} vs bond dims {a.shape[0]},{a.shape[-1]}"
        sq = sigmaqn_of(x, i)
        sq = sq.reshape(-1, sq.shape[-1])
        a3 = a.reshape(a.shape[0], -1, a.shape[-1])
        ql = qn[i].reshape(a.shape[0], -1)
        qr = qn[i + 1].reshape(a.shape[-1], -1)
        L = ql[:, None, None, :]
        S = sq[None, :, None, :]
        R = qr[None, None, :, :]
        if i < x.qnidx:
            ok = np.all(L + S == R, axis=-1)
        elif i > x.qnidx:
            ok = np.all(L == S + R, axis=-1)
        else:
            ok = np.all(L + S + R == qntot.reshape(1, 1, 1, -1), axis=-1)
        mx = np.max(np.abs(a3)) if a3.size else 0.0
        if mx == 0:
            continue
        bad = np.abs(a3)[~ok]
        if bad.size:
            v = float(bad.max() / mx)
            if v > worst:
                worst = v
                where = f"site {i} (qnidx {x.qnidx}, to_right {x.to_right})"
    return worst, where


def sector_leak(spec, vec, q):
    """norm of the part of a dense vector outside sector q, relative to its norm."""
    bq = gen.basis_state_qn(spec)
    mask = np.all(bq == np.asarray(q).reshape(1, -1), axis=1)
    v = np.asarray(vec).reshape(-1)
    nrm = np.linalg.norm(v)
    if nrm == 0:
        return 0.0
    return float(np.linalg.norm(v[~mask]) / nrm)


def op_sector_leak(spec, mat, q):
    """for an operator with charge q: norm of entries <a|O|b> with qn(a) != qn(b)+q, relative."""
    bq = gen.basis_state_qn(spec)
    ok = np.all(bq[:, None, :] == bq[None, :, :] + np.asarray(q).reshape(1, 1, -1), axis=-1)
    m = np.asarray(mat)
    nrm = np.linalg.norm(m)
    if nrm == 0:
        return 0.0
    return float(np.linalg.norm(m[~ok]) / nrm)


def is_left_iso(a, tol=1e-8):
    m = a.reshape(-1, a.shape[-1])
    g = m.conj().T @ m
    return float(np.max(np.abs(g - np.eye(g.shape[0]))))


def is_right_iso(a, tol=1e-8):
    m = a.reshape(a.shape[0], -1)
    g = m @ m.conj().T
    return float(np.max(np.abs(g - np.eye(g.shape[0]))))


def iso_defect_scaled(a, left):
    """for Mpo the library spreads the norm: A^dagger A must be proportional to 1"""
    m = a.reshape(-1, a.shape[-1]) if left else a.reshape(a.shape[0], -1).T
    g = m.conj().T @ m
    s = np.trace(g).real / g.shape[0]
    if s == 0:
        return 1.0
    return float(np.max(np.abs(g / s - np.eye(g.shape[0]))))


# ------------------------------------------------------------------------------------------------
# registers
# ------------------------------------------------------------------------------------------------

class Reg:
    __slots__ = ("obj", "model", "q", "kind", "tag")

    def __init__(self, obj, model, q, kind, tag=""):
        self.obj = obj
        self.model = np.asarray(model)
        self.q = tuple(int(v) for v in q)
        self.kind = kind
        self.tag = tag


class Interp:
    """executes a program; `hooks` is an object with optional callbacks
    after_create(reg), after_arith(reg, instr), after_gauge(reg, before_dense, instr), after_observe(name, got, ref, scale)"""

    def __init__(self, spec, result, hooks=None):
        from renormalizer.model import Model

        self.spec = spec
        self.r = result
        self.bl = gen.build_basis_list(spec)
        self.lib_model = Model(list(self.bl), [])
        self.n = len(spec["sites"])
        self.dims = gen.pdims(spec)
        self.D = int(np.prod(self.dims))
        self.S = []  # states
        self.O = []  # operators
        self.M = []  # density operators
        self.hooks = hooks
        self.secs = gen.sectors(spec)
        self.trace = []
        self.zero_q = tuple([0] * gen.qn_size(spec))
        self.has_qn = any(np.any(gen.site_sigmaqn(spec, i) != 0) for i in range(self.n))

    # ---------------------------------------------------------------------------------------------
    def fresh_model(self):
        from renormalizer.model import Model

        return Model(list(self.bl), [])

    def guard(self, sig, fn, *a, **k):
        """call a library function; a library exception becomes a failure (returns (ok, value))."""
        try:
            return True, fn(*a, **k)
        except Exception as e:  # noqa
            s, in_lib = lib_exception_sig(e)
            if not in_lib:
                raise
            self.r.fail(f"{sig}.{s}", f"{e!r} trace={self.trace[-6:]}")
            return False, None

    def tol(self, scale, rel=1e-9):
        return rel * max(scale, 1e-300) + 1e-13

    def compare(self, sig, reg, what=""):
        got = dense_of(reg.obj)
        sc = max(np.linalg.norm(reg.model), 1e-300)
        return self.r.check_close(sig, got, reg.model, self.tol(sc), f"{what} trace={self.trace[-6:]}")

    def pick(self, regs, idx, same_q_as=None):
        if not regs:
            return None
        if same_q_as is None:
            return regs[idx % len(regs)]
        cands = [x for x in regs if x.q == same_q_as.q]
        if not cands:
            return None
        return cands[idx % len(cands)]

    # ---------------------------------------------------------------------------------------------
    def run(self, prog):
        for ins in prog:
            self.trace.append(ins.get("op"))
            fn = getattr(self, "i_" + ins["op"])
            fn(ins)
            if len(self.r.failures) >= 3:
                break

    # ---- creation -----------------------------------------------------------------------------------
    def add_state(self, obj, q, tag):
        reg = Reg(obj, dense_of(obj), q, "S", tag)
        self.S.append(reg)
        if self.hooks is not None:
            self.hooks.after_create(self, reg)
        return reg

    def i_rand(self, ins):
        from renormalizer.mps import Mps

        q = self.secs[ins["q"] % len(self.secs)]
        np.random.seed(ins["rng"])
        try:
            qarg = np.array(q) if len(q) > 1 else int(q[0])
            mps = Mps.random(self.fresh_model(), qarg, ins["m"], percent=ins["pct"])
            d = mps.todense()
            if not np.all(np.isfinite(d)) or np.linalg.norm(d) == 0:
                raise FloatingPointError("non-finite random state")
        except (FloatingPointError, ZeroDivisionError, ValueError, AssertionError, IndexError) as e:
            self.r.classes.append("rand.rejected")
            return
        if ins.get("cplx"):
            mps = mps.to_complex()
            ph = np.exp(1j * 0.7)
            mps = mps.scale(ph)
            if ins["rng"] % 3:
                # genuinely complex tensors (a real state times a phase has real transfer matrices, so a misplaced conj() inside a
                # contraction stays invisible): a + i b with an independent second random state of the sector; the register's dense
                # model is read from the finished object, as for every constructor
                try:
                    np.random.seed(ins["rng"] + 7919)
                    other = Mps.random(self.fresh_model(), qarg, max(1, ins["m"] // 2 if isinstance(ins["m"], int) else 1), percent=1.0)
                    both = mps.add(other.to_complex().scale(0.8j))
                    d2 = both.todense()
                    if np.all(np.isfinite(d2)) and np.linalg.norm(d2) > 1e-6:
                        mps = both
                        self.r.classes.append("rand.genuinely_complex")
                except (FloatingPointError, ZeroDivisionError, ValueError, AssertionError, IndexError):
                    pass
        self.add_state(mps, q, "rand")

    def i_prod(self, ins):
        from renormalizer.mps import Mps

        cond = {}
        q = np.zeros(len(self.zero_q), dtype=int)
        for i in range(self.n):
            st_idx = ins["occ"][i % len(ins["occ"])] % self.dims[i]
            sq = np.asarray(gen.site_sigmaqn(self.spec, i))
            if ins.get("vec") and (ins["vec"] + i) % 2:
                # vector-valued local state (documented form {"v_3": [0, 0.707, 0.707]}): a superposition of the local states that
                # carry the same quantum number as the drawn one, with amplitudes of either sign (incl. all negative)
                same = [k for k in range(self.dims[i]) if np.array_equal(sq[k], sq[st_idx])]
                amp = [-0.6, -0.8, 0.5, -1.0, 0.3]
                v = [0.0] * int(self.dims[i])
                for j, k in enumerate(same[:3]):
                    v[k] = amp[(ins["vec"] + i + j) % len(amp)]
                cond[gen.site_dofs(self.spec, i)[0]] = v
            else:
                cond[gen.site_dofs(self.spec, i)[0]] = int(st_idx)
            q = q + sq[st_idx]
        ok, mps = self.guard("create.prod", Mps.hartree_product_state, self.fresh_model(), cond,
                             ins["qnidx"] % self.n if ins.get("qnidx") is not None else None)
        if ok:
            self.add_state(mps, q, "prod")

    def i_gs(self, ins):
        from renormalizer.mps import Mps

        if any(s["k"] in ("multi", "dummy") for s in self.spec["sites"]):
            return
        if any(np.any(gen.site_sigmaqn(self.spec, i)[0] != 0) for i in range(self.n)):
            return  # the constructor puts every electronic/spin site in local state 0 and labels it with qn 0
        maxent = bool(ins["maxent"])
        if maxent and any(s["k"] == "spin" and np.any(gen.site_sigmaqn(self.spec, i) != 0)
                          for i, s in enumerate(self.spec["sites"])):
            # the T=infinity state of a spin site mixes its two states: not a sector state when the spin carries a
            # quantum number (the constructor is documented for spin-boson models, whose spin has no qn)
            maxent = False
        ok, mps = self.guard("create.gs", Mps.ground_state, self.fresh_model(), maxent)
        if ok:
            self.add_state(mps, self.zero_q, "gs")

    def i_dense(self, ins):
        from renormalizer.mps import Mps

        if self.has_qn:
            return
        rng = np.random.default_rng(ins["rng"])
        v = rng.standard_normal(self.D)
        if ins.get("cplx"):
            v = v + 1j * rng.standard_normal(self.D)
        v = v / np.linalg.norm(v)
        ok, mps = self.guard("create.from_dense", Mps.from_dense, self.fresh_model(), v)
        if ok:
            reg = self.add_state(mps, self.zero_q, "dense")
            self.r.check_close("create.from_dense", dense_of(mps), v, 1e-12, "from_dense round trip")

    def i_mpo(self, ins):
        from renormalizer.mps import Mpo

        terms = ins["terms"]
        q = tuple(ins["charge"])
        cplx = any(gen.is_complex_local(self.spec, t) for t in terms)
        ops = []
        for t in terms:
            op = gen.build_op(self.spec, t)
            if cplx:
                op = op * complex(1.0, 0.0)
            ops.append(op)
        ref, scale = gen.dense_operator(self.spec, terms, 0.0, self.bl)
        if np.linalg.norm(ref) <= 1e-12 * scale:
            return
        ok, mpo = self.guard("create.mpo", Mpo, self.fresh_model(), ops, algo=ins.get("algo", "qr"))
        if not ok:
            return
        reg = Reg(mpo, ref, q, "O", "mpo")
        self.r.check_close("create.mpo", dense_of(mpo), ref, 1e-7 * scale, "Mpo dense")
        reg.model = np.asarray(dense_of(mpo))  # continue with the library's own rounding
        self.O.append(reg)
        if self.hooks is not None:
            self.hooks.after_create(self, reg)

    def i_mpdm_from(self, ins):
        from renormalizer.mps import MpDm

        a = self.pick(self.S, ins["a"])
        if a is None or self.D > 64:
            return
        ok, dm = self.guard("create.mpdm_from_mps", MpDm.from_mps, a.obj.copy())
        if not ok:
            return
        ref = np.diag(tensors_dense(a.obj)) * a.obj.coeff
        reg = Reg(dm, ref, a.q, "M", "from_mps")
        self.M.append(reg)
        self.compare("create.mpdm_from_mps", reg, "MpDm.from_mps = diag(psi)")
        if self.hooks is not None:
            self.hooks.after_create(self, reg)

    # ---- gauge moves (in place; must preserve the represented object) ----------------------------
    def _regs(self, ins):
        kind = ins.get("on", "S")
        return {"S": self.S, "O": self.O, "M": self.M}[kind]

    def _gauge(self, ins, fn, name):
        reg = self.pick(self._regs(ins), ins["a"])
        if reg is None:
            return
        before = dict(bond_dims=list(reg.obj.bond_dims), qnidx=reg.obj.qnidx, to_right=reg.obj.to_right)
        ok, _ = self.guard(f"gauge.{name}", fn, reg.obj)
        if not ok:
            # a crashed in-place move leaves an undefined object: drop the register
            self._regs(ins).remove(reg)
            return
        self.compare(f"gauge.{name}", reg, name)
        if self.hooks is not None:
            self.hooks.after_gauge(self, reg, before, ins, name)

    def i_ensure_left(self, ins):
        self._gauge(ins, lambda x: x.ensure_left_canonical(), "ensure_left")

    def i_ensure_right(self, ins):
        self._gauge(ins, lambda x: x.ensure_right_canonical(), "ensure_right")

    @staticmethod
    def _prep_end(x):
        """what ensure_*_canonical does before canonicalise(): put the qn centre at the end the sweep starts from"""
        end = 0 if x.to_right else x.site_num - 1
        if x.qnidx != end:
            x.move_qnidx(end)

    def i_canon(self, ins):
        def f(x):
            self._prep_end(x)
            x.canonicalise()
        self._gauge(ins, f, "canonicalise")

    def i_canon_stop(self, ins):
        def f(x):
            self._prep_end(x)
            s = ins["stop"] % x.site_num
            x.canonicalise(stop_idx=s)
        self._gauge(ins, f, "canonicalise_stop")

    def i_move_qnidx(self, ins):
        self._gauge(ins, lambda x: x.move_qnidx(ins["k"] % x.site_num), "move_qnidx")

    def i_compress_lossless(self, ins):
        from renormalizer.utils import CompressConfig, CompressCriteria

        def f(x):
            if ins.get("dir", 0):
                x.ensure_left_canonical()
            else:
                x.ensure_right_canonical()
            mode = ins.get("mode", 0)
            if mode == 3 and x.is_mps and x.site_num > 1:
                # per-bond limits equal to the exact Schmidt ranks (tight, and decreasing towards the chain ends)
                t = tensors_dense(x)
                dims = list(self.dims)
                nrm = max(np.linalg.norm(t), 1e-300)
                lim = [1]
                for c in range(1, len(dims)):
                    sv = np.linalg.svd(t.reshape(int(np.prod(dims[:c])), -1), compute_uv=False)
                    lim.append(max(1, int(np.sum(sv > 1e-11 * nrm))))
                lim.append(1)
                x.compress(temp_m_trunc=lim if ins.get("aslist", 0) == 0 else np.array(lim))
            elif mode == 0 or mode == 3:
                x.compress(temp_m_trunc=BIG)
            elif mode == 1:
                x.compress(temp_m_trunc=[BIG] * (x.site_num + 1))
            else:
                x.compress_config = CompressConfig(CompressCriteria.fixed, max_bonddim=BIG)
                x.compress()
        self._gauge(ins, f, "compress_lossless")

    # ---- arithmetic ------------------------------------------------------------------------------------
    def _new(self, regs, obj, model, q, tag, ins, sig):
        reg = Reg(obj, model, q, regs[0].kind if regs else "S", tag)
        kind = {id(self.S): "S", id(self.O): "O", id(self.M): "M"}[id(regs)]
        reg.kind = kind
        regs.append(reg)
        self.compare(sig, reg, tag)
        if self.hooks is not None:
            self.hooks.after_arith(self, reg, ins, sig)
        return reg

    def _binary_pair(self, ins):
        regs = self._regs(ins)
        a = self.pick(regs, ins["a"])
        if a is None:
            return None, None, regs
        b = self.pick(regs, ins["b"], same_q_as=a)
        return a, b, regs

    def _nonzero_sum(self, m1, m2):
        s = np.linalg.norm(m1) + np.linalg.norm(m2)
        return np.linalg.norm(m1 + m2) > 1e-6 * s

    def i_add(self, ins):
        a, b, regs = self._binary_pair(ins)
        if a is None or b is None or len(regs) > 12:
            return
        if not self._nonzero_sum(a.model, b.model):
            return
        self._note_pair(a, b)
        ok, c = self.guard("arith.add", lambda: a.obj.add(b.obj) if ins.get("meth", 0) == 0 else a.obj + b.obj)
        if ok:
            self._new(regs, c, a.model + b.model, a.q, "add", ins, "arith.add")
            # the operands still represent what they did (coeff folding is allowed)
            self.compare("arith.add.operand_a", a, "operand a after add")
            self.compare("arith.add.operand_b", b, "operand b after add")

    def i_sub(self, ins):
        a, b, regs = self._binary_pair(ins)
        if a is None or b is None or len(regs) > 12:
            return
        if not self._nonzero_sum(a.model, -b.model):
            return
        self._note_pair(a, b)
        ok, c = self.guard("arith.sub", lambda: a.obj - b.obj)
        if ok:
            self._new(regs, c, a.model - b.model, a.q, "sub", ins, "arith.sub")
            self.compare("arith.sub.operand_b", b, "operand b after sub")

    def _note_pair(self, a, b):
        xa, xb = a.obj, b.obj
        if xa.qnidx != xb.qnidx:
            self.r.classes.append("binary.centres_differ")
        if xa.to_right != xb.to_right:
            self.r.classes.append("binary.directions_differ")
        if xa.is_complex != xb.is_complex:
            self.r.classes.append("binary.dtypes_differ")
        if getattr(xa, "coeff", 1) != 1 or getattr(xb, "coeff", 1) != 1:
            self.r.classes.append("binary.coeff_ne_1")
        self.r.info["mixed_binary"] = self.r.info.get("mixed_binary", 0) + int(
            xa.qnidx != xb.qnidx or xa.to_right != xb.to_right or xa.is_complex != xb.is_complex)

    def i_cadd(self, ins):
        """a + i*b : a genuinely complex superposition"""
        a, b, regs = self._binary_pair(ins)
        if a is None or b is None or len(regs) > 12:
            return
        if not self._nonzero_sum(a.model, 1j * b.model):
            return
        ok, c = self.guard("arith.cadd", lambda: a.obj.add(b.obj.scale(1j)))
        if ok:
            self._new(regs, c, a.model + 1j * b.model, a.q, "cadd", ins, "arith.add")

    def _scalar(self, ins):
        v = complex(ins["val"][0], ins["val"][1])
        return v if v.imag != 0 else v.real

    def i_scale(self, ins):
        regs = self._regs(ins)
        a = self.pick(regs, ins["a"])
        if a is None or len(regs) > 12:
            return
        v = self._scalar(ins)
        if ins.get("inplace"):
            ok, c = self.guard("arith.scale_inplace", a.obj.scale, v, inplace=True)
            if ok:
                a.model = a.model * v
                self.compare("arith.scale_inplace", a, "scale inplace")
                self.r.check("arith.scale_inplace.identity", c is a.obj, "scale(inplace=True) returned another object")
                if self.hooks is not None:
                    self.hooks.after_arith(self, a, ins, "arith.scale_inplace")
            return
        ok, c = self.guard("arith.scale", a.obj.scale, v)
        if ok:
            self._new(regs, c, a.model * v, a.q, "scale", ins, "arith.scale")
            self.compare("arith.scale.operand", a, "operand after scale")

    def i_normalize(self, ins):
        """normalize(kind) of a copy: 'mps_only' normalises the tensors and keeps the prefactor, 'mps_and_coeff' also reduces the
        prefactor to its phase, 'mps_norm_to_coeff' moves the norm into the prefactor (same represented state)"""
        regs = self.S if ins.get("on", "S") == "S" else self.M
        a = self.pick(regs, ins["a"])
        if a is None or len(regs) > 12:
            return
        kind = ["mps_only", "mps_and_coeff", "mps_norm_to_coeff"][ins["kind"] % 3]
        t = tensors_dense(a.obj)
        nt = np.linalg.norm(t)
        c = complex(a.obj.coeff)
        if not nt > 1e-8 or abs(c) < 1e-12:
            return
        ok, y = self.guard("arith.normalize.copy", a.obj.copy)
        if not ok:
            return
        ok, ret = self.guard(f"arith.normalize.{kind}", y.normalize, kind)
        if not ok:
            return
        if kind == "mps_only":
            ref = t / nt * c
        elif kind == "mps_and_coeff":
            ref = t / nt * (c / abs(c))
        else:
            ref = t * c
        self.r.classes.append(f"arith.normalize.{kind}")
        self.r.check(f"arith.normalize.{kind}.returns_self", ret is y, "normalize() did not return the object it works on")
        self._new(regs, y, ref, a.q, "normalize", ins, f"arith.normalize.{kind}")

    def i_coeff(self, ins):
        """multiply the scalar prefactor of a state (public attribute used by evolution)"""
        a = self.pick(self.S if ins.get("on", "S") == "S" else self.M, ins["a"])
        if a is None:
            return
        v = self._scalar(ins)
        a.obj.coeff = a.obj.coeff * v
        a.model = a.model * v

    def i_conj(self, ins):
        regs = self._regs(ins)
        a = self.pick(regs, ins["a"])
        if a is None or len(regs) > 12:
            return
        ok, c = self.guard("arith.conj", a.obj.conj)
        if ok:
            self._new(regs, c, a.model.conj(), a.q, "conj", ins, "arith.conj")

    def i_to_complex(self, ins):
        regs = self._regs(ins)
        a = self.pick(regs, ins["a"])
        if a is None or len(regs) > 12:
            return
        ok, c = self.guard("arith.to_complex", a.obj.to_complex)
        if ok:
            self._new(regs, c, a.model.astype(complex), a.q, "to_complex", ins, "arith.to_complex")

    def i_copy(self, ins):
        regs = self._regs(ins)
        a = self.pick(regs, ins["a"])
        if a is None or len(regs) > 12:
            return
        ok, c = self.guard("arith.copy", a.obj.copy)
        if ok:
            self._new(regs, c, a.model.copy(), a.q, "copy", ins, "arith.copy")

    def i_apply(self, ins):
        """operator on state"""
        o = self.pick(self.O, ins["o"])
        a = self.pick(self.S, ins["a"])
        if o is None or a is None or len(self.S) > 12:
            return
        ref = o.model @ a.model
        if np.linalg.norm(ref) <= 1e-9 * np.linalg.norm(o.model, 2) * np.linalg.norm(a.model):
            return  # operator annihilates the state: the zero state is outside the domain (precondition 4)
        q = tuple(np.array(a.q) + np.array(o.q))
        if any(o.q):
            self.r.classes.append("apply.charged")
        ok, c = self.guard("arith.apply", lambda: o.obj.apply(a.obj) if ins.get("meth", 0) == 0 else o.obj @ a.obj)
        if ok:
            self._new(self.S, c, ref, q, "apply", ins, "arith.apply")
            self.compare("arith.apply.operand", a, "state after being applied to")

    def i_tie(self, ins):
        """(|..1_i..0_j..> + |..0_i..1_j..>)/sqrt2 on two identical sites: exactly degenerate non-zero singular values
        (bitwise ties across different quantum-number blocks) at every cut between i and j"""
        from renormalizer.mps import Mps

        pairs = [(i, j) for i in range(self.n) for j in range(i + 1, self.n)
                 if self.spec["sites"][i] == self.spec["sites"][j] and self.dims[i] >= 2]
        if not pairs:
            return
        i, j = pairs[ins.get("pair", 0) % len(pairs)]
        base = [ins["occ"][k % len(ins["occ"])] % self.dims[k] for k in range(self.n)]
        base[i] = base[j] = 0
        objs = []
        q = None
        for hot in (i, j):
            occ = list(base)
            occ[hot] = 1
            cond = {gen.site_dofs(self.spec, k)[0]: int(occ[k]) for k in range(self.n)}
            ok, m = self.guard("create.prod", Mps.hartree_product_state, self.fresh_model(), cond)
            if not ok:
                return
            objs.append(m)
            q = sum((gen.site_sigmaqn(self.spec, k)[occ[k]] for k in range(self.n)), np.zeros(len(self.zero_q), dtype=int))
        ok, c = self.guard("arith.add", objs[0].add, objs[1])
        if ok:
            c.scale(ins.get("fac", 1.0) / np.sqrt(2.0), inplace=True)
            self.r.classes.append("state.exact_singular_value_tie")
            self.add_state(c, q, "tie")

    def i_local_op(self, ins):
        """apply a bond-dimension-1 operator acting on ONE site (all other site tensors keep their gauge)"""
        from renormalizer.mps import Mpo

        a = self.pick(self.S, ins["a"])
        if a is None or len(self.S) > 12:
            return
        site = [0, self.n - 1, ins.get("site", 0) % self.n][ins.get("where", 2) % 3]
        zero = tuple([0] * gen.qn_size(self.spec))
        blocks = [p for p, q in gen.site_blocks(self.spec, site, real_only=True) if q == zero and p[0][1] != "I"]
        if not blocks:
            return
        picks = blocks[ins.get("blk", 0) % len(blocks)]
        term = {"f": [ins.get("fac", 1.5), 0.0], "ops": [list(x) for x in picks]}
        ref, scale = gen.dense_operator(self.spec, [term], 0.0, self.bl)
        out = ref @ a.model
        if np.linalg.norm(out) <= 1e-9 * scale * max(np.linalg.norm(a.model), 1e-300):
            return
        ok, mpo = self.guard("create.local_mpo", Mpo, self.fresh_model(), [gen.build_op(self.spec, term)])
        if not ok:
            return
        ok, c = self.guard("arith.local_op", mpo.apply, a.obj)
        if ok:
            self.r.classes.append(f"local_op.{['first', 'last', 'any'][ins.get('where', 2) % 3]}_site")
            self._new(self.S, c, out, a.q, "local_op", ins, "arith.apply")

    def i_contract(self, ins):
        from renormalizer.utils import CompressConfig, CompressCriteria

        o = self.pick(self.O, ins["o"])
        a = self.pick(self.S, ins["a"])
        if o is None or a is None or len(self.S) > 12:
            return
        ref = o.model @ a.model
        if np.linalg.norm(ref) <= 1e-9 * np.linalg.norm(o.model, 2) * np.linalg.norm(a.model):
            return
        q = tuple(np.array(a.q) + np.array(o.q))
        x = a.obj.copy()
        self._prep_end(x)  # contract() canonicalises: qn centre at the end the sweep starts from (DESIGN §3.3)
        x.compress_config = CompressConfig(CompressCriteria.fixed, max_bonddim=BIG)
        ok, c = self.guard("arith.contract", o.obj.contract, x)
        if ok:
            self._new(self.S, c, ref, q, "contract", ins, "arith.contract")

    def i_opmul(self, ins):
        o1 = self.pick(self.O, ins["a"])
        o2 = self.pick(self.O, ins["b"])
        if o1 is None or o2 is None or len(self.O) > 8:
            return
        ref = o1.model @ o2.model
        if np.linalg.norm(ref) <= 1e-9 * np.linalg.norm(o1.model, 2) * np.linalg.norm(o2.model, 2):
            return
        q = tuple(np.array(o1.q) + np.array(o2.q))
        ok, c = self.guard("arith.opmul", o1.obj.apply, o2.obj)
        if ok:
            self._new(self.O, c, ref, q, "opmul", ins, "arith.opmul")

    def i_conj_trans(self, ins):
        o = self.pick(self.O, ins["a"])
        if o is None or len(self.O) > 8:
            return
        q = tuple(-np.array(o.q))
        ok, c = self.guard("arith.conj_trans", o.obj.conj_trans)
        if ok:
            self._new(self.O, c, o.model.conj().T, q, "conj_trans", ins, "arith.conj_trans")

    def i_dm_apply(self, ins):
        """MpDm.apply(O) = rho O  ;  O.apply(MpDm) = O rho"""
        o = self.pick(self.O, ins["o"])
        m = self.pick(self.M, ins["a"])
        if o is None or m is None or len(self.M) > 6:
            return
        if ins.get("side", 0) == 0:
            if any(o.q):
                return  # MpDm.apply keeps the sector bookkeeping of the ket side only (dummy qn of the operator)
            ref = m.model @ o.model
            fn = lambda: m.obj.apply(o.obj)
            q = m.q
        else:
            ref = o.model @ m.model
            fn = lambda: o.obj.apply(m.obj)
            q = tuple(np.array(m.q) + np.array(o.q))
        if np.linalg.norm(ref) <= 1e-9 * np.linalg.norm(o.model, 2) * np.linalg.norm(m.model):
            return
        ok, c = self.guard("arith.dm_apply", fn)
        if ok:
            self._new(self.M, c, ref, q, "dm_apply", ins, "arith.dm_apply")

    # ---- observers ----------------------------------------------------------------------------------------
    def _obs(self, name, got, ref, scale, rel=1e-9):
        self.r.check_close(f"observe.{name}", np.asarray(got, dtype=complex), np.asarray(ref, dtype=complex),
                           self.tol(scale, rel), f"{name} trace={self.trace[-6:]}")

    def i_dot(self, ins):
        a, b, regs = self._binary_pair(ins)
        if a is None or b is None:
            return
        ta, tb = tensors_dense(a.obj), tensors_dense(b.obj)
        sc = np.linalg.norm(ta) * np.linalg.norm(tb)
        ok, v = self.guard("observe.dot", a.obj.dot, b.obj)
        if ok:
            self._obs("dot", v, np.sum(ta * tb), sc)
        ok, v = self.guard("observe.conj_dot", lambda: a.obj.conj().dot(b.obj))
        if ok:
            self._obs("conj_dot", v, np.sum(ta.conj() * tb), sc)
        ok, v = self.guard("observe.angle", a.obj.angle, b.obj)
        if ok:
            self._obs("angle", v, abs(np.sum(ta.conj() * tb)), sc)

    def i_distance(self, ins):
        a, b, regs = self._binary_pair(ins)
        if a is None or b is None:
            return
        ref = np.linalg.norm(a.model - b.model)
        sc = np.linalg.norm(a.model) + np.linalg.norm(b.model)
        ca, cb = getattr(a.obj, "coeff", 1), getattr(b.obj, "coeff", 1)
        ok, v = self.guard("observe.distance", a.obj.distance, b.obj)
        if ok:
            # distance is computed as sqrt(l1+l2-2Re<a|b>): absolute accuracy ~ sqrt(eps)*scale
            if np.allclose(ca, cb) and not np.isclose(abs(ca), 1.0) and abs(v * abs(ca) - ref) <= self.tol(sc, 1e-7) \
                    and abs(v - ref) > self.tol(sc, 1e-7):
                # finding F27: a common prefactor c != 1 is ignored (distance of the tensor parts is returned)
                self.r.fail("observe.distance.common_prefactor_ignored",
                            f"distance={v} but |a-b|={ref} for two states with the same prefactor {ca} (= {abs(ca)}*{v}) trace={self.trace[-6:]}")
            else:
                self._obs("distance", v, ref, sc, rel=1e-7)
            self.compare("observe.distance.operand_a", a, "a after distance")
            self.compare("observe.distance.operand_b", b, "b after distance")

    def i_norm(self, ins):
        regs = self._regs(ins)
        a = self.pick(regs, ins["a"])
        if a is None:
            return
        t = tensors_dense(a.obj)
        ok, v = self.guard("observe.mp_norm", lambda: a.obj.mp_norm)
        if ok:
            self._obs("mp_norm", v, np.linalg.norm(t), np.linalg.norm(t), rel=1e-8)
        if a.kind in ("S", "M"):
            ok, v = self.guard("observe.norm", lambda: a.obj.norm)
            if ok:
                self._obs("norm", v, np.linalg.norm(a.model), np.linalg.norm(a.model), rel=1e-8)

    def i_expect(self, ins):
        o = self.pick(self.O, ins["o"])
        a = self.pick(self.S, ins["a"])
        if o is None or a is None:
            return
        t = tensors_dense(a.obj)
        ref = t.conj() @ (o.model @ t)
        sc = np.linalg.norm(o.model, 2) * np.linalg.norm(t) ** 2
        ok, v = self.guard("observe.expectation", a.obj.expectation, o.obj)
        if ok:
            ref = complex(ref)
            if not isinstance(v, complex) and abs(ref.imag) <= 1.0000001e-8:
                # documented: a float is returned when the imaginary part is negligible; the code's notion of negligible is an
                # ABSOLUTE 1e-8 (np.isclose(imag, 0)), so a real return value may hide that much (sharp return-type checks: C07)
                ref = complex(ref.real, 0.0)
            self._obs("expectation", v, ref, sc)


# ------------------------------------------------------------------------------------------------
# strategies
# ------------------------------------------------------------------------------------------------

def chain_model_specs(min_sites=2, max_sites=6, max_dim=256, qn=None):
    kinds = {0: ["spin", "spin", "sho", "elec", "mvac", "hops", "multi"],
             1: ["spin", "elec", "elec", "sho", "mvac", "multi"],
             2: ["spin", "spin", "elec", "multi"]}

    @st.composite
    def f(draw):
        q = qn if qn is not None else draw(st.sampled_from([0, 1, 1, 2]))
        spec = draw(gen.model_specs(min_sites, max_sites, qn=q, kinds=kinds[q], max_dim=max_dim))
        # SHO sites in state programs: keep them small
        for s in spec["sites"]:
            if s["k"] == "sho":
                s["nbas"] = min(s["nbas"], 3)
                s["dvr"] = False
        return spec
    return f()


@st.composite
def create_instr(draw, spec, allow=("rand", "prod", "gs", "dense")):
    op = draw(st.sampled_from(allow))
    if op == "rand":
        return {"op": "rand", "q": draw(st.integers(0, 50)), "m": draw(st.sampled_from([1, 2, 3, 4, 6, 8, 16])),
                "pct": draw(st.sampled_from([1.0, 0.5, 0.0])), "rng": draw(st.integers(0, 10 ** 6)),
                "cplx": draw(st.booleans())}
    if op == "prod":
        return {"op": "prod", "vec": draw(st.sampled_from([0, 0, 1, 2, 3, 4])), "occ": draw(st.lists(st.integers(0, 3), min_size=1, max_size=6)),
                "qnidx": draw(st.one_of(st.none(), st.integers(0, 6)))}
    if op == "gs":
        return {"op": "gs", "maxent": draw(st.booleans())}
    return {"op": "dense", "rng": draw(st.integers(0, 10 ** 6)), "cplx": draw(st.booleans())}


@st.composite
def mpo_instr(draw, spec, real_only=False):
    has_qn = any(np.any(gen.site_sigmaqn(spec, i) != 0) for i in range(len(spec["sites"])))
    algo = draw(st.sampled_from(["qr", "Hopcroft-Karp", "Hungarian"]))
    if has_qn or draw(st.booleans()):
        terms, q = draw(gen.charged_operator(spec, real_only=real_only))
        return {"op": "mpo", "terms": terms, "charge": list(q), "algo": algo}
    terms, _ = draw(gen.term_tables(spec, 1, 4, real_only=real_only, max_support=3, decades=1))
    return {"op": "mpo", "terms": terms, "charge": [0] * gen.qn_size(spec), "algo": algo}


SCALARS = [[2.0, 0.0], [-0.5, 0.0], [0.3, 0.4], [0.0, 1.0], [-1.0, 0.0], [1e-3, 0.0], [40.0, -9.0], [1.0, 0.0]]


@st.composite
def gauge_instr(draw, on="S"):
    op = draw(st.sampled_from(["ensure_left", "ensure_right", "canon", "canon", "canon_stop", "move_qnidx",
                               "compress_lossless"]))
    ins = {"op": op, "a": draw(st.integers(0, 20)), "on": on}
    if op == "canon_stop":
        ins["stop"] = draw(st.integers(0, 6))
    if op == "move_qnidx":
        ins["k"] = draw(st.integers(0, 6))
    if op == "compress_lossless":
        ins["dir"] = draw(st.integers(0, 1))
        ins["mode"] = draw(st.sampled_from([0, 1, 2, 3, 3, 3]))
        ins["aslist"] = draw(st.integers(0, 1))
    return ins

"""C08 — ground / excited state searches are variational and consistent (chain; tree part in vf.props.c08 via vf.tree)."""
import numpy as np
from hypothesis import strategies as st

from vf.core import Prop, Result, lib_exception_sig
from vf import gen, chain


@st.composite
def cases(draw, tier):
    big = tier == "thorough"
    two = draw(st.integers(0, 2)) == 0
    dav = draw(st.integers(0, 7 if big else 191)) == 0
    if dav:
        # large enough for the iterative (Davidson) path: the optimizer only takes it when the local tensor has >= 1000 entries
        spec = draw(chain.chain_model_specs(10, 11, max_dim=2048, qn=draw(st.sampled_from([0, 1]))))
        for s_ in spec["sites"]:
            if s_["k"] not in ("spin", "elec"):
                s_.clear()
                s_.update({"k": "spin"} if spec["qnmode"] == 0 else {"k": "spin", "qn": [[0], [1]]})
    else:
        spec = draw(chain.chain_model_specs(2, 2 if two else (7 if big else 6), max_dim=512 if big else 128))
    if not dav and spec.get("qnmode") == 1 and draw(st.integers(0, 3)) == 0:
        # 2*S_z labels: quantum numbers of both signs on every spin
        for s_ in spec["sites"]:
            if s_["k"] == "spin":
                s_["qn"] = draw(st.sampled_from([[[1], [-1]], [[-1], [1]]]))
    terms = draw(gen.hermitian_hamiltonian(spec, max_terms=5))
    nsweep = draw(st.integers(2, 6))
    full = draw(st.integers(0, 4)) <= 1  # equality case: sufficient bond limits, last sweeps without perturbation
    sched = []
    for k in range(nsweep):
        M = 64 if full else draw(st.sampled_from([1, 2, 3, 4, 6, 8, 16, 64]))
        pct = draw(st.sampled_from([0, 0.1, 0.2, 0.3, 0.5]))
        if full and k >= nsweep - 2:
            pct = 0
        sched.append([M, pct, draw(st.booleans())])  # third: pass a CompressConfig object instead of an int
    if full and nsweep < 4:
        sched = [[64, 0.3, False], [64, 0.2, True]] + sched
    if full and draw(st.booleans()):
        # unperturbed from the second sweep on (the optimiser stops as soon as two sweeps agree, often before the tail of the
        # schedule above): makes the local-consistency window of the returned state's energy applicable
        sched = [[64, draw(st.sampled_from([0, 0.2])), draw(st.booleans())]] + [[64, 0, draw(st.booleans())] for _ in range(draw(st.integers(2, 4)))]
    if dav:
        sched = [[64, 0.2, False], [64, 0, True]]
    per_bond = draw(st.booleans())
    if per_bond and full:
        sched = [[m_, p_, True] for m_, p_, _ in sched]  # per-bond limits are carried by CompressConfig objects
    return {"model": spec, "terms": terms, "hnorm": draw(st.sampled_from([0.5, 1.0, 3.0, 8.0])), "dav": dav,
            "q": draw(st.integers(0, 50)), "m0": draw(st.sampled_from([1, 2, 4, 8])), "rng": draw(st.integers(0, 10 ** 6)),
            "sched": sched, "method": "2site" if dav else draw(st.sampled_from(["1site", "2site", "2site"])),
            "algo": "davidson" if dav else draw(st.sampled_from(["direct", "davidson"])), "nroots": draw(st.sampled_from([1, 1, 1, 2, 2, 3, 4])),
            "omega": draw(st.sampled_from([None, None, None, 0.0, 0.4, -1.3, 100.0])),
            "stacked": draw(st.integers(0, 4)) == 0, "mpo_algo": draw(st.sampled_from(["qr", "Hopcroft-Karp"])),
            "guess_prep": draw(st.lists(st.sampled_from(["ensure_right", "ensure_left", "apply_h", "add_random", "canon_stop", "scale",
                                                         "previous_result"]), min_size=0, max_size=3)),
            "prep_k": draw(st.integers(0, 6)), "per_bond": per_bond,
            "full": full}


def sector_mask(spec, q):
    bq = gen.basis_state_qn(spec)
    return np.all(bq == np.asarray(q).reshape(1, -1), axis=1)


def scaled_terms(spec, terms, target):
    H, sc = gen.dense_operator(spec, terms)
    nrm = np.linalg.norm(H, 2)
    if nrm <= 1e-12 * sc:
        return None, None
    f = target / nrm
    out = [{"f": [t["f"][0] * f, t["f"][1] * f], "ops": t["ops"]} for t in terms]
    return out, H * f


def build_ops(spec, terms):
    cplx = any(gen.is_complex_local(spec, t) for t in terms)
    return [gen.build_op(spec, t) * (complex(1, 0) if cplx else 1.0) for t in terms]


class C08(Prop):
    id = "C08"
    rule = ("Hypothesis draws a model (2-7 sites, with/without quantum numbers), a Hermitian Hamiltonian (neutral terms plus "
            "adjoints, scaled to a drawn norm), a sector, a random initial state, a sweep schedule (2-8 sweeps, limits 1..64 as "
            "int or CompressConfig, perturbation percentages), 1site/2site, direct/davidson, nroots 1..4, optional omega, optional "
            "StackedMpo split. Non-trivial = sector dimension >= 4 and (some limit below the physical bound: bound statement; or all "
            "limits sufficient: equality statement)")
    assumptions = ["reference: numpy eigvalsh of the dense Hamiltonian restricted to the sector",
                   "schedule has >= 2 sweeps (the returned state is captured from the second sweep on, DESIGN §3.6)",
                   "variational bound tolerance 1e-8*||H||; equality tolerance rel 1e-6 / abs 1e-8 (optimizer's own convergence rule)",
                   "primme is not installed: eigensolvers exercised are 'direct' and 'davidson'",
                   "nroots <= sector dimension / 2 (the local problems must have at least nroots solutions)"]

    def budget(self, tier):
        return dict(examples=2880, shards=16) if tier == "quick" else dict(examples=32000, shards=16)

    def strategy(self, tier):
        return cases(tier)

    def run_case(self, case):
        from renormalizer.model import Model
        from renormalizer.mps import Mps, Mpo, StackedMpo
        from renormalizer.mps.gs import optimize_mps
        from renormalizer.utils import CompressConfig, CompressCriteria

        r = Result()
        spec = case["model"]
        terms, H = scaled_terms(spec, case["terms"], case["hnorm"])
        if terms is None:
            r.rejected = "zero Hamiltonian"
            return r
        hn = case["hnorm"]
        secs = gen.sectors(spec)
        q = secs[case["q"] % len(secs)]
        mask = sector_mask(spec, q)
        dimq = int(mask.sum())
        Hs = H[np.ix_(mask, mask)]
        Hs = (Hs + Hs.conj().T) / 2
        evals = np.linalg.eigvalsh(Hs)
        nroots = case["nroots"]
        if nroots > dimq:
            nroots = max(1, dimq)
        omega = case["omega"]
        if nroots > 1:
            omega = None
        bl = gen.build_basis_list(spec)
        model = Model(list(bl), [])
        n = len(bl)
        np.random.seed(case["rng"])
        try:
            qarg = np.array(q) if len(q) > 1 else int(q[0])
            mps = Mps.random(model, qarg, case["m0"], percent=1.0)
            d0 = mps.todense()
            if not np.all(np.isfinite(d0)) or np.linalg.norm(d0) == 0:
                raise FloatingPointError
        except (FloatingPointError, ZeroDivisionError, ValueError, AssertionError, IndexError):
            r.rejected = "Mps.random cannot reach the sector with this bond limit"
            return r
        ops = build_ops(spec, terms)
        try:
            half = len(ops) // 2
            halves_ok = len(ops) >= 2 and all(
                np.linalg.norm(gen.dense_operator(spec, part)[0]) > 1e-12 * gen.dense_operator(spec, part)[1]
                for part in (terms[:half], terms[half:]))
            if case["stacked"] and halves_ok and omega is None:
                mpo = StackedMpo([Mpo(model, ops[:half], algo=case["mpo_algo"]), Mpo(model, ops[half:], algo=case["mpo_algo"])])
                h_for_expect = Mpo(model, ops)
                r.classes.append("stacked")
            else:
                mpo = Mpo(model, ops, algo=case["mpo_algo"])
                h_for_expect = mpo
        except Exception as e:  # noqa
            sig, in_lib = lib_exception_sig(e)
            if not in_lib:
                raise
            r.fail(f"mpo_build.{sig}", repr(e))
            return r
        # the initial guess may be any state of the sector: give it a history (gauge moves, operator image, sums, a previous result)
        for step in case.get("guess_prep", []):
            try:
                if step == "ensure_right":
                    mps.ensure_right_canonical()
                elif step == "ensure_left":
                    mps.ensure_left_canonical()
                elif step == "canon_stop":
                    mps.ensure_left_canonical()
                    mps.to_right = False
                    mps.canonicalise(stop_idx=case["prep_k"] % n)
                elif step == "scale":
                    mps = mps.scale(-2.5)
                elif step == "apply_h":
                    new = h_for_expect.apply(mps)
                    if np.linalg.norm(new.todense()) > 1e-6:
                        new.optimize_config = mps.optimize_config
                        mps = new
                elif step == "add_random":
                    np.random.seed(case["rng"] + 11)
                    other = Mps.random(model, qarg, max(case["m0"], 2), percent=1.0)
                    new = other.add(mps) if case["prep_k"] % 2 else mps.add(other)
                    # in a one-dimensional sector the two normalised states can cancel exactly: a zero MPS is not a guess
                    if np.linalg.norm(new.todense()) > 1e-6:
                        mps = new
                elif step == "previous_result":
                    tmp = mps.copy()
                    tmp.optimize_config.procedure = [[4, 0.2], [4, 0]]
                    tmp.optimize_config.method = "2site"
                    tmp.optimize_config.algo = "direct"
                    tmp.optimize_config.nroots = 1
                    h1 = h_for_expect
                    if h1.is_complex and not tmp.is_complex:
                        tmp = tmp.to_complex()
                    _, prev = optimize_mps(tmp, h1)
                    mps = prev
            except (FloatingPointError, ZeroDivisionError, IndexError):
                pass
        if case.get("guess_prep"):
            r.classes.append("guess_with_history")
            d0 = mps.todense()
            if not np.all(np.isfinite(d0)) or np.linalg.norm(d0) < 1e-8:
                r.rejected = "guess preparation produced a vanishing state"
                return r
        if case["mpo_algo"] == "qr":
            # the bound is a statement about the operator handed to the optimiser: with the QR construction that operator
            # differs from the term list by up to ~1e-7 relative (C01's subject, tolerance there 1e-7), which would show up
            # here as an apparent violation of the variational bound by the same amount
            try:
                Hlib = sum(np.asarray(m.todense()) for m in (mpo.mpos if isinstance(mpo, StackedMpo) else [mpo]))
                if Hlib.shape == H.shape and np.linalg.norm(Hlib - H) <= 1e-6 * max(np.linalg.norm(H), 1e-300):
                    H = Hlib
                    Hs = H[np.ix_(mask, mask)]
                    Hs = (Hs + Hs.conj().T) / 2
                    evals = np.linalg.eigvalsh(Hs)
            except Exception:  # noqa
                pass
        mpo_complex = any(m.is_complex for m in (mpo.mpos if isinstance(mpo, StackedMpo) else [mpo]))
        if mpo_complex:
            # precondition: a complex Hamiltonian needs a complex trial state (the optimizer writes the complex
            # eigenvectors into the state's tensors)
            mps = mps.to_complex()
            r.classes.append("complex_H")
        proc = []
        pd = np.array(gen.pdims(spec), dtype=float)
        bound = np.minimum(np.concatenate([[1], np.cumprod(pd)]), np.concatenate([[1], np.cumprod(pd[::-1])])[::-1])
        sufficient = True
        for M, pct, as_cfg in case["sched"]:
            if M < bound.max():
                sufficient = False
            if as_cfg and case.get("per_bond") and M >= bound.max():
                # a limit per bond (max_dims): exactly the physical bound of each bond - still sufficient everywhere
                cc = CompressConfig(CompressCriteria.fixed, max_bonddim=M)
                cc.max_dims = np.minimum(bound, M).astype(int)
                proc.append([cc, pct])
                r.classes.append("per_bond_limits")
            else:
                proc.append([CompressConfig(CompressCriteria.fixed, max_bonddim=M) if as_cfg else M, pct])
        mps.optimize_config.procedure = proc
        mps.optimize_config.method = case["method"]
        mps.optimize_config.algo = case["algo"]
        mps.optimize_config.nroots = nroots
        if case.get("dav"):
            r.classes.append("davidson_path_size")
        r.classes += [f"method.{case['method']}", f"algo.{case['algo']}", f"nroots={nroots}", f"qn={spec.get('qnmode')}",
                      "omega" if omega is not None else "no_omega", "sufficient" if sufficient else "truncating"]
        r.nontrivial = dimq >= 4
        np.random.seed(case["rng"] + 1)
        try:
            energies, res = optimize_mps(mps, mpo, omega=omega)
        except Exception as e:  # noqa
            sig, in_lib = lib_exception_sig(e)
            if not in_lib:
                raise
            if nroots > 1 and isinstance(e, ValueError) and "broadcast" in str(e) and sig.endswith("gs.py:optimize_mps"):
                # some local problem had fewer than nroots solutions (tiny bond limit / sector): the per-sweep energy lists have
                # different lengths and the convergence test cannot compare them - outside the domain of a k-root search
                r.rejected = "a local problem is smaller than nroots"
                return r
            if type(e).__name__ == "LinAlgError" and "Internal Error" in str(e) and sig.endswith("eigh_direct"):
                # scipy.linalg.eigh (LAPACK ?heevr of this scipy build) reports "Internal Error" for some finite Hermitian
                # matrices that numpy.linalg.eigh diagonalises without complaint (checked on the replay): a property of the
                # installed LAPACK driver, not of the optimiser - the case is inconclusive
                r.rejected = "LAPACK ?heevr 'Internal Error' inside scipy.linalg.eigh (environment)"
                return r
            r.fail(f"optimize.{sig}", f"{e!r} method={case['method']} algo={case['algo']} nroots={nroots} omega={omega} dimq={dimq}")
            return r
        # direct solver: rounding.  Davidson (vendored PySCF routine, lindep 1e-14): Ritz values are variational only up to the
        # loss of orthogonality it tolerates, ~sqrt(lindep) = 1e-7 relative (seen in C12: -1.0000000104 for an exact -1)
        stol = 1e-8
        tol = stol * max(hn, 1.0)
        if omega is None:
            exact = evals
        else:
            exact = np.sort((evals - omega) ** 2)
            tol = stol * max((abs(omega) + hn) ** 2, 1.0)
        # (i) every reported energy is an upper bound of the corresponding exact eigenvalue in the sector
        for isw, e in enumerate(energies):
            ev = np.sort(np.atleast_1d(np.asarray(e, dtype=float)))
            # a local problem smaller than nroots (tiny bond limits) yields fewer roots: compare those that exist
            if not r.check("energy.count", 1 <= len(ev) <= nroots, f"sweep {isw}: {len(ev)} energies for nroots={nroots}"):
                break
            viol = exact[: len(ev)] - ev
            r.resid("variational_violation", float(np.max(viol)), tol)
            if not r.check("variational_bound", np.all(viol <= tol),
                           f"sweep {isw}: reported {ev.tolist()} below exact {exact[:len(ev)].tolist()} (sector {q}, omega {omega})"):
                break
        # (ii) returned states
        states = res if isinstance(res, list) else [res]
        r.check("states.count", 1 <= len(states) <= nroots, f"{len(states)} states for nroots={nroots}")
        # without truncation and perturbation every local minimisation lowers the energy: sweep minima are non-increasing
        ev0 = [float(np.sort(np.atleast_1d(np.asarray(e, dtype=float)))[0]) for e in energies]
        for k in range(1, len(ev0)):
            Mk, pk, _ = case["sched"][k]
            Mp, pp, _ = case["sched"][k - 1]
            if pk == 0 and pp == 0 and Mk >= bound.max() and Mp >= bound.max() and nroots == 1:
                r.classes.append("monotone_pair")
                r.check("monotone", ev0[k] <= ev0[k - 1] + tol, f"sweep {k}: {ev0[k]} > previous {ev0[k - 1]} without truncation/perturbation")
        dens = []
        for k, s in enumerate(states):
            v = chain.tensors_dense(s)
            dens.append(v)
            r.check_close("state.norm", np.linalg.norm(v), 1.0, 1e-8, f"root {k} norm")
            leak = chain.sector_leak(spec, v, q)
            r.resid("state.sector_leak", leak, 1e-9)
            r.check("state.sector", leak <= 1e-9, f"root {k}: weight {leak:.2e} outside sector {q}")
            r.check("state.qntot", tuple(int(x) for x in np.atleast_1d(s.qntot)) == tuple(q), f"qntot {s.qntot} vs {q}")
            lv, where = chain.label_violation(s)
            r.check("state.labels", lv <= 1e-10, f"root {k}: labels invalid ({lv:.2e}) at {where}")
        # energy of each returned state is itself variational
        e_states = []
        for k, v in enumerate(dens):
            ek = float(np.real(v.conj() @ (H @ v)) / max(np.linalg.norm(v) ** 2, 1e-300))
            e_states.append(ek)
            r.check("state.energy_variational", ek >= evals[0] - 1e-8 * max(hn, 1.0), f"root {k}: <H>={ek} below exact ground {evals[0]}")
        # the returned state is the state of the sweeps: without truncation and perturbation every local solve replaces the site
        # tensor(s) by the local eigenvector, so <H> of the state equals the latest local eigenvalue and the sequence of local
        # eigenvalues is non-increasing; the energy of the returned state therefore lies between the minima of the last two sweeps
        ns = len(ev0)
        if nroots == 1 and omega is None and ns >= 2 and ns <= len(case["sched"]) and \
                all(case["sched"][k][1] == 0 and case["sched"][k][0] >= bound.max() for k in (ns - 1, ns - 2)):
            r.classes.append("state_energy_window")
            wtol = 1e-7 * max(hn, 1.0)
            r.resid("state_energy_above_window", e_states[0] - ev0[-2], wtol)
            r.check("state.energy_window", ev0[-1] - wtol <= e_states[0] <= ev0[-2] + wtol,
                    f"<H> of the returned state {e_states[0]!r} outside [{ev0[-1]!r}, {ev0[-2]!r}] (minima of the last two sweeps, "
                    f"no truncation / perturbation) method={case['method']} algo={case['algo']}")
        if nroots == 1 and omega is None and not isinstance(res, list):
            try:
                ex = res.expectation(h_for_expect)
                r.check_close("state.expectation", ex, e_states[0], 1e-9 * max(hn, 1.0), "Mps.expectation(H) of the returned state vs dense")
            except Exception as e:  # noqa
                sig, in_lib = lib_exception_sig(e)
                if not in_lib:
                    raise
                r.fail(f"expectation.{sig}", repr(e))
        # (iii) equality at sufficient bond dimension (2-site; schedule ends with two unperturbed sweeps)
        # Asserted where DMRG provably reaches the optimum: two sites with the two-site update (the local problem is the full
        # sector problem).  For longer chains sector-restricted DMRG can be trapped when the Hamiltonian has no term connecting
        # the bond-label patterns of the start state (a limitation of the method, not of the code): reported as a statistic.
        if case["full"] and sufficient and case["method"] == "2site" and n > 2 and nroots == 1 and omega is None:
            conv = abs(min(ev0) - evals[0]) <= 1e-6 * max(abs(evals[0]), hn) + 1e-8
            r.classes.append("equality_stat.converged" if conv else "equality_stat.trapped")
        if case["full"] and sufficient and case["method"] == "2site" and n == 2:
            r.classes.append("equality_case")
            best = np.sort(np.atleast_1d(np.asarray(min(energies, key=lambda e: np.sort(np.atleast_1d(e))[0]), dtype=float)))
            etol = 1e-6 * max(np.max(np.abs(exact[:nroots])), hn) + 1e-8
            r.resid("equality.energy_gap", float(np.max(np.abs(best - exact[:len(best)]))), etol)
            r.check("equality.energy", np.all(np.abs(best - exact[:len(best)]) <= etol),
                    f"full bond dimension: lowest reported {best.tolist()} vs exact {exact[:nroots].tolist()} (omega {omega})")
            if omega is None:
                es = np.sort(np.asarray(e_states))
                r.check("equality.state_energy", len(es) <= len(evals) and np.all(np.abs(es - evals[: len(es)]) <= etol),
                        f"returned state energies {es.tolist()} vs exact {evals[:len(es)].tolist()}")
        return r

    def sample_view(self, case):
        return {"sites": [s["k"] for s in case["model"]["sites"]], "qnmode": case["model"].get("qnmode"), "n_terms": len(case["terms"]),
                "sched": case["sched"], "method": case["method"], "algo": case["algo"], "nroots": case["nroots"],
                "omega": case["omega"], "stacked": case["stacked"]}


PROP = C08()

"""C11 — tree tensor network states behave as dense vectors for every topology (model-based, histories).
The truncation part (signatures "trunc.*") doubles as the tree half of C05."""
import numpy as np
from hypothesis import strategies as st

from vf.core import Prop, Result
from vf import gen
from vf import tree as T


@st.composite
def cases(draw, tier):
    big = tier == "thorough"
    aux = draw(st.integers(0, 5)) == 0
    if aux:
        ts = draw(T.tree_specs(1 if draw(st.integers(0, 5)) == 0 else 2, 4, kinds=T.AUX_KINDS, max_dim=16, max_nodes=5, small_sho=True))
    else:
        ts = draw(T.tree_specs(1 if draw(st.integers(0, 7)) == 0 else 2, 6, kinds=T.STATE_KINDS, max_dim=128 if not big else 256,
                               small_sho=True))
    m = ts["model"]
    prog = []
    qsel = draw(st.integers(0, 50))
    for _ in range(draw(st.integers(2, 3))):
        ins = draw(T.create_instr())
        if ins["op"] == "random" and draw(st.integers(0, 3)) > 0:
            ins["q"] = qsel
        prog.append(ins)
    for _ in range(draw(st.integers(1, 2))):
        prog.append(draw(T.ttno_instr(m)))
    if aux:
        prog.append({"op": "apply", "o": draw(st.integers(0, 20)), "a": draw(st.integers(0, 20)), "meth": draw(st.integers(0, 2))})
        prog.append({"op": "expect", "o": draw(st.integers(0, 20)), "a": draw(st.integers(0, 20)), "as_ops": False})
    nsteps = draw(st.integers(4, 9 if not big else 16))
    for _ in range(nsteps):
        k = draw(st.integers(0, 11))
        if k <= 3:
            prog.append(draw(T.arith_instr()))
        elif k <= 5:
            prog.append(draw(T.gauge_instr()))
        elif k <= 8:
            prog.append(draw(T.observe_instr()))
        elif k == 9:
            if draw(st.booleans()):
                prog.append({"op": "add", "a": draw(st.integers(0, 20)), "b": draw(st.integers(0, 20)), "meth": 0})
            prog.append(draw(T.trunc_instr()))
        elif k == 10 and draw(st.integers(0, 2)) == 1:
            # reduced density matrices before and after an in-place rescaling of the same object (no stale intermediate may survive)
            a = draw(st.integers(0, 20))
            o1, o2 = draw(T.observe_instr()), draw(T.observe_instr())
            o1["a"] = a
            o2["a"] = a
            prog.append(o1)
            prog.append({"op": "scale", "a": a, "val": draw(st.sampled_from([[2.0, 0.0], [-0.5, 0.0], [7.0, -3.0]])), "inplace": True})
            prog.append(o2)
            prog.append({"op": "rdm1site", "a": a, "mode": 0, "i": draw(st.integers(0, 12)), "idx": [0]})
        elif k == 10 and draw(st.integers(0, 2)) == 0:
            # mixed dtypes inside one state, then arithmetic on it
            a = draw(st.integers(0, 20))
            prog.append({"op": "hand_complex", "a": a, "node": draw(st.integers(0, 8))})
            prog.append({"op": "add", "a": a, "b": draw(st.integers(0, 20)), "meth": draw(st.integers(0, 1))})
            prog.append({"op": "add", "a": draw(st.integers(0, 20)), "b": a, "meth": draw(st.integers(0, 1))})
        elif k == 10:
            prog.append(draw(T.twin_instr()))
        else:
            prog.append(draw(T.from_mps_instr(m)) if not aux else draw(T.observe_instr()))
    if draw(st.booleans()):
        prog.append(draw(T.trunc_instr()))
    return {"tree": ts, "aux": aux, "prog": prog}


def check_meta(it, reg, sig):
    """labels valid, sector of the dense vector, qntot"""
    if reg.kind != "S":
        return
    r = it.r
    x = reg.obj
    tr = it.trace[-6:]
    try:
        x.check_shape()
    except AssertionError:
        r.fail(f"{sig}.meta.check_shape", f"check_shape() fails trace={tr}")
        return
    r.check(f"{sig}.meta.qntot", tuple(int(v) for v in np.atleast_1d(x.qntot)) == reg.q, f"qntot {x.qntot} expected sector {reg.q} trace={tr}")
    v, where = T.label_violation(reg.ctx, x)
    r.resid("meta.label_violation", v, 1e-10)
    r.check(f"{sig}.meta.labels", v <= 1e-10, f"entry {v:.2e} (relative) in a block forbidden by the stored labels at {where} trace={tr}")
    leak = T.sector_leak(reg.ctx, reg.model, reg.q)
    r.check(f"{sig}.meta.sector", leak <= 1e-9, f"dense weight {leak:.2e} outside sector {reg.q} trace={tr}")


def check_canonical_form(it, reg, before, sig, both_sides):
    """after canonicalise: every non-root node an isometry towards its parent (recomputed from the raw tensors), no bond grew,
    no bond above the physical dimension of its subtree; after canonicalise + lossless compress also not above the rest's"""
    r = it.r
    ctx = reg.ctx
    x = reg.obj
    tr = it.trace[-6:]
    nl = list(x.node_list)
    worst = max([T.iso_defect(nd.tensor) for nd in nl[1:]] + [0.0])
    r.resid("iso_defect", worst, 1e-8)
    r.check(f"{sig}.isometry", worst <= 1e-8, f"non-root node deviates from an isometry by {worst:.2e} trace={tr}")
    lib = x.is_canonical()
    r.check(f"{sig}.is_canonical_agrees", (bool(lib) or worst > 1e-12) and (not lib or worst < 1e-3),
            f"is_canonical()={lib}, harness isometry defect {worst:.2e}")
    bd = list(x.bond_dims)
    r.check(f"{sig}.root_bond", bd[0] == 1, f"bond dims {bd}")
    if before is not None:
        r.check(f"{sig}.no_growth", all(b <= a for a, b in zip(before["bond_dims"], bd)), f"bond dims {before['bond_dims']} -> {bd} trace={tr}")
    for i in range(1, ctx.N):
        sub = ctx.sub_dim(i)
        lim = min(sub, ctx.D // sub) if both_sides else sub
        r.check(f"{sig}.bond_vs_physical", bd[i] <= lim, f"bond of node {i} is {bd[i]} > {lim} (subtree {sub}, rest {ctx.D // sub}) trace={tr}")


class Hooks:
    def after_create(self, it, reg):
        check_meta(it, reg, f"create.{reg.tag}")
        if reg.kind == "S" and reg.tag == "random":
            check_canonical_form(it, reg, None, "create.random", False)

    def after_gauge(self, it, reg, before, ins, name):
        check_meta(it, reg, f"gauge.{name}" if name != "trunc" else "trunc")
        if name == "canonicalise":
            check_canonical_form(it, reg, before, "gauge.canonicalise", False)
        elif name == "compress_lossless":
            check_canonical_form(it, reg, before, "gauge.compress_lossless", True)
        elif name == "trunc":
            check_canonical_form(it, reg, None, "trunc.canonical", True)

    def after_arith(self, it, reg, ins, sig):
        check_meta(it, reg, sig)
        if sig.endswith("inplace"):
            return
        x = reg.obj
        ok, c = it.guard(f"{sig}.then_copy", x.copy)
        if not ok:
            return
        tmp = T.Reg(c, reg.model, reg.q, "S", reg.tag, reg.ctx)
        steps = [("then_canonicalise", lambda y: y.canonicalise())]
        if not reg.ctx.single_node:
            steps.append(("then_compress", lambda y: y.compress(temp_m_trunc=T.BIG)))
        for name, fn in steps:
            ok, _ = it.guard(f"{sig}.{name}", fn, c)
            if not ok:
                return
            if not it.compare(f"{sig}.{name}", tmp, name):
                return
            check_meta(it, tmp, f"{sig}.{name}")
        it.compare(f"{sig}.copy_independent", reg, "result after its copy was canonicalised")

    def after_observe(self, it, name, got, ref):
        pass


def _is_single(spec):
    try:
        topo = spec["tree"]["topo"]
        n = len(spec["tree"]["model"]["sites"])
        if topo.get("ctor") in ("linear", "binary"):
            return n == 1
        if "groups" in topo:
            return len(topo["groups"]) + len(topo.get("dummy", [])) == 1
    except Exception:
        pass
    return False


def _may_have_dummy(spec):
    topo = spec["tree"]["topo"]
    return topo.get("ctor") in ("general_mctdh", "t3ns") or bool(topo.get("dummy"))


class C11(Prop):
    id = "C11"
    rule = ("Hypothesis draws a tree spec (1-6 basis sets; constructors linear / binary / general_mctdh / t3ns or a random tree with "
            "multi-basis nodes, dummy nodes as root / internal / leaf, arity 1-4, single-node trees; 1 in 6 cases on the tree with "
            "auxiliary space) and a program: 2-3 states (TTNS.random with bond limit 1-6 int or per node, product TTNS(basis, condition) "
            "with basis or superposition local states), 1-2 real TTNOs (charge-definite for qn models; on the physical half when the "
            "tree has auxiliary space), then 4-16 instructions from add / scale / copy / to_complex / apply (3 call forms) / contract, "
            "canonicalise / push_cano_to_child+parent paths / lossless compress (4 call forms, ret_s), truncating compress, norm, "
            "expectation, 1/2-site and 1/2-dof RDMs, entropies, mutual information, bond entropies, twin tree with permuted children "
            "lists, from_mps. A dense model runs in lock step. Non-trivial = tree with >= 2 nodes and (a node with >= 2 children or a "
            "multi-basis node or a dummy node)")
    assumptions = ["dense model: flat numpy vector in basis-list order; todense(order=...) is always given the order explicitly (F13) and is "
                   "cross-checked at creation against a harness contraction of the raw node tensors",
                   "TTNS.add is used with prefactor-1 operands only (DESIGN §3.9); sums whose dense model vanishes are not formed",
                   "TTNS.random may fail for a tiny m_max / unreachable sector (DESIGN §3.2): counted in the class random.rejected",
                   "compress / bond entropies are not called on single-node trees (the library refuses them by assertion)",
                   "compress is preceded by canonicalise() as in every caller",
                   "auxiliary space only for single-dof basis sets (add_auxiliary_space builds ill-formed dofs for multi-dof sets)",
                   "operators are real (DESIGN §3.7) and charge-definite for models with quantum numbers (§3.8)",
                   "RDMs: ket indices followed by bra indices as documented in calc_1site_rdm / calc_2site_rdm",
                   "identities exact in exact arithmetic: 1e-9 relative to the natural scale (norm, norm^2, |O| norm^2), entropies 1e-8 "
                   "absolute; truncation: limit obeyed, norm not increased, Eckart-Young lower bound at every edge, upper bound "
                   "sqrt(sum eps_c^2 + 2 sum_{unrelated edges} eps_c eps_c') with eps_c the discarded tail of the ORIGINAL spectrum "
                   "(nested edges give orthogonal error vectors, unrelated edges are bounded by Cauchy-Schwarz)"]

    known_matchers = {
        "F9": lambda spec, sig, msg: sig == "arith.add.single_node_returns_second" and _is_single(spec),
        "F13": lambda spec, sig, msg: sig == "todense.default_order.dummy_tree.KeyError" and _may_have_dummy(spec),
        "F41": lambda spec, sig, msg: sig == "ttno.ambiguous_symbol_join" and
        sum(s["k"] == "sho" for s in spec["tree"]["model"]["sites"]) >= 2,
        "F40": lambda spec, sig, msg: sig == "expectation.multi_component_qn.ValueError" and gen.qn_size(spec["tree"]["model"]) >= 2,
    }

    def budget(self, tier):
        return dict(examples=960, shards=16) if tier == "quick" else dict(examples=16000, shards=16)

    def strategy(self, tier):
        return cases(tier)

    def run_case(self, case):
        r = Result()
        it = T.TInterp(case["tree"], r, Hooks(), aux=case.get("aux", False), probe_default_todense=True)
        it.run(case["prog"])
        cl = set(r.classes) | set(it.ctx.shape_classes())
        cl.add("ctor=" + case["tree"]["topo"].get("ctor", "random"))
        cl.add(f"qn={case['tree']['model'].get('qnmode')}")
        cl.add(f"sites={it.ctx.n}")
        if case.get("aux"):
            cl.add("aux_space")
        r.classes = sorted(cl)
        r.nontrivial = it.ctx.nontrivial() and len(it.S) > 0
        return r

    def sample_view(self, case):
        return {"sites": [s["k"] for s in case["tree"]["model"]["sites"]], "qnmode": case["tree"]["model"].get("qnmode"),
                "topo": case["tree"]["topo"], "aux": case.get("aux"),
                "prog": [{k: v for k, v in i.items() if k != "terms"} for i in case["prog"]]}


PROP = C11()

"""C09 — real-time evolution converges to the exact propagator, for every scheme."""
import numpy as np
from hypothesis import strategies as st

from vf.core import Prop, Result, lib_exception_sig
from vf import gen, chain, evo
from vf.props.c08 import scaled_terms, build_ops, sector_mask

BIG = 10 ** 4


@st.composite
def cases(draw, tier):
    big = tier == "thorough"
    mode = draw(st.sampled_from(["exact", "exact", "exact", "switch", "poly", "poly", "cmf", "conserve", "limit", "limit", "adaptive", "td", "td_vmf", "td_adaptive", "solver"]))
    spec = draw(chain.chain_model_specs(2, 5 if big else 4, max_dim=64 if not big else 128))
    terms = draw(gen.hermitian_hamiltonian(spec, max_terms=4))
    c = {"mode": mode, "model": spec, "terms": terms, "q": draw(st.integers(0, 50)), "rng": draw(st.integers(0, 10 ** 6)),
         "cplx": draw(st.booleans()), "gauge": draw(st.integers(0, 2)), "coeff": draw(st.sampled_from([[1.0, 0.0], [0.6, 0.8], [2.0, 0.0]])),
         "hdt": draw(st.sampled_from([0.03, 0.05, 0.1, 0.2, 0.3, 0.5, 1.0, 2.0, 3.0])), "normalize": draw(st.booleans()),
         "nsplit": draw(st.integers(1, 3)), "split_w": draw(st.lists(st.sampled_from([1, 2, 3]), min_size=3, max_size=3)),
         "dm": draw(st.integers(0, 4)) == 0}
    if mode == "exact":
        c["scheme"] = draw(evo.scheme_specs(("ps", "ps2", "vmf", "vmf")))
    elif mode == "switch":
        # a sequence of calls that switches scheme and step between calls
        menu = [{"fam": "ps", "kind": "tdvp_ps", "solver": "krylov"}, {"fam": "ps2", "kind": "tdvp_ps2", "solver": "krylov"},
                {"fam": "pc", "kind": "pc_taylor", "order": 4}, {"fam": "pc", "kind": "pc_taylor", "order": 6},
                {"fam": "pc", "kind": "pc_tdrk4"}, {"fam": "pc", "kind": "pc_tdrk", "rk": "C_RK4"},
                {"fam": "pc", "kind": "pc_tdrk", "rk": "Kutta_RK3"}, {"fam": "ps", "kind": "tdvp_ps", "solver": "RK45"}]
        c["schemes"] = draw(st.lists(st.sampled_from(menu), min_size=2, max_size=4))
        if draw(st.booleans()):
            c["schemes"] = [{"fam": "vmf", "kind": draw(st.sampled_from(["tdvp_vmf", "tdvp_mu_vmf"])), "force_ovlp": True, "auto_switch": False}] + c["schemes"][:3]
        c["scheme"] = c["schemes"][0]
        c["steps"] = draw(st.lists(st.sampled_from([0.02, 0.05, 0.1, 0.2]), min_size=4, max_size=4))
    elif mode == "poly":
        c["scheme"] = draw(evo.scheme_specs(("pc",)))
    elif mode == "cmf":
        c["scheme"] = draw(evo.scheme_specs(("cmf",)))
        c["hdt"] = draw(st.sampled_from([0.03, 0.05, 0.1, 0.2, 0.3]))
    elif mode == "conserve":
        c["scheme"] = {"fam": "ps", "kind": "tdvp_ps", "solver": draw(st.sampled_from(["krylov", "RK45", "RK23"]))}
        c["m0"] = draw(st.sampled_from([1, 2, 3, 4]))
        c["nstep"] = draw(st.integers(2, 6))
    elif mode == "limit":
        c["scheme"] = draw(evo.scheme_specs(("pc", "ps", "ps2", "ps2", "ps2", "vmf", "cmf")))
        c["M"] = draw(st.integers(1, 4))
        c["crit"] = draw(st.sampled_from(["fixed", "both"]))
        c["nstep"] = draw(st.integers(1, 3))
    elif mode == "adaptive":
        c["scheme"] = draw(st.sampled_from([{"fam": "pc", "kind": "pc_taylor", "order": 5}, {"fam": "pc", "kind": "pc_tdrk", "rk": "RKF45"},
                                            {"fam": "pc", "kind": "pc_tdrk", "rk": "Cash-Karp45"},
                                            {"fam": "ps", "kind": "tdvp_ps", "solver": "krylov"},
                                            {"fam": "ps2", "kind": "tdvp_ps2", "solver": "krylov"},
                                            {"fam": "cmf", "kind": "tdvp_mu_cmf", "variant": "midpoint", "solver": "krylov", "force_ovlp": True},
                                            {"fam": "cmf", "kind": "tdvp_mu_cmf", "variant": "trapz", "solver": "krylov", "force_ovlp": False}]))
        c["rescale"] = draw(st.sampled_from([[300.0, 0.3], [1e-3, 0.0], [40.0, -2.0]]))
        c["rtol"] = draw(st.sampled_from([1e-6, 1e-5, 1e-4]))
        c["guess"] = draw(st.sampled_from([0.05, 0.3, 1.0, 10.0]))
    elif mode == "td":
        c["scheme"] = draw(st.sampled_from([{"fam": "pc", "kind": "pc_tdrk4"}] + [{"fam": "pc", "kind": "pc_tdrk", "rk": m}
                                                                                  for m in evo.RK_METHODS if m not in evo.EMBEDDED]))
        c["terms_v"] = draw(gen.hermitian_hamiltonian(spec, max_terms=2))
        c["td_freq"] = draw(st.sampled_from([0.5, 1.0, 3.0]))
    elif mode == "td_vmf":
        c["scheme"] = {"fam": "vmf", "kind": draw(st.sampled_from(["tdvp_vmf", "tdvp_mu_vmf"])), "force_ovlp": draw(st.booleans()), "auto_switch": False}
        c["terms_v"] = draw(gen.hermitian_hamiltonian(spec, max_terms=2))
        c["td_freq"] = draw(st.sampled_from([1.0, 3.0, 6.0]))
        c["hdt"] = draw(st.sampled_from([0.05, 0.1, 0.3, 0.5]))
    elif mode == "td_adaptive":
        c["scheme"] = {"fam": "pc", "kind": "pc_tdrk", "rk": draw(st.sampled_from(["RKF45", "Cash-Karp45"]))}
        c["terms_v"] = draw(gen.hermitian_hamiltonian(spec, max_terms=2))
        c["td_freq"] = draw(st.sampled_from([1.0, 3.0, 6.0]))
        c["rtol"] = draw(st.sampled_from([1e-6, 1e-5]))
        c["guess"] = draw(st.sampled_from([0.02, 0.05, 0.2]))
        c["hdt"] = draw(st.sampled_from([0.3, 0.5, 1.0, 2.0]))
    elif mode == "solver":
        c["scheme"] = draw(evo.scheme_specs(("ps", "ps2", "cmf")))
    c["scramble"] = draw(st.booleans())
    return c


def prepare_state(case, r, full=True, m0=None):
    """random (seeded) initial state of the drawn sector; full bond dimension or limited to m0; drawn gauge / dtype / prefactor"""
    from renormalizer.model import Model
    from renormalizer.mps import Mps

    spec = case["model"]
    secs = gen.sectors(spec)
    # prefer a sector of dimension > 1
    order = sorted(range(len(secs)), key=lambda k: (case["q"] + k) % len(secs))
    q = None
    for k in order:
        if int(sector_mask(spec, secs[k]).sum()) >= 2:
            q = secs[k]
            break
    if q is None:
        q = secs[case["q"] % len(secs)]
    bl = gen.build_basis_list(spec)
    model = Model(list(bl), [])
    np.random.seed(case["rng"])
    try:
        qarg = np.array(q) if len(q) > 1 else int(q[0])
        mps = Mps.random(model, qarg, 64 if full else m0, percent=1.0)
        d = mps.todense()
        if not np.all(np.isfinite(d)) or np.linalg.norm(d) == 0:
            raise FloatingPointError
    except (FloatingPointError, ZeroDivisionError, ValueError, AssertionError, IndexError):
        r.rejected = "Mps.random cannot reach the sector"
        return None, None, None, None
    if case["cplx"]:
        np.random.seed(case["rng"] + 7)
        try:
            other = Mps.random(model, qarg, 64 if full else m0, percent=1.0)
            mps = mps.add(other.scale(1j))
            mps.scale(1.0 / mps.mp_norm, inplace=True)
        except (FloatingPointError, ZeroDivisionError, ValueError, AssertionError, IndexError):
            pass
    # non-redundant bond dimensions (precondition 5: canonicalise twice)
    mps.ensure_left_canonical()
    mps.ensure_right_canonical()
    if not full:
        # bond dimensions within the limit and of full rank
        mps.compress(temp_m_trunc=m0)
        mps.ensure_right_canonical()
        mps.scale(1.0 / mps.mp_norm, inplace=True)
    if full:
        # "sufficient bond dimension" is established, not assumed: every bond must reach the Schmidt rank of a generic vector
        # of the sector (Mps.random drops reachable blocks when quantum numbers of both signs occur)
        rng = np.random.default_rng(case["rng"])
        mask = sector_mask(spec, q)
        g = np.zeros(mask.shape[0])
        g[mask] = rng.standard_normal(int(mask.sum()))
        ranks = evo.schmidt_ranks(g, gen.pdims(spec), rel=1e-10)
        if any(b < rk for b, rk in zip(mps.bond_dims[1:-1], ranks)):
            r.rejected = "start state does not have the full bond dimension of its sector"
            return None, None, None, None
    if case["gauge"] == 1:
        mps.ensure_left_canonical()
    elif case["gauge"] == 2:
        mps.ensure_left_canonical()
        mps.ensure_right_canonical()
    mps.coeff = complex(*case["coeff"]) if case["coeff"][1] != 0 else case["coeff"][0]
    return mps, model, q, bl


def ps_is_exact(mps, kind="tdvp_ps"):
    """projector splitting has no splitting error only on two sites whose bond carries a COMPLETE basis of the smaller side
    (bond dimension = min of the two physical dimensions); holding the state (bond = Schmidt rank) is not enough when symmetry
    blocks make the generic rank smaller than that (e.g. two 3-level sites with labels (1,1,0): rank 2, complete basis 3)"""
    if len(mps) != 2:
        return False
    if kind == "tdvp_ps2":
        return True  # the two-site tensor of a two-site chain is the whole state
    d0 = int(np.prod(mps[0].shape[1:-1]))
    d1 = int(np.prod(mps[1].shape[1:-1]))
    return mps.bond_dims[1] >= min(d0, d1)


class C09(Prop):
    id = "C09"
    rule = ("Hypothesis draws a model (2-5 sites), a Hermitian Hamiltonian scaled to ||H||=1, a random initial state (real/complex, any "
            "gauge, prefactor, optionally MpDm), a step ||H||dt in [0.03,3] and one of the modes: exact (PS / PS2 / VMF / MU-VMF with all "
            "options, call splitting) vs dense expm; poly (Taylor order 1-6, RK4, general RK with every tableau) vs the exact algebraic "
            "replica; cmf (first/midpoint/trapezoid x solver x force_ovlp) vs expm with the scheme's error bound; solver (krylov vs RK45 "
            "vs RK23); adaptive vs exact; td (time-dependent H callable) vs a dense RK replica; conserve (one-site PS at small bond: "
            "norm and energy); limit (bond limit). Non-trivial = ||H||dt >= 0.05 and the exact state moves by > 1e-3")
    assumptions = ["reference: eigendecomposition-based exp(-iHt) of the dense Hamiltonian built by the harness",
                   "'sufficient bond dimension' is established by construction (initial state of full bond dimension for the one-site "
                   "schemes, lossless limits for the adaptive-bond schemes) and verified from the Schmidt ranks of the reference",
                   "tolerances: Krylov/IVP (ivp_rtol=1e-9) schemes 2e-5*max(1,||H||t); polynomial replicas 1e-8; CMF "
                   "2(||H||dt)^(p+1)+5e-3 (inner sites are integrated with scipy's default rtol=1e-3 by the library); adaptive 100*rtol*...",
                   "VMF/CMF start from non-redundant bonds (canonicalised twice)"]

    def budget(self, tier):
        return dict(examples=2400, shards=16) if tier == "quick" else dict(examples=32000, shards=16)

    def strategy(self, tier):
        return cases(tier)

    # ---------------------------------------------------------------------------------------------
    def run_case(self, case):
        from renormalizer.mps import Mpo, MpDm
        from renormalizer.utils import CompressConfig, CompressCriteria

        r = Result()
        spec = case["model"]
        mode = case["mode"]
        terms, H = scaled_terms(spec, case["terms"], 1.0)
        if terms is None:
            r.rejected = "zero Hamiltonian"
            return r
        full = mode not in ("conserve", "limit")
        mps, model, q, bl = prepare_state(case, r, full=full, m0=case.get("m0", case.get("M", 2)))
        if mps is None:
            return r
        dims = gen.pdims(spec)
        s = case["scheme"]
        try:
            mpo = Mpo(model, build_ops(spec, terms))
        except Exception as e:  # noqa
            sig, in_lib = lib_exception_sig(e)
            if not in_lib:
                raise
            r.fail(f"mpo_build.{sig}", repr(e))
            return r
        # density-operator form: only with the schemes that enlarge the bonds themselves (MpDm.from_mps has the small bonds of
        # the pure state, which cannot hold exp(-iHt) rho: the fixed-bond / projector schemes would not be "sufficient")
        use_dm = case["dm"] and int(np.prod(dims)) <= 16 and mode == "poly"
        if use_dm:
            mps = MpDm.from_mps(mps)
            r.classes.append("mpdm")
        psi0 = chain.dense_of(mps)
        t = case["hdt"]  # ||H|| = 1
        r.classes += [f"mode.{mode}", f"scheme.{s['kind']}" + (f".{s.get('solver')}" if s.get("solver") else "") +
                      (f".{s.get('rk')}" if s.get("rk") else "") + (f".{s.get('variant')}" if s.get("variant") else ""),
                      f"hdt={t}"]
        lossless = CompressConfig(CompressCriteria.fixed, max_bonddim=BIG)

        def apply_ref(z, v):
            if use_dm:
                return evo.expm_apply(H, v, z)  # H acts on the ket index of the density operator: exp(zH) rho
            return evo.expm_apply(H, v, z)

        CFG_FIELDS = ("method", "adaptive", "adaptive_rtol", "tdvp_cmf_midpoint", "tdvp_cmf_c_trapz", "reg_epsilon", "ivp_rtol",
                      "ivp_atol", "ivp_solver", "force_ovlp", "vmf_auto_switch")

        def cfg_view(c):
            return {k: getattr(c, k, None) for k in CFG_FIELDS}

        def evolve(x, dt, cfg, cc=None, normalize=None):
            x.evolve_config = cfg
            x.compress_config = cc if cc is not None else lossless.copy()
            want = cfg_view(cfg)
            y = x.evolve(mpo, dt, normalize=case["normalize"] if normalize is None else normalize)
            # "the result does not depend on how t is split into successive calls": the next call is made on the returned state, so
            # it must carry the scheme it was produced with (everything except the adaptive controller's step guess), and the
            # caller's configuration object must not have been re-configured either
            got_new, got_in = cfg_view(y.evolve_config), cfg_view(x.evolve_config)
            if want["vmf_auto_switch"] and {str(want["method"]), str(got_new["method"])} <= {"EvolveMethod.tdvp_vmf", "EvolveMethod.tdvp_mu_vmf"}:
                got_new["method"] = want["method"]  # documented: the two VMF variants switch automatically on the returned state
            r.check("config.returned_state", got_new == want,
                    f"evolve_config of the returned state differs from the one evolved with: "
                    f"{ {k: (want[k], got_new[k]) for k in CFG_FIELDS if want[k] != got_new[k]} }")
            r.check("config.input_state", got_in == want,
                    f"evolve_config of the input state was changed by evolve: "
                    f"{ {k: (want[k], got_in[k]) for k in CFG_FIELDS if want[k] != got_in[k]} }")
            return y

        moved = np.linalg.norm(apply_ref(-1j * t, psi0) - psi0) / max(np.linalg.norm(psi0), 1e-300)
        if np.linalg.norm(H @ psi0 if not use_dm else H @ psi0) <= 1e-6 * np.linalg.norm(psi0):
            # H annihilates the state: P&C would have to represent an exactly vanishing vector (DESIGN §3.4)
            r.rejected = "H psi0 = 0"
            return r
        r.nontrivial = t >= 0.05 and moved > 1e-3
        before = chain.dense_of(mps)
        try:
            getattr(self, "mode_" + mode)(case, r, mps, mpo, H, psi0, t, evolve, apply_ref, model, q, spec, use_dm)
        except Exception as e:  # noqa
            sig, in_lib = lib_exception_sig(e)
            if not in_lib:
                raise
            import traceback
            r.fail(f"{mode}.{s['kind']}.{sig}", "".join(traceback.format_exception(type(e), e, e.__traceback__))[-1200:])
            return r
        # (8) the input object still represents the same state
        r.check_close("input_unchanged", chain.dense_of(mps), before, 1e-10 * max(np.linalg.norm(before), 1e-300) + 1e-14,
                      f"input state after evolve ({s['kind']})")
        return r

    @staticmethod
    def expected(ref, case, coeff0):
        """what the library returns for the exact state `ref` (tensors*coeff) under real-time normalisation 'mps_only'"""
        if not case["normalize"]:
            return ref
        # tensors are normalised, the prefactor is kept
        return ref / max(np.linalg.norm(ref), 1e-300) * abs(coeff0)

    # ---- exact schemes at full bond dimension ---------------------------------------------------------
    @staticmethod
    def scramble_gauge(mps, rng):
        """same state, same bond dimensions and labels, but non-orthonormal (complex) site tensors: insert G G^-1 on every bond,
        G block-diagonal in the quantum-number labels.  Used for VMF with force_ovlp=True, the documented way to start from a
        state that is not canonical (to_right=False)."""
        x = mps.to_complex()
        x.ensure_left_canonical()  # qn centre at the last site, to_right False
        n = len(x)
        for b in range(1, n):
            lab = np.asarray(x.qn[b])
            d = lab.shape[0]
            same = np.all(lab[:, None, :] == lab[None, :, :], axis=-1)
            G = np.eye(d, dtype=complex) + 0.3 * same * (rng.standard_normal((d, d)) + 1j * rng.standard_normal((d, d)))
            Gi = np.linalg.inv(G)
            x[b - 1] = np.tensordot(np.asarray(x[b - 1].array), G, axes=1)
            x[b] = np.tensordot(Gi, np.asarray(x[b].array), axes=1)
        return x

    def mode_exact(self, case, r, mps, mpo, H, psi0, t, evolve, apply_ref, model, q, spec, use_dm):
        s = case["scheme"]
        if s["kind"] in ("tdvp_vmf", "tdvp_mu_vmf") and s.get("force_ovlp") and (case.get("scramble") or case["rng"] % 3) and len(mps) > 1:
            mps0 = mps
            mps = self.scramble_gauge(mps, np.random.default_rng(case["rng"]))
            r.check_close("scramble.same_state", chain.dense_of(mps), psi0, 1e-9 * np.linalg.norm(psi0), "harness gauge scrambling changed the state")
            r.classes.append("vmf.non_canonical_complex_start")
        loose = False
        if s["kind"] in ("tdvp_vmf", "tdvp_mu_vmf") and not s.get("force_ovlp") and case["rng"] % 3 == 0 and len(mps) > 1 and not use_dm:
            # matrices that are NOT canonical although the bookkeeping (centre, direction) says so: an invertible gauge matrix and
            # its inverse inserted on every bond (same state, same bond dimensions, no redundancy).  Without overlap forcing the
            # scheme has to notice and canonicalise.
            mps = self.scramble_gauge(mps, np.random.default_rng(case["rng"]))
            r.check_close("scramble.same_state", chain.dense_of(mps), psi0, 1e-9 * np.linalg.norm(psi0), "harness gauge scrambling changed the state")
            r.classes.append("vmf.flags_say_canonical_but_matrices_are_not")
        cfg = evo.make_evolve_config(s)
        w = case["split_w"][: case["nsplit"]]
        dts = [t * x / sum(w) for x in w]
        cur = mps
        ref = psi0
        c0 = mps.coeff
        for k, dt in enumerate(dts):
            cur = evolve(cur, dt, cfg.copy())
            ref = apply_ref(-1j * dt, ref)
            if case["normalize"]:
                ref = ref / np.linalg.norm(ref) * abs(c0)
        got = chain.dense_of(cur)
        nrm = np.linalg.norm(psi0)
        # Krylov: each of the ~4n local solves of a step stops when successive iterates agree to rtol 1e-5 / atol 1e-8
        tol = 1.5e-5 * 4 * len(mps) * max(1.0, t) * len(dts) * nrm
        if s.get("solver") in ("RK45", "RK23"):
            # IVP solvers at ivp_rtol=1e-9 / atol=1e-11: local errors accumulate over the ~4n local solves of a step
            tol = 3e-4 * max(1.0, t) * len(dts) * nrm
        if s["kind"] in ("tdvp_vmf", "tdvp_mu_vmf"):
            tol = 2e-7 * max(1.0, t) * len(dts) * nrm
            if loose:
                tol = 1e-4 * max(1.0, t) * len(dts) * nrm  # redundant bonds of the operator image: regularised inversion
        if s["kind"] in ("tdvp_ps", "tdvp_ps2") and not ps_is_exact(mps, s["kind"]):
            # the projector-splitting schemes are second-order integrators: even when the bond dimensions hold the state,
            # the left/right bases of an interior site are complete only on the smaller side, so a step carries a
            # splitting error O((||H||dt)^3) (measured constant <= 0.05; exact for two sites, where both bases are complete)
            r.classes.append("ps.order_bound")
            tol = tol + 0.5 * sum(d ** 3 for d in dts) * nrm
        r.check_close(f"exact.{s['kind']}", got, ref, tol, f"{s} split {dts} normalize={case['normalize']} vs expm")
        r.check("exact.sector", chain.sector_leak(spec, got if not use_dm else np.diag(got @ got.conj().T) * 0 + 0, q) <= 1e-8 if not use_dm else True,
                "left the sector")
        if len(dts) > 1:
            r.classes.append("split_calls")

    # ---- successive calls switching scheme and step -------------------------------------------------------------------
    def mode_switch(self, case, r, mps, mpo, H, psi0, t, evolve, apply_ref, model, q, spec, use_dm):
        from renormalizer.utils.rk import RungeKutta

        cur = mps
        ref = psi0.astype(complex)
        nrm = np.linalg.norm(psi0)
        tol = 0.0
        n = len(mps)
        names = []
        for k, s in enumerate(case["schemes"]):
            dt = case["steps"][k % len(case["steps"])]
            cfg = evo.make_evolve_config(s)
            if s["fam"] != "pc":
                # the projector schemes work on a canonical state (a gauge move, the represented state is the same)
                cur = cur.copy()
                cur.ensure_left_canonical()
                cur.ensure_right_canonical()
            cur = evolve(cur, dt, cfg, normalize=False)
            A = -1j * dt * H
            if s["kind"] == "pc_taylor":
                ref = evo.taylor_apply(A, ref, s["order"])
                tol += 1e-8 * nrm
            elif s["kind"] == "pc_tdrk4":
                ref = evo.rk4_apply(A, ref)
                tol += 1e-8 * nrm
            elif s["kind"] == "pc_tdrk":
                a, b, c = RungeKutta(s["rk"]).tableau
                ref = evo.stability_poly_apply(a, b[0], A, ref)
                tol += 1e-8 * nrm
            else:
                ref = apply_ref(-1j * dt, ref)
                if s["kind"] in ("tdvp_vmf", "tdvp_mu_vmf"):
                    tol += 2e-7 * nrm
                elif s.get("solver") in ("RK45", "RK23"):
                    tol += 3e-4 * nrm
                else:
                    tol += 1.5e-5 * 4 * n * nrm
                if s["kind"] in ("tdvp_ps", "tdvp_ps2") and not ps_is_exact(mps, s["kind"]):
                    tol += 0.5 * dt ** 3 * nrm
            names.append(s["kind"])
        got = chain.dense_of(cur)
        r.classes.append("switch." + ">".join(sorted(set(n_[:7] for n_ in names))))
        r.check_close("switch.sequence", got, ref, tol, f"calls {[(s_['kind'], s_.get('rk', s_.get('order', s_.get('solver')))) for s_ in case['schemes']]} "
                                                          f"steps {case['steps'][:len(case['schemes'])]} vs the product of the per-call references")

    # ---- polynomial schemes vs algebraic replica ----------------------------------------------------------
    def mode_poly(self, case, r, mps, mpo, H, psi0, t, evolve, apply_ref, model, q, spec, use_dm):
        from renormalizer.utils.rk import RungeKutta  # tableau only (its order conditions are C19's subject)

        s = case["scheme"]
        if s["kind"] == "pc_tdrk" and s["rk"] in evo.EMBEDDED:
            s = dict(s, rk="C_RK4")
        cfg = evo.make_evolve_config(s)
        A = -1j * t * H
        if s["kind"] == "pc_taylor":
            ref = evo.taylor_apply(A, psi0, s["order"])
        elif s["kind"] == "pc_tdrk4":
            ref = evo.rk4_apply(A, psi0.astype(complex))
        else:
            a, b, c = RungeKutta(s["rk"]).tableau
            ref = evo.stability_poly_apply(a, b[0], A, psi0)
        new = evolve(mps, t, cfg)
        got = chain.dense_of(new)
        ref = self.expected(ref, case, mps.coeff)
        nrm = np.linalg.norm(psi0)
        r.check_close(f"poly.{s['kind']}", got, ref, 1e-8 * nrm * max(1.0, t) ** 6, f"{s} vs algebraic replica, normalize={case['normalize']}")
        # the replica itself approaches the exact propagator with the scheme's order (sanity of the statement)
        exact = apply_ref(-1j * t, psi0)

    # ---- CMF: error bound vs exact -----------------------------------------------------------------------------
    def mode_cmf(self, case, r, mps, mpo, H, psi0, t, evolve, apply_ref, model, q, spec, use_dm):
        s = case["scheme"]
        cfg = evo.make_evolve_config(s)
        new = evolve(mps, t, cfg, normalize=False)
        got = chain.dense_of(new)
        ref = apply_ref(-1j * t, psi0)
        p = 1 if s["variant"] == "first" else 2
        nrm = np.linalg.norm(psi0)
        bound = (2.0 * t ** (p + 1) + 5e-3) * nrm
        err = np.linalg.norm(got - ref)
        r.resid(f"cmf.{s['variant']}.err_over_bound", err / bound, 1.0)
        r.check(f"cmf.{s['variant']}", err <= bound, f"{s}: |psi-exact|={err:.3e} > bound {bound:.3e} at ||H||dt={t}")

    # ---- solver independence ---------------------------------------------------------------------------------------
    def mode_solver(self, case, r, mps, mpo, H, psi0, t, evolve, apply_ref, model, q, spec, use_dm):
        s = case["scheme"]
        outs = {}
        for solver in ("krylov", "RK45", "RK23"):
            cfg = evo.make_evolve_config(dict(s, solver=solver))
            outs[solver] = chain.dense_of(evolve(mps.copy(), t, cfg, normalize=False))
        nrm = np.linalg.norm(psi0)
        tol = 1.5e-5 * 4 * len(mps) * max(1.0, t) * nrm
        for solver in ("RK45", "RK23"):
            r.check_close(f"solver.{s['kind']}.{solver}_vs_krylov", outs[solver], outs["krylov"], tol,
                          f"{s}: {solver} vs krylov at ||H||dt={t}")

    # ---- adaptive stepping -------------------------------------------------------------------------------------------
    def mode_adaptive(self, case, r, mps, mpo, H, psi0, t, evolve, apply_ref, model, q, spec, use_dm):
        s = case["scheme"]
        rtol = case["rtol"]
        cfg = evo.make_evolve_config(s, adaptive=True, guess_dt=min(case["guess"], 10.0), adaptive_rtol=rtol)
        new = evolve(mps, t, cfg, normalize=False)
        got = chain.dense_of(new)
        ref = apply_ref(-1j * t, psi0)
        nrm = np.linalg.norm(psi0)
        # acceptance rule of the code: local estimate up to 2^order*rtol per sub-step; the number of sub-steps is bounded by the
        # step-size controller (p >= 0.1 per retry); calibrated constant (worst observed over 12800 cases: 26*rtol*max(1,t))
        tol = (100.0 * rtol * max(1.0, t) + 5e-6) * nrm
        if s["fam"] == "cmf":
            tol += 5e-3 * nrm  # the inner sites of CMF are integrated with scipy's default rtol (see mode_cmf)
        err = np.linalg.norm(got - ref)
        r.resid(f"adaptive.{s['kind']}.err_over_tol", err / tol, 1.0)
        r.check(f"adaptive.{s['kind']}", err <= tol, f"{s} rtol={rtol} guess={case['guess']}: error {err:.3e} > {tol:.3e}")
        g = new.evolve_config.guess_dt
        r.check("adaptive.guess_dt_sign", np.real(g) > 0 and abs(np.imag(g)) == 0, f"guess_dt after real-time evolution: {g}")
        # metamorphic: the step-size controller works with RELATIVE errors, so the run on c*psi (same tensors, prefactor c) accepts
        # the same sub-steps and returns c times the result; a controller that mixes the prefactor into its error measure loosens
        # or tightens the requested tolerance by |c|
        if case.get("rescale") and not use_dm:
            c = case["rescale"][0] * np.exp(1j * case["rescale"][1])
            m2 = mps.copy()
            m2.coeff = m2.coeff * c
            cfg2 = evo.make_evolve_config(s, adaptive=True, guess_dt=min(case["guess"], 10.0), adaptive_rtol=rtol)
            new2 = evolve(m2, t, cfg2, normalize=False)
            got2 = chain.dense_of(new2)
            sc = abs(c) * max(np.linalg.norm(got), 1e-300)
            r.resid("adaptive.scale_covariance", np.linalg.norm(got2 - c * got) / sc, 1e-9)
            r.check(f"adaptive.scale_covariance.{s['kind']}", np.linalg.norm(got2 - c * got) <= 1e-9 * sc,
                    f"{s} rtol={rtol}: evolve(c*psi) differs from c*evolve(psi) by {np.linalg.norm(got2 - c * got) / sc:.3e} (relative), "
                    f"c={c}")
            r.classes.append("adaptive.scale_covariance")

    # ---- time-dependent Hamiltonian ------------------------------------------------------------------------------------
    def mode_td(self, case, r, mps, mpo, H, psi0, t, evolve, apply_ref, model, q, spec, use_dm):
        from renormalizer.mps import Mpo
        from renormalizer.utils.rk import RungeKutta

        s = case["scheme"]
        tv, V = scaled_terms(spec, case["terms_v"], 1.0)
        if tv is None:
            r.rejected = "zero perturbation"
            return
        w = case["td_freq"]
        mpo_v = Mpo(model, build_ops(spec, tv))

        def f(tt):
            return np.cos(w * tt / t)

        def mpo_t(tt, *a, **k):
            return mpo.add(mpo_v.scale(f(tt)))

        def Ht(tt):
            return H + f(tt) * V

        cfg = evo.make_evolve_config(s)
        if s["kind"] == "pc_tdrk4":
            a = [[0, 0, 0, 0], [0.5, 0, 0, 0], [0, 0.5, 0, 0], [0, 0, 1, 0]]
            b = [1 / 6, 1 / 3, 1 / 3, 1 / 6]
            c = [0, 0.5, 0.5, 1.0]
        else:
            aa, bb, cc = RungeKutta(s["rk"]).tableau
            a, b, c = aa, bb[0], cc
        ks = []
        y0 = psi0.astype(complex)
        for i in range(len(b)):
            yi = y0.copy()
            for j in range(i):
                if a[i][j] != 0:
                    yi = yi + t * a[i][j] * ks[j]
            ks.append(-1j * (Ht(c[i] * t) @ yi))
        ref = y0 + t * sum(b[i] * ks[i] for i in range(len(b)))
        nrm = np.linalg.norm(psi0)
        if any(np.linalg.norm(k) <= 1e-9 * nrm for k in ks):
            r.rejected = "a stage derivative vanishes (exactly zero state, DESIGN §3.4)"
            return
        mps.evolve_config = cfg
        from renormalizer.utils import CompressConfig, CompressCriteria
        mps.compress_config = CompressConfig(CompressCriteria.fixed, max_bonddim=BIG)
        new = mps.evolve(mpo_t, t, normalize=False)
        got = chain.dense_of(new)
        r.check_close(f"td.{s['kind']}", got, ref, 1e-8 * nrm * max(1.0, t) ** 6, f"{s}: time-dependent H vs dense RK with the same tableau")
        r.classes.append("time_dependent_H")

    def mode_td_vmf(self, case, r, mps, mpo, H, psi0, t, evolve, apply_ref, model, q, spec, use_dm):
        """variational (VMF) integration with a time-dependent Hamiltonian callable at full bond dimension, in one call and split
        into two calls, vs a dense high-accuracy integration of i dpsi/dt = H(t) psi"""
        from renormalizer.mps import Mpo
        from scipy.integrate import solve_ivp

        s = case["scheme"]
        tv, V = scaled_terms(spec, case["terms_v"], 1.0)
        if tv is None:
            r.rejected = "zero perturbation"
            return
        w = case["td_freq"]
        mpo_v = Mpo(model, build_ops(spec, tv))
        if (mpo_v.is_complex or mpo.is_complex) and not mps.is_complex:
            mps = mps.to_complex()

        def f(tt):
            return np.cos(w * tt / t)

        def make_mpo_t(t0):
            def mpo_t(tt, *a, **k):
                return mpo.add(mpo_v.scale(f(t0 + tt)))
            return mpo_t

        y0 = psi0.astype(complex)
        sol = solve_ivp(lambda tt, y: -1j * ((H + f(tt) * V) @ y), (0.0, t), y0, method="DOP853", rtol=1e-12, atol=1e-14)
        ref = sol.y[:, -1]
        nrm = np.linalg.norm(psi0)
        tol = 2e-7 * max(1.0, t) * 2 * nrm
        cfg = evo.make_evolve_config(s)
        new = evolve(mps, t, cfg.copy(), normalize=False) if False else None
        # one call
        x1 = mps.copy()
        x1.evolve_config = cfg.copy()
        from renormalizer.utils import CompressConfig, CompressCriteria
        x1.compress_config = CompressConfig(CompressCriteria.fixed, max_bonddim=BIG)
        got1 = chain.dense_of(x1.evolve(make_mpo_t(0.0), t, normalize=False))
        r.check_close(f"td_vmf.{s['kind']}", got1, ref, tol, f"{s}: time-dependent H (w={w}) over t={t} in one call vs dense integration")
        # two calls: the callable of the second call starts at the time where the first one ended (time is relative to the call)
        x2 = mps.copy()
        x2.evolve_config = cfg.copy()
        x2.compress_config = CompressConfig(CompressCriteria.fixed, max_bonddim=BIG)
        mid = x2.evolve(make_mpo_t(0.0), 0.4 * t, normalize=False)
        got2 = chain.dense_of(mid.evolve(make_mpo_t(0.4 * t), 0.6 * t, normalize=False))
        r.check_close(f"td_vmf.split.{s['kind']}", got2, ref, tol, f"{s}: the same in two calls (0.4 t + 0.6 t)")
        r.classes.append("time_dependent_H.vmf")

    def mode_td_adaptive(self, case, r, mps, mpo, H, psi0, t, evolve, apply_ref, model, q, spec, use_dm):
        """adaptive embedded-RK P&C with a time-dependent Hamiltonian callable: several accepted sub-steps inside one call"""
        from renormalizer.mps import Mpo
        from renormalizer.utils import CompressConfig, CompressCriteria

        s = case["scheme"]
        tv, V = scaled_terms(spec, case["terms_v"], 1.0)
        if tv is None:
            r.rejected = "zero perturbation"
            return
        w = case["td_freq"]
        mpo_v = Mpo(model, build_ops(spec, tv))

        def f(tt):
            return np.cos(w * tt)

        def mpo_t(tt, *a, **k):
            return mpo.add(mpo_v.scale(f(tt)))

        # dense time-ordered reference: classical RK4 with a fine step (error ~ (dt)^4, far below the tolerance)
        nfine = int(max(200, 400 * t * (1 + w)))
        h = t / nfine
        y = psi0.astype(complex)
        for k in range(nfine):
            t0 = k * h
            k1 = -1j * ((H + f(t0) * V) @ y)
            if np.linalg.norm(k1) <= 1e-6 * np.linalg.norm(psi0):
                r.rejected = "the time derivative vanishes along the trajectory (exactly zero state, DESIGN §3.4)"
                return
            k2 = -1j * ((H + f(t0 + h / 2) * V) @ (y + h / 2 * k1))
            k3 = -1j * ((H + f(t0 + h / 2) * V) @ (y + h / 2 * k2))
            k4 = -1j * ((H + f(t0 + h) * V) @ (y + h * k3))
            y = y + h / 6 * (k1 + 2 * k2 + 2 * k3 + k4)
        rtol = case["rtol"]
        cfg = evo.make_evolve_config(s, adaptive=True, guess_dt=case["guess"], adaptive_rtol=rtol)
        mps.evolve_config = cfg
        mps.compress_config = CompressConfig(CompressCriteria.fixed, max_bonddim=BIG)
        new = mps.evolve(mpo_t, t, normalize=False)
        got = chain.dense_of(new)
        nrm = np.linalg.norm(psi0)
        tol = (2000.0 * rtol * max(1.0, t) + 5e-5) * nrm
        err = np.linalg.norm(got - y)
        r.resid("td_adaptive.err_over_tol", err / tol, 1.0)
        r.check(f"td_adaptive.{s['rk']}", err <= tol, f"{s} rtol={rtol} guess={case['guess']} t={t} w={w}: error {err:.3e} > {tol:.3e}")
        r.classes.append("time_dependent_H.adaptive")

    # ---- one-site PS conserves norm and energy at any bond dimension ----------------------------------------------------------
    def mode_conserve(self, case, r, mps, mpo, H, psi0, t, evolve, apply_ref, model, q, spec, use_dm):
        s = case["scheme"]
        cfg = evo.make_evolve_config(s)
        cur = mps
        n0 = np.linalg.norm(psi0)
        e0 = np.real(psi0.conj() @ (H @ psi0))
        r.classes.append(f"bond_dims={max(mps.bond_dims)}")
        for k in range(case["nstep"]):
            cur = evolve(cur, t, cfg.copy(), normalize=False)
            v = chain.dense_of(cur)
            nk = np.linalg.norm(v)
            ek = np.real(v.conj() @ (H @ v))
            tol = 1e-6 * (k + 1) * max(1.0, t)
            r.resid("conserve.norm_drift", abs(nk - n0) / n0, tol)
            r.resid("conserve.energy_drift", abs(ek - e0) / n0 ** 2, tol)
            if not r.check("conserve.norm", abs(nk - n0) <= tol * n0, f"step {k}: norm {nk} vs {n0} ({s})"):
                break
            if not r.check("conserve.energy", abs(ek - e0) <= tol * n0 ** 2, f"step {k}: energy {ek} vs {e0} ({s})"):
                break
            r.check("conserve.bond_dims", list(cur.bond_dims) == list(mps.bond_dims), f"bond dims changed {mps.bond_dims} -> {cur.bond_dims}")
            r.check("conserve.sector", chain.sector_leak(spec, v, q) <= 1e-8, "left the sector")

    # ---- bond limit ------------------------------------------------------------------------------------------------------------
    def mode_limit(self, case, r, mps, mpo, H, psi0, t, evolve, apply_ref, model, q, spec, use_dm):
        from renormalizer.utils import CompressConfig, CompressCriteria

        s = case["scheme"]
        if s["kind"] == "pc_tdrk" and s["rk"] in evo.EMBEDDED:
            s = dict(s, rk="C_RK4")
        M = case["M"]
        crit = CompressCriteria.fixed if case["crit"] == "fixed" else CompressCriteria.both
        cfg = evo.make_evolve_config(s)
        cur = mps
        r.check("limit.initial", max(mps.bond_dims) <= M, f"initial bond dims {mps.bond_dims} > {M}")
        per_bond = None
        if (case["rng"] % 2 or s["kind"] == "tdvp_ps2") and s["kind"] in ("tdvp_ps2", "pc_taylor", "pc_tdrk4", "pc_tdrk") and len(mps) > 2:
            # a limit per bond (compress_config.max_dims), none below the bond the state already has
            g = np.random.default_rng(case["rng"])
            per_bond = [max(int(b), int(g.integers(1, M + 3))) for b in mps.bond_dims]
            per_bond[0] = per_bond[-1] = 1
            r.classes.append("limit.per_bond")
        for k in range(case["nstep"]):
            cc = CompressConfig(crit, threshold=1e-3, max_bonddim=M)
            if per_bond is not None:
                cc.max_dims = np.array(per_bond, dtype=int)
            cur = evolve(cur, t, cfg.copy(), cc=cc, normalize=False)
            if per_bond is not None:
                if not r.check(f"limit.per_bond.{s['kind']}", all(int(b) <= l for b, l in zip(cur.bond_dims, per_bond)),
                               f"step {k}: bond dims {list(cur.bond_dims)} exceed the per-bond limits {per_bond} ({s})"):
                    break
            elif not r.check(f"limit.{s['kind']}", max(cur.bond_dims) <= M, f"step {k}: bond dims {cur.bond_dims} exceed limit {M} ({s})"):
                break
            v = chain.dense_of(cur)
            r.check("limit.finite", bool(np.all(np.isfinite(v))), "non-finite state")
            r.check("limit.sector", chain.sector_leak(spec, v, q) <= 1e-8, "left the sector")

    def sample_view(self, case):
        return {k: v for k, v in case.items() if k not in ("terms", "terms_v", "model")} | {
            "sites": [s["k"] for s in case["model"]["sites"]], "n_terms": len(case["terms"])}


PROP = C09()

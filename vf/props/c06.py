"""C06 — conserved quantum numbers are never violated by any operation (chain histories; trees via C11/C12 label checks)."""
import numpy as np
from hypothesis import strategies as st

from vf.core import Prop, Result, lib_exception_sig
from vf import gen, chain, evo
from vf.props.c03 import check_meta, arith_instr
from vf.props.c08 import build_ops
from vf.props.c04 import Interp04


@st.composite
def history_instr(draw):
    k = draw(st.integers(0, 9))
    a = draw(st.integers(0, 20))
    if k <= 1:
        return {"op": "trunc", "a": a, "M": draw(st.sampled_from([1, 1, 2, 3, 4])), "dir": draw(st.integers(0, 1)),
                "crit": draw(st.sampled_from(["fixed", "threshold", "both"])), "thr": draw(st.sampled_from([0.01, 0.1, 0.5]))}
    if k == 2:
        return {"op": "optimize", "a": a, "method": draw(st.sampled_from(["1site", "2site"])), "nroots": draw(st.sampled_from([1, 1, 2])),
                "M": draw(st.sampled_from([2, 4, 8])), "pct": draw(st.sampled_from([0, 0.2, 0.5])), "algo": draw(st.sampled_from(["direct", "davidson"])),
                "rng": draw(st.integers(0, 10 ** 6))}
    if k in (3, 4):
        return {"op": "evolve", "a": a, "scheme": draw(evo.scheme_specs(("pc", "ps", "ps2", "vmf", "cmf"))), "imag": draw(st.booleans()),
                "dt": draw(st.sampled_from([0.05, 0.3, 1.0])), "M": draw(st.sampled_from([2, 4, 16])), "normalize": draw(st.booleans())}
    if k == 5:
        if draw(st.booleans()):
            return {"op": "vcompress", "o": draw(st.integers(0, 9)), "a": a, "method": draw(st.sampled_from(["1site", "2site"]))}
        return draw(chain.gauge_instr(draw(st.sampled_from(["S", "S", "O", "O"]))))
    ins = draw(arith_instr())
    return ins


@st.composite
def cases(draw, tier):
    qn = draw(st.sampled_from([1, 1, 2]))
    spec = draw(chain.chain_model_specs(2, 6 if tier == "thorough" else 5, max_dim=64 if tier == "quick" else 128, qn=qn))
    n = len(spec["sites"])
    prog = []
    qsel = draw(st.integers(0, 50))
    extreme = draw(st.integers(0, 3)) == 0  # the fullest / emptiest sector
    for _ in range(draw(st.integers(1, 3))):
        ins = draw(chain.create_instr(spec, ("rand", "rand", "prod")))
        if ins["op"] == "rand":
            ins["q"] = -1 if extreme else qsel
        prog.append(ins)
    rc = gen.reachable_charges(spec)
    for _ in range(draw(st.integers(1, 3))):
        if rc and draw(st.integers(0, 2)) > 0:
            terms, q = draw(gen.charged_operator(spec, charge=draw(st.sampled_from(rc)), max_terms=3))
            prog.append({"op": "mpo", "terms": terms, "charge": list(q), "algo": draw(st.sampled_from(["qr", "Hopcroft-Karp"]))})
        else:
            prog.append(draw(chain.mpo_instr(spec)))
        prog.append({"op": "apply", "o": -1, "a": draw(st.integers(0, 9)), "meth": draw(st.integers(0, 1))})
        if draw(st.booleans()):
            # the same operator in another gauge (qn centre moved), applied again
            g = draw(chain.gauge_instr("O"))
            g["a"] = -1
            prog.append(g)
            prog.append({"op": "apply", "o": -1, "a": draw(st.integers(0, 9)), "meth": draw(st.integers(0, 1))})
    ham = draw(gen.hermitian_hamiltonian(spec, max_terms=4))
    for _ in range(draw(st.integers(2, 8 if tier == "quick" else 14))):
        prog.append(draw(history_instr()))
    return {"model": spec, "prog": prog, "ham": ham}


class Hooks:
    def after_create(self, it, reg):
        check_meta(it, reg, "create")

    def after_gauge(self, it, reg, before, ins, name):
        check_meta(it, reg, f"gauge.{name}")

    def after_arith(self, it, reg, ins, sig):
        check_meta(it, reg, sig)
        if reg.kind == "S" and any(reg.q):
            it.r.info["nonzero_sector_op"] = True


class Interp06(Interp04):
    ham_terms = None

    def _ham(self):
        from renormalizer.mps import Mpo

        if getattr(self, "_h", None) is None:
            H, sc = gen.dense_operator(self.spec, self.ham_terms, 0.0, self.bl)
            nrm = np.linalg.norm(H, 2)
            if nrm <= 1e-12 * sc:
                self._h = False
                return False
            terms = [{"f": [t["f"][0] / nrm, t["f"][1] / nrm], "ops": t["ops"]} for t in self.ham_terms]
            self._h = (Mpo(self.fresh_model(), build_ops(self.spec, terms)), H / nrm)
        return self._h

    def _post(self, obj, q, tag, sig):
        v = chain.dense_of(obj)
        if not np.all(np.isfinite(v)) or np.linalg.norm(v) == 0:
            self.r.fail(f"{sig}.nonfinite", f"non-finite or vanishing state after {tag} trace={self.trace[-5:]}")
            return None
        reg = chain.Reg(obj, v, q, "S", tag)
        if len(self.S) < 12:
            self.S.append(reg)
        check_meta(self, reg, sig)
        self.r.info["history_ops"] = self.r.info.get("history_ops", set()) | {tag}
        if any(q):
            self.r.info["nonzero_sector_op"] = True
        return reg

    def i_trunc(self, ins):
        from renormalizer.utils import CompressConfig, CompressCriteria

        reg = self.pick(self.S, ins["a"])
        if reg is None or self.n < 2:
            return
        ok, x = self.guard("trunc.copy", reg.obj.copy)
        if not ok:
            return
        ok, _ = self.guard("trunc.prepare", (x.ensure_left_canonical if ins["dir"] else x.ensure_right_canonical))
        if not ok:
            return
        crit = {"fixed": CompressCriteria.fixed, "threshold": CompressCriteria.threshold, "both": CompressCriteria.both}[ins["crit"]]
        x.compress_config = CompressConfig(crit, threshold=ins["thr"], max_bonddim=ins["M"])
        ok, _ = self.guard("trunc.compress", x.compress)
        if ok:
            self._post(x, reg.q, "truncation", "trunc")

    def i_optimize(self, ins):
        from renormalizer.mps.gs import optimize_mps
        from renormalizer.utils import CompressConfig, CompressCriteria

        reg = self.pick(self.S, ins["a"])
        h = self._ham()
        if reg is None or not h or self.n < 2:
            return
        mpo, H = h
        x = reg.obj.copy()
        if mpo.is_complex and not x.is_complex:
            x = x.to_complex()
        x.coeff = 1
        M = ins["M"]
        x.optimize_config.procedure = [[M, ins["pct"]], [CompressConfig(CompressCriteria.fixed, max_bonddim=M), ins["pct"]], [M, 0]]
        x.optimize_config.method = ins["method"]
        x.optimize_config.algo = ins["algo"]
        nroots = ins["nroots"]
        mask = np.all(gen.basis_state_qn(self.spec) == np.asarray(reg.q).reshape(1, -1), axis=1)
        if nroots > 1 and mask.sum() < 4:
            nroots = 1
        x.optimize_config.nroots = nroots
        np.random.seed(ins["rng"])
        try:
            energies, res = optimize_mps(x, mpo)
        except ValueError as e:
            if nroots > 1 and "broadcast" in str(e):
                return
            self.r.fail("optimize.exc.ValueError", repr(e))
            return
        except Exception as e:  # noqa
            from vf.core import lib_exception_sig
            sig, in_lib = lib_exception_sig(e)
            if not in_lib:
                raise
            self.r.fail(f"optimize.{sig}", f"{e!r} trace={self.trace[-5:]}")
            return
        for s in (res if isinstance(res, list) else [res]):
            self._post(s, reg.q, "optimisation", f"optimize.{ins['method']}")
        # the overwritten guess is still a state of the sector
        self._post(x, reg.q, "optimisation_guess", f"optimize_guess.{ins['method']}")

    def i_evolve(self, ins):
        from renormalizer.utils import CompressConfig, CompressCriteria

        reg = self.pick(self.S, ins["a"])
        h = self._ham()
        if reg is None or not h or self.n < 2:
            return
        mpo, H = h
        s = ins["scheme"]
        if s["kind"] == "pc_tdrk" and s["rk"] in evo.EMBEDDED:
            s = dict(s, rk="C_RK4")
        x = reg.obj.copy()
        if mpo.is_complex and not x.is_complex:
            x = x.to_complex()
        # VMF / CMF need non-redundant bonds: canonicalise twice and remove exactly vanishing singular values
        ok, _ = self.guard("evolve.prepare", lambda: (x.ensure_left_canonical(), x.ensure_right_canonical(), x.compress(temp_m_trunc=chain.BIG)))
        if not ok:
            return
        if s["kind"] in ("tdvp_vmf", "tdvp_mu_vmf", "tdvp_mu_cmf"):
            sv = None
            ok, res = self.guard("evolve.prepare_sv", lambda: x.copy().compress(temp_m_trunc=chain.BIG, ret_s=True))
            if not ok:
                return
            sv = np.asarray(res[1])
            nz = sv[sv > 0]
            if nz.size and nz.min() < 1e-6 * sv.max():
                return  # nearly singular bonds: stiff equations of motion (the documented reason for the regularisation)
            if np.any(sv == 0) and np.any(np.sum(sv > 0, axis=1) < np.array(x.bond_dims[1:-1])[::-1 if not x.to_right else 1][: len(sv)]):
                return
        Hv = H @ chain.tensors_dense(x).astype(complex)
        if np.linalg.norm(Hv) <= 1e-8:
            return
        if s.get("fam") == "pc" and s["kind"] in ("pc_tdrk", "pc_tdrk4"):
            # a Runge-Kutta stage (state or derivative) that vanishes exactly is a zero MPS, which the library refuses by its
            # zero-tensor assertion (DESIGN §3.4): e.g. imaginary time, midpoint rule, (1 - tau H/2) psi = 0
            from renormalizer.utils.rk import RungeKutta
            aa = evo.RK4_A if s["kind"] == "pc_tdrk4" else RungeKutta(s["rk"]).tableau[0]
            zz = (-ins["dt"] if ins["imag"] else -1j * ins["dt"])
            v0 = chain.tensors_dense(x).astype(complex)
            bb = ([1 / 6, 1 / 3, 1 / 3, 1 / 6] if s["kind"] == "pc_tdrk4" else RungeKutta(s["rk"]).tableau[1][0])
            if evo.rk_stage_min_norm(aa, zz * H, v0) <= 1e-8 * np.linalg.norm(v0) or \
                    np.linalg.norm(evo.stability_poly_apply(aa, bb, zz * H, v0)) <= 1e-8 * np.linalg.norm(v0):
                # ... or the step itself maps the state to zero (Forward Euler in imaginary time: (1 - tau H) psi = 0)
                self.r.classes.append("evolve.pc.vanishing_stage_rejected")
                return
        if s.get("fam") == "pc":
            # propagate-and-compress forms H^k psi explicitly; a power that vanishes exactly (nilpotent action on this state) is a
            # zero MPS, which the library refuses by assertion (DESIGN §3.4): not generated
            hn = max(np.linalg.norm(H, 2), 1e-300)
            v, v0 = Hv, np.linalg.norm(chain.tensors_dense(x))
            for k in range(2, 8):
                v = H @ v
                if np.linalg.norm(v) <= 1e-9 * hn ** k * v0:
                    self.r.classes.append("evolve.pc.vanishing_power_rejected")
                    return
        x.evolve_config = evo.make_evolve_config(s, guess_dt=-0.1j if ins["imag"] else None, tight=False)
        x.compress_config = CompressConfig(CompressCriteria.fixed, max_bonddim=max(ins["M"], max(x.bond_dims)) if s["kind"] in
                                           ("tdvp_ps", "tdvp_vmf", "tdvp_mu_vmf", "tdvp_mu_cmf") else ins["M"])
        dt = -1j * ins["dt"] if ins["imag"] else ins["dt"]
        if s.get("fam") == "pc" and ins["M"] < max(x.bond_dims):
            # truncating propagate-and-compress: the truncated intermediate state of a Runge-Kutta stage can be annihilated by H
            # exactly (only Schmidt vectors outside the support of H survive the cut); the library then refuses the zero MPS by its
            # zero-tensor assertion. Not predictable from the dense model (depends on the truncation): counted, not asserted.
            try:
                ok, y = True, x.evolve(mpo, dt, ins["normalize"])
            except AssertionError as e:
                sg, in_lib = lib_exception_sig(e)
                if not in_lib:
                    raise
                if sg.endswith("_push_cano") or sg.endswith("mp.py:scale"):  # the two zero-tensor assertions of the library
                    self.r.classes.append("evolve.pc.truncated_stage_vanished")
                    return
                self.r.fail(f"evolve.{s['kind']}.{sg}", f"{e!r} trace={self.trace[-6:]}")
                return
            except Exception as e:  # noqa
                sg, in_lib = lib_exception_sig(e)
                if not in_lib:
                    raise
                self.r.fail(f"evolve.{s['kind']}.{sg}", f"{e!r} trace={self.trace[-6:]}")
                return
        else:
            ok, y = self.guard(f"evolve.{s['kind']}", x.evolve, mpo, dt, ins["normalize"])
        if ok:
            self.r.classes.append(f"evolve.{s['kind']}.{'imag' if ins['imag'] else 'real'}")
            self._post(y, reg.q, "evolution", f"evolve.{s['kind']}.{'imag' if ins['imag'] else 'real'}")


class C06(Prop):
    id = "C06"
    rule = ("Hypothesis draws a model with one or two conserved quantum numbers (2-6 sites), states in a drawn sector (incl. the extreme "
            "sectors), charged and neutral operators, a conserving Hamiltonian and a history of 2-14 operations mixing arithmetic "
            "(add, sub, scale, operator application with charge, contract, MpDm), gauge moves, truncations down to M=1 with each "
            "criterion, ground-state optimisation (1site/2site, direct/davidson, 1-2 roots) and evolution (every scheme, real and "
            "imaginary time). After every step: dense weight outside the expected sector <= 1e-9, qntot as expected, stored bond labels "
            "valid for every tensor. Non-trivial = a non-zero sector is involved and the history contains a truncation, a charged "
            "operator, an optimisation or an evolution")
    assumptions = ["expected sector tracked by the harness: start sector + sum of operator charges",
                   "label validity computed from raw tensors (entries above 1e-10 of the tensor's maximum count as non-zero)",
                   "operators carry one definite charge (DESIGN §3.8); VMF/CMF are started from non-singular bonds"]

    known_matchers = {"F27": lambda spec, sig, msg: sig == "observe.distance.common_prefactor_ignored"}

    def budget(self, tier):
        return dict(examples=960, shards=16) if tier == "quick" else dict(examples=40000, shards=16)

    def strategy(self, tier):
        return cases(tier)

    def run_case(self, case):
        r = Result()
        it = Interp06(case["model"], r, Hooks())
        it.ham_terms = case["ham"]
        it.run(case["prog"])
        ops = r.info.get("history_ops", set())
        cl = set(r.classes)
        r.classes = sorted(cl | {f"hist.{o}" for o in ops}) + [f"sites={it.n}", f"qn={case['model'].get('qnmode')}"]
        r.nontrivial = bool(r.info.get("nonzero_sector_op")) and bool(ops or "apply.charged" in cl)
        r.info = {}
        return r

    def sample_view(self, case):
        return {"sites": [s["k"] for s in case["model"]["sites"]], "qnmode": case["model"].get("qnmode"),
                "prog": [{k: v for k, v in i.items() if k != "terms"} for i in case["prog"]], "n_ham_terms": len(case["ham"])}


PROP = C06()

"""C01 — automatic MPO construction is exact; adjacent-site swap keeps the operator."""
import numpy as np
from hypothesis import strategies as st

from vf.core import Prop, Result, lib_exception_sig
from vf import gen

ALGOS = ["qr", "Hopcroft-Karp", "Hungarian"]
TOL = {"qr": 1e-7, "Hopcroft-Karp": 1e-9, "Hungarian": 1e-9}


@st.composite
def cases(draw, tier):
    big = tier == "thorough"
    spec = draw(gen.model_specs(1, 6, max_dim=1024 if not big else 2048))
    terms, flags = draw(gen.term_tables(spec, 1, 14 if not big else 40))
    off = draw(st.sampled_from([0.0, 0.0, 1.5, -0.37, 120.0]))
    n = len(spec["sites"])
    nsw = draw(st.integers(0, 6)) if n >= 2 else 0
    swaps = [draw(st.integers(0, n - 2)) for _ in range(nsw)]
    g = draw(st.sampled_from([1.0, 1.0, 1.0, 1.0, 1e-9, 1e-6, 1e6]))
    if g != 1.0:
        # overall scale of the operator (weak couplings / other energy units): exactness is relative to the operator's own scale
        terms = [dict(t, f=[t["f"][0] * g, t["f"][1] * g]) for t in terms]
        off = off * g
        flags = list(flags) + [f"global_scale_{g:g}"]
    return {"model": spec, "terms": terms, "flags": flags, "offset": off, "swaps": swaps,
            "swap_algo": draw(st.sampled_from(["Hopcroft-Karp", "Hungarian", "qr"]))}


def many_term_case(seed, k, nterms):
    """8 spins, 5 non-trivial local operators per site, `nterms` random product terms: bond dimensions of several hundred
    (index arithmetic beyond one byte), dense dimension 256"""
    rng = np.random.default_rng(seed * 100 + k)
    syms = ["sigma_x", "sigma_z", "sigma_+", "sigma_-", "sigma_+ sigma_-"]
    n = 8
    seen, terms = set(), []
    while len(terms) < nterms:
        pick = tuple(int(v) for v in rng.integers(0, len(syms) + 1, size=n))  # len(syms) = identity (site omitted)
        if pick in seen or all(v == len(syms) for v in pick):
            continue
        seen.add(pick)
        f = float(np.round(rng.uniform(0.1, 2.0) * rng.choice([-1.0, 1.0]), 6))
        terms.append({"f": [f, 0.0], "ops": [[i, syms[v], []] for i, v in enumerate(pick) if v < len(syms)]})
    spec = {"names": 0, "sites": [{"k": "spin"} for _ in range(n)], "qnmode": 0}
    return {"model": spec, "terms": terms, "flags": ["many_terms"], "offset": 0.0, "swaps": [], "swap_algo": "Hopcroft-Karp"}


def _consistency_class(e):
    """the library's own swap self-check (assert_allclose rtol=1e-8, atol=1e-11): rounding-level mismatch or a real one"""
    import re

    m = re.search(r"Max relative difference among violations: ([0-9.eE+-]+)", str(e))
    if isinstance(e, AssertionError) and m:
        try:
            return ".rounding" if float(m.group(1)) < 1e-5 else ".large"
        except ValueError:
            return ""
    return ""


def build_model(spec, order=None):
    from renormalizer.model import Model

    bl = gen.build_basis_list(spec)
    if order is not None:
        bl = [bl[i] for i in order]
    return Model(bl, [])


def _f55(spec, sig, msg):
    """QR cut-offs (1e-10 on the elements of Q and R) amplified by the dynamic range of the coefficients:
    (a) repeated QR swap of an operator with factors over >= 4 decades, refused by the self-check, wrong by <= 1e-3 relative;
    (b) QR construction (and QR swap of a QR-built operator) with factors over >= 6 decades, off by <= 1e-5 relative (observed 1.1e-7 / 4e-7 vs the 1e-7 / 2e-7 asserted)"""
    import re
    mags = [abs(complex(*t["f"])) for t in spec["terms"]] + [abs(spec.get("offset", 0.0))]
    mags = [x for x in mags if x > 0]
    m = re.search(r"err=([0-9.eE+-]+) tol=([0-9.eE+-]+)", msg)
    if not mags or not m:
        return False
    rng = max(mags) / min(mags)
    rel = float(m.group(1)) / float(m.group(2)) * 1e-7  # tolerances are (1 or 2) * 1e-7 * scale for QR
    if sig.startswith("swap_refused_and_wrong."):
        return spec.get("swap_algo") == "qr" and len(spec.get("swaps", [])) >= 2 and rng >= 1e4 and rel <= 1e-3
    if sig in ("dense.qr", "fresh_order.qr", "swap.qr"):
        return rng >= 1e6 and rel <= 1e-5
    if sig in ("swap.Hopcroft-Karp", "swap.Hungarian"):
        # QR swap of a graph-built operator: the same loss of accuracy over >= 6 decades
        return spec.get("swap_algo") == "qr" and rng >= 1e6 and rel <= 1e-5
    return False


def _f58(spec, sig, msg):
    """swaps with QR involved (QR swap of a graph-built operator, or a graph swap of a QR-built one) when the physical factors are
    far from 1 in absolute value (some below 1e-8 or above 1e8): structural unit entries sit next to them in one coefficient matrix"""
    import re
    if not spec.get("swaps"):
        return False
    mags = [abs(complex(*t["f"])) for t in spec["terms"]]
    mags = [x for x in mags if x > 0]
    if not mags or (min(mags) >= 1e-8 and max(mags) <= 1e8):
        return False
    m = re.match(r"^(swap|swap_refused_and_wrong)\.(Hopcroft-Karp|Hungarian|qr)(\.exc\.AssertionError@symbolic_mpo\.py:swap_site)?$", sig)
    if not m:
        return False
    built_qr = m.group(2) == "qr"
    return (spec.get("swap_algo") == "qr") != built_qr  # exactly one of construction / swap uses QR


class C01(Prop):
    id = "C01"
    rule = ("Hypothesis draws (model of 1-6 sites over all basis kinds, term table with duplicate / cancelling / shared-prefix / "
            "identity knobs, offset, swap sequence); every table is built with all three algorithms and compared with the "
            "harness dense sum; non-trivial = >=2 sites, >=2 distinct terms and at least one structure knob or complex factor "
            "or non-zero offset")
    assumptions = ["local matrices of a (re-grouped) site symbol are taken from BasisSet.op_mat (their physics is C16's subject)",
                   "precondition: complex local matrices are accompanied by complex-typed factors (DESIGN §3.1)",
                   "tolerance 1e-9*scale (graph algorithms), 1e-7*scale (QR; library rank/entry cut 1e-10)"]

    known_matchers = {
        "F15": lambda spec, sig, msg: sig == "swap.selfcheck_refuses_correct_swap" and spec.get("swap_algo") == "qr",
        "F55": lambda spec, sig, msg: _f55(spec, sig, msg),
        "F58": lambda spec, sig, msg: _f58(spec, sig, msg),
    }

    def finite_cases(self, tier):
        import os
        seed = int(os.environ.get("VERIF_SEED", "1") or 1)
        return [many_term_case(seed, k, 1500) for k in range(1 if tier == "quick" else 4)]

    def budget(self, tier):
        return dict(examples=800, shards=16) if tier == "quick" else dict(examples=30000, shards=16)

    def strategy(self, tier):
        return cases(tier)

    def run_case(self, case):
        from renormalizer.mps import Mpo
        from renormalizer.utils import Quantity

        r = Result()
        spec = case["model"]
        terms = case["terms"]
        n = len(spec["sites"])
        dims = gen.pdims(spec)
        bl = gen.build_basis_list(spec)
        ref, scale = gen.dense_operator(spec, terms, case["offset"], bl)
        need_complex = any(gen.is_complex_local(spec, t) for t in terms)
        if np.linalg.norm(ref) <= 1e-12 * scale:
            r.rejected = "operator is identically zero (everything cancels)"
            return r
        distinct = len({str(t["ops"]) for t in terms})
        cplx = any(t["f"][1] != 0 for t in terms)
        r.nontrivial = n >= 2 and distinct >= 2 and (bool(case["flags"]) or cplx or case["offset"] != 0)
        r.classes += [f"sites={n}", f"terms<={(len(terms) + 4) // 5 * 5}"] + [f"knob.{f}" for f in case["flags"]]
        r.classes += sorted({"kind." + s["k"] for s in spec["sites"]})
        if cplx or need_complex:
            r.classes.append("complex")
        if case["offset"] != 0:
            r.classes.append("offset")

        def ops():
            out = []
            for t in terms:
                op = gen.build_op(spec, t)
                if need_complex:
                    op = op * complex(1.0, 0.0)
                out.append(op)
            return out

        from renormalizer.model import Model

        for algo in ALGOS:
            model = Model(list(bl), [])
            try:
                mpo = Mpo(model, ops(), offset=Quantity(case["offset"]), algo=algo)
                got = mpo.todense()
            except Exception as e:  # noqa
                sig, in_lib = lib_exception_sig(e)
                if not in_lib:
                    raise
                r.fail(f"build.{algo}.{sig}", repr(e))
                continue
            r.check_close(f"dense.{algo}", got, ref, TOL[algo] * scale, f"Mpo(...).todense() algo={algo}")
            bd = list(mpo.bond_dims)
            r.check(f"shape.{algo}", bd[0] == 1 and bd[-1] == 1 and len(mpo) == n and
                    all(mpo[i].shape == (bd[i], dims[i], dims[i], bd[i + 1]) for i in range(n)),
                    f"bond dims {bd}, shapes {[m.shape for m in mpo]}")
            if algo == "qr" and not case["swaps"]:
                continue
            # swaps (in place on this mpo)
            order = list(range(n))
            cur_tol = TOL[algo]
            for pos in case["swaps"]:
                order[pos], order[pos + 1] = order[pos + 1], order[pos]
                new_model = Model([bl[i] for i in order], [])
                refused = False
                try:
                    try:
                        mpo.try_swap_site(new_model, swap_jw=False, algo=case["swap_algo"])
                    except AssertionError as e:
                        sig, in_lib = lib_exception_sig(e)
                        if not sig.endswith("check_swap_consistency"):
                            raise
                        # the library's own self-check refused the swap (nothing has been modified yet).
                        # Classify: repeat with the self-check disabled and see whether the operator is right.
                        refused = True
                        from renormalizer.mps import symbolic_mpo as _sm
                        saved = _sm.check_swap_consistency
                        _sm.check_swap_consistency = lambda *a, **k: None
                        try:
                            mpo.try_swap_site(new_model, swap_jw=False, algo=case["swap_algo"])
                        finally:
                            _sm.check_swap_consistency = saved
                    got = mpo.todense()
                except Exception as e:  # noqa
                    sig, in_lib = lib_exception_sig(e)
                    if not in_lib:
                        raise
                    r.fail(f"swap.{algo}.{sig}", f"after swaps up to {pos}: {e!r}")
                    break
                refp = gen.permute_dense_operator(ref, dims, order)
                if case["swap_algo"] == "qr":
                    cur_tol = 1e-7
                r.classes.append("swap")
                if refused:
                    ok = r.check_close(f"swap_refused_and_wrong.{algo}", got, refp, cur_tol * scale * 2,
                                       f"self-check refused the swap at {pos} and the operator is wrong without it")
                    if ok:
                        r.fail("swap.selfcheck_refuses_correct_swap",
                               f"check_swap_consistency raised AssertionError for a swap (algo={case['swap_algo']}) whose result "
                               f"is correct to {cur_tol * 2:.0e}*scale when the self-check is bypassed")
                    else:
                        break
                elif not r.check_close(f"swap.{algo}", got, refp, cur_tol * scale * 2, f"after swap at {pos} (order {order})"):
                    break
                bd = list(mpo.bond_dims)
                pd = [dims[i] for i in order]
                if not r.check(f"swapshape.{algo}", all(mpo[i].shape == (bd[i], pd[i], pd[i], bd[i + 1]) for i in range(n)),
                               f"shapes after swap {[m.shape for m in mpo]}"):
                    break
            if case["swaps"] and order != list(range(n)):
                # differential: a fresh MPO in the final order
                try:
                    fresh = Mpo(Model([bl[i] for i in order], []), ops(), offset=Quantity(case["offset"]), algo=algo).todense()
                    r.check_close(f"fresh_order.{algo}", fresh, gen.permute_dense_operator(ref, dims, order),
                                  TOL[algo] * scale, "fresh MPO in swapped order")
                except Exception as e:  # noqa
                    sig, in_lib = lib_exception_sig(e)
                    if not in_lib:
                        raise
                    r.fail(f"build_swapped.{algo}.{sig}", repr(e))
        return r

    def sample_view(self, case):
        return {"sites": [s["k"] for s in case["model"]["sites"]], "n_terms": len(case["terms"]),
                "first_terms": case["terms"][:3], "offset": case["offset"], "swaps": case["swaps"], "knobs": case["flags"]}


PROP = C01()

"""C07 — observables computed from the network equal their dense definitions; batched fast path = one-by-one path."""
import numpy as np
from hypothesis import strategies as st

from vf.core import Prop, Result, lib_exception_sig
from vf import gen, chain
from vf.props.c04 import builder_instr


@st.composite
def cases(draw, tier):
    spec = draw(chain.chain_model_specs(2, 6, max_dim=128 if tier == "quick" else 256))
    n = len(spec["sites"])
    has_multi_or_dummy = any(s["k"] in ("multi", "dummy") for s in spec["sites"])
    has_qn = any(np.any(gen.site_sigmaqn(spec, i) != 0) for i in range(n))
    allow = ["rand", "rand", "prod"]
    if not has_multi_or_dummy:
        allow.append("gs")
    if not has_qn:
        allow += ["dense", "dense"]
    prog = []
    qsel = draw(st.integers(0, 50))
    for _ in range(draw(st.integers(1, 3))):
        ins = draw(chain.create_instr(spec, tuple(allow)))
        if ins["op"] == "rand":
            ins["q"] = qsel
        prog.append(ins)
    if draw(st.booleans()):
        prog.append(draw(chain.mpo_instr(spec)))
    for _ in range(draw(st.integers(0, 4))):
        k = draw(st.integers(0, 3))
        if k == 3:
            prog.append({"op": "cadd", "a": draw(st.integers(0, 9)), "b": draw(st.integers(0, 9)), "on": "S"})
        elif k == 0:
            prog.append(draw(builder_instr()))
        elif k == 1:
            prog.append(draw(chain.gauge_instr("S")))
        else:
            prog.append({"op": "scale", "a": draw(st.integers(0, 9)), "on": "S",
                         "val": draw(st.sampled_from(chain.SCALARS)), "inplace": draw(st.booleans())})
    if draw(st.integers(0, 2)) == 0:
        # a genuinely complex superposition of two different states of one sector, selected as ket by index -1
        for _ in range(2):
            ins = draw(chain.create_instr(spec, ("rand",)))
            ins["q"] = qsel
            ins["cplx"] = False
            prog.append(ins)
        prog.append({"op": "cadd", "a": -1, "b": -2, "on": "S"})
    # operator pool: neutral operators (all observables keep the sector) built from a small set of per-site symbols
    pool = []
    for _ in range(draw(st.integers(2, 5))):
        if has_qn:
            terms, q = draw(gen.charged_operator(spec, charge=tuple([0] * gen.qn_size(spec)), max_terms=3))
        else:
            terms, _ = draw(gen.term_tables(spec, 1, 3, max_support=3, decades=1))
        pool.append(terms)
    # variants differing at exactly one site from an earlier pool entry
    for _ in range(draw(st.integers(0, 2))):
        base = draw(st.sampled_from(pool))
        t0 = base[0]
        sidx = draw(st.integers(0, n - 1))
        blocks = [b for b, q in gen.site_blocks(spec, sidx) if not any(q)]
        if blocks:
            keep = [list(o) for o in t0["ops"] if o[0] != sidx]
            pool.append([{"f": list(t0["f"]), "ops": keep + [list(p) for p in draw(st.sampled_from(blocks))]}] + base[1:])
    olist = [{"p": draw(st.integers(0, len(pool) - 1)), "form": draw(st.sampled_from(["mpo", "mpo", "op", "opsum"]))}
             for _ in range(draw(st.integers(1, 10 if tier == "quick" else 14)))]
    return {"model": spec, "prog": prog, "pool": pool, "olist": olist, "perm_seed": draw(st.integers(0, 1000)),
            "ket": draw(st.sampled_from([-1, -1, 0, 1, 2, 3])), "bra": draw(st.integers(0, 9)), "use_dm": draw(st.integers(0, 3)) == 0, "dm_apply": draw(st.integers(0, 1))}


def partial_trace_1(t, dims, i):
    """rho_i[a,b] = sum_rest conj(t[..a..]) t[..b..]  ('bra index first' variant; the other variant is its transpose)"""
    n = len(dims)
    m = np.moveaxis(t.reshape(dims), i, 0).reshape(dims[i], -1)
    return m.conj() @ m.T


def partial_trace_2(t, dims, i, j):
    m = np.moveaxis(t.reshape(dims), [i, j], [0, 1]).reshape(dims[i] * dims[j], -1)
    return m.conj() @ m.T


def vn(p):
    p = np.asarray(p, dtype=float)
    p = p[p > 0]
    p = p / p.sum()
    return float(-(p * np.log(p)).sum())


class C07(Prop):
    id = "C07"
    rule = ("Hypothesis draws a model (2-6 sites), a state program (random/product/ground/from_dense states, sums, operator "
            "images, scalings, gauge moves; optionally the MpDm form), a pool of 2-7 neutral operators incl. variants differing at one "
            "site, and a list of 1-14 pool references given as Mpo / Op / OpSum, plus a permutation. Non-trivial = the list has >= 2 "
            "operators sharing at least one identical site tensor, or the ket is complex, or bra != ket, or the state is an MpDm")
    assumptions = ["expectation/RDM routines work on the tensors and ignore the scalar prefactor (DESIGN §3.11)",
                   "self_conj is the already conjugated bra (as BraKetPair.calc_ft passes it): value = sum phi_a O_ab psi_b",
                   "chain RDMs: index convention not documented -> rho or rho^T accepted, the same choice for all RDMs of a case",
                   "entropies use natural logarithm of normalised spectra (calc_vn_entropy)", "tolerance 1e-9*scale"]

    def budget(self, tier):
        return dict(examples=1000, shards=16) if tier == "quick" else dict(examples=60000, shards=16)

    def strategy(self, tier):
        return cases(tier)

    def run_case(self, case):
        from renormalizer.mps import Mpo, MpDm
        from renormalizer.model import OpSum

        r = Result()
        spec = case["model"]
        it = chain.Interp(spec, r, None)
        it.run(case["prog"])
        if r.failures or not it.S:
            return r
        ketreg = it.pick(it.S, case["ket"])
        brareg = it.pick(it.S, case["bra"], same_q_as=ketreg)
        ket = ketreg.obj
        n = it.n
        dims = it.dims
        D = it.D
        is_dm = False
        if case["use_dm"] and D <= 64:
            try:
                ket = MpDm.from_mps(ket.copy())
                is_dm = True
            except Exception as e:  # noqa
                sig, in_lib = lib_exception_sig(e)
                if not in_lib:
                    raise
                r.fail(f"from_mps.{sig}", repr(e))
                return r
        if is_dm and case.get("dm_apply", 0):
            # make the density operator non-diagonal: rho -> O rho with the first (neutral) pool operator
            terms = case["pool"][0]
            m0, sc0 = gen.dense_operator(spec, terms, 0.0, it.bl)
            if np.linalg.norm(m0 @ chain.tensors_dense(ket)) > 1e-6 * sc0 * np.linalg.norm(chain.tensors_dense(ket)):
                cplx0 = any(gen.is_complex_local(spec, t) for t in terms)
                ok, k2 = it.guard("dm_prepare", lambda: Mpo(ket.model, [gen.build_op(spec, t) * (complex(1, 0) if cplx0 else 1.0)
                                                                         for t in terms]).apply(ket))
                if not ok:
                    return r
                ket = k2
                r.classes.append("dm_nondiagonal")
        psi = chain.tensors_dense(ket)  # vector, or matrix for MpDm
        nrm2 = float(np.linalg.norm(psi) ** 2)
        # ---- operators ------------------------------------------------------------------------------------
        dense_pool = []
        scale_pool = []
        for terms in case["pool"]:
            m, sc = gen.dense_operator(spec, terms, 0.0, it.bl)
            dense_pool.append(m)
            scale_pool.append(sc)
        model = ket.model
        # an operator whose terms cancel completely is the zero operator: not a valid Mpo input (DESIGN §3.4)
        olist = [e for e in case["olist"] if np.linalg.norm(dense_pool[e["p"]]) > 1e-12 * scale_pool[e["p"]]]
        if not olist:
            r.rejected = "all drawn operators vanish"
            return r
        case = dict(case, olist=olist)

        def make(entry):
            terms = case["pool"][entry["p"]]
            cplx = any(gen.is_complex_local(spec, t) for t in terms)
            ops = [gen.build_op(spec, t) * (complex(1, 0) if cplx else 1.0) for t in terms]
            if entry["form"] == "mpo":
                return Mpo(model, ops)
            if entry["form"] == "op" and len(ops) == 1:
                return ops[0]
            return OpSum(ops)

        def dense_expect(m, bra_c=None):
            if is_dm:
                return np.trace(psi.conj().T @ m @ psi) if bra_c is None else np.sum(bra_c * (m @ psi))
            return psi.conj() @ (m @ psi) if bra_c is None else bra_c @ (m @ psi)

        try:
            objs = [make(e) for e in case["olist"]]
        except Exception as e:  # noqa
            sig, in_lib = lib_exception_sig(e)
            if not in_lib:
                raise
            r.fail(f"operator_build.{sig}", repr(e))
            return r
        refs = np.array([dense_expect(dense_pool[e["p"]]) for e in case["olist"]])
        scales = np.array([scale_pool[e["p"]] * nrm2 for e in case["olist"]])
        tolv = 1e-9 * scales + 1e-13
        shared = len({e["p"] for e in case["olist"]}) < len(case["olist"]) or len(case["pool"]) > len({str(p) for p in case["pool"]})
        cplx_state = bool(np.iscomplexobj(psi) and np.max(np.abs(psi.imag)) > 1e-12)
        bra_differs = brareg is not ketreg and not is_dm
        r.nontrivial = (len(case["olist"]) >= 2 and shared) or cplx_state or bra_differs or is_dm
        r.classes += [f"nops={min(len(objs), 12)}", "dm" if is_dm else "mps"] + (["complex_state"] if cplx_state else []) + \
                     (["bra!=ket"] if bra_differs else []) + (["shared_ops"] if shared else [])

        def cmp_vec(sig, got, ref, tol, what):
            got = np.asarray(got, dtype=complex).reshape(-1)
            ref = np.asarray(ref, dtype=complex).reshape(-1)
            r.subchecks += 1
            if got.shape != ref.shape:
                r.fail(sig, f"{what}: shape {got.shape} vs {ref.shape}")
                return False
            # documented: "returns a float if the imaginary part is negligible" - the code's notion of negligible is
            # np.isclose(imag, 0) / np.allclose(imag, 0), i.e. an absolute 1e-8: a returned real value may hide that much
            slack = np.where((got.imag == 0) | (ref.imag == 0), 1.0000001e-8, 0.0)
            dim = np.maximum(np.abs(got.imag - ref.imag) - slack, 0.0)
            err = np.hypot(got.real - ref.real, dim)
            ratio = float(np.max(err / tol)) if len(err) else 0.0
            r.resid(sig, ratio, 1.0)
            if not ratio <= 1.0:
                k = int(np.argmax(err / tol))
                r.fail(sig, f"{what}: entry {k} got {got[k]} ref {ref[k]} tol {tol[k]:.2e} trace={it.trace[-5:]}")
                return False
            return True

        # one by one
        ok, single = it.guard("expectation", lambda: [ket.expectation(o) for o in objs])
        if ok:
            cmp_vec("expectation", single, refs, tolv, "expectation(O) vs dense")
            for v, ref, t in zip(single, refs, tolv):
                if abs(ref.imag) > 1e-7 + 1e3 * t:
                    r.check("expectation.return_type", isinstance(v, complex), f"imaginary part {ref.imag} dropped: returned {v!r}")
                elif abs(ref.imag) < 1e-9 - t:
                    r.check("expectation.return_type_float", isinstance(v, float), f"negligible imaginary part but returned {v!r}")
        # batched fast path, slow path, permutation equivariance
        ok, fast = it.guard("expectations.opt", lambda: ket.expectations(objs))
        if ok:
            cmp_vec("expectations.opt_vs_dense", fast, refs, tolv, "expectations(list) vs dense")
            if single is not None:
                cmp_vec("expectations.opt_vs_single", fast, single, tolv, "fast path vs one-by-one")
        ok, slow = it.guard("expectations.noopt", lambda: ket.expectations(objs, opt=False))
        if ok:
            cmp_vec("expectations.noopt_vs_dense", slow, refs, tolv, "expectations(opt=False) vs dense")
        perm = np.random.default_rng(case["perm_seed"]).permutation(len(objs))
        ok, fastp = it.guard("expectations.perm", lambda: ket.expectations([objs[k] for k in perm]))
        if ok:
            cmp_vec("expectations.permuted", fastp, refs[perm], tolv[perm], "expectations(permuted list)")
        # bra != ket (already-conjugated bra object)
        if not is_dm and brareg is not None:
            bra = brareg.obj
            phic = chain.tensors_dense(bra)
            refs_b = np.array([dense_expect(dense_pool[e["p"]], phic) for e in case["olist"]])
            sc_b = np.array([scale_pool[e["p"]] for e in case["olist"]]) * np.linalg.norm(phic) * np.linalg.norm(psi)
            ok, tb = it.guard("expectation.bra", lambda: [ket.expectation(o, bra) for o in objs])
            if ok:
                cmp_vec("expectation.bra", tb, refs_b, 1e-9 * sc_b + 1e-13, "expectation(O, self_conj=bra)")
            ok, tb2 = it.guard("expectations.bra", lambda: ket.expectations(objs, self_conj=bra))
            if ok:
                cmp_vec("expectations.bra", tb2, refs_b, 1e-9 * sc_b + 1e-13, "expectations(list, self_conj=bra)")
        if is_dm:
            # reduced density matrices of the PHYSICAL sites of a density operator in matrix-product form: the MpDm is a pure state
            # on physical x auxiliary indices; tracing the auxiliary half and the other sites gives rho_i / rho_ij
            dd = list(dims) + list(dims)
            tdm = np.asarray(psi).reshape(-1)
            tol = 1e-9 * nrm2 + 1e-13
            orient = None
            ent1, ent2 = {}, {}
            ok, rdm1 = it.guard("dm.calc_1site_rdm", ket.calc_1site_rdm)
            if ok:
                for i in range(n):
                    if i not in rdm1:
                        r.fail("dm.calc_1site_rdm.keys", f"site {i} missing: {sorted(rdm1.keys())}")
                        continue
                    ref = partial_trace_1(tdm, dd, i)
                    got = np.asarray(rdm1[i])
                    if orient is None and got.shape == ref.shape and not np.allclose(ref, ref.T, atol=1e-9 * nrm2):
                        orient = "T" if np.max(np.abs(got - ref.T)) < np.max(np.abs(got - ref)) else "N"
                    r.check_close("dm.calc_1site_rdm", got, ref.T if orient == "T" else ref, tol,
                                  f"density operator, physical site {i} (orientation {orient}) trace={it.trace[-5:]}")
                    ent1[i] = vn(np.clip(np.linalg.eigvalsh((ref + ref.conj().T) / 2), 0, None)) if nrm2 > 0 else 0.0
            if n >= 2 and D <= 16:
                ok, rdm2 = it.guard("dm.calc_2site_rdm", ket.calc_2site_rdm)
                if ok:
                    for (i, j) in [(a, b) for a in range(n) for b in range(a + 1, n)]:
                        if (i, j) not in rdm2:
                            continue
                        ref = partial_trace_2(tdm, dd, i, j)
                        got = np.asarray(rdm2[(i, j)])
                        if orient is None and got.shape == ref.shape and not np.allclose(ref, ref.T, atol=1e-9 * nrm2):
                            orient = "T" if np.max(np.abs(got - ref.T)) < np.max(np.abs(got - ref)) else "N"
                        r.check_close("dm.calc_2site_rdm", got, ref.T if orient == "T" else ref, tol,
                                      f"density operator, physical sites {(i, j)} (orientation {orient})")
                        ent2[(i, j)] = vn(np.clip(np.linalg.eigvalsh((ref + ref.conj().T) / 2), 0, None))
            ok, e1 = it.guard("dm.calc_entropy.1site", ket.calc_entropy, "1site")
            if ok and ent1:
                r.check_close("dm.calc_entropy.1site", [e1.get(i, np.nan) for i in range(n)], [ent1[i] for i in range(n)], 1e-7,
                              "1-site entropies of a density operator")
            r.classes.append("dm.rdm")
            return r
        # ---- occupations ----------------------------------------------------------------------------------------
        kinds = [s["k"] for s in spec["sites"]]
        probs_dense = np.abs(psi) ** 2
        if any(k in ("elec", "mvac", "multi") for k in kinds):
            ref = []
            t = probs_dense.reshape(dims)
            for i, s in enumerate(spec["sites"]):
                if s["k"] not in ("elec", "mvac", "multi"):
                    continue
                marg = t.sum(axis=tuple(k for k in range(n) if k != i))
                if s["k"] == "elec":
                    ref.append(marg[1])
                elif s["k"] == "mvac":
                    ref.extend(list(marg[1:]))
                else:
                    ref.extend(list(marg))
            # twice: the second call goes through the per-model operator cache
            for rep in range(2):
                ok, occ = it.guard("e_occupations", lambda: ket.e_occupations)
                if ok:
                    cmp_vec(f"e_occupations.call{rep}", occ, ref, np.full(len(ref), 1e-9 * nrm2 + 1e-13), "e_occupations vs dense")
            y = ket.copy()
            ok, occ = it.guard("e_occupations.copy", lambda: y.e_occupations)
            if ok:
                cmp_vec("e_occupations.on_copy", occ, ref, np.full(len(ref), 1e-9 * nrm2 + 1e-13), "e_occupations on a copy (model cache)")
            # BasisMultiElectron has no single ladder operators: a^dagger_i a_j across sites is refused there
            ok, rdm = (False, None) if "multi" in kinds else it.guard("calc_edof_rdm", ket.calc_edof_rdm)
            if ok:
                r.check_close("calc_edof_rdm.diagonal", np.real(np.diag(np.asarray(rdm))), np.array(ref), 1e-9 * nrm2 + 1e-13,
                              "diagonal of the electronic RDM = occupations")
                r.check_close("calc_edof_rdm.hermitian", np.asarray(rdm), np.asarray(rdm).conj().T, 1e-9 * nrm2 + 1e-13, "edof rdm hermitian")
                self.check_edof_offdiag(r, it, spec, psi, np.asarray(rdm), nrm2)
        ph_sites = [i for i, s in enumerate(spec["sites"]) if s["k"] in ("sho", "sine", "hops")]
        if ph_sites and all(spec["sites"][i]["k"] == "sho" for i in ph_sites):
            t = probs_dense.reshape(dims)
            ref = []
            for i in ph_sites:
                marg = t.sum(axis=tuple(k for k in range(n) if k != i))
                ref.append(float(np.sum(marg * np.arange(dims[i]))))
            ok, occ = it.guard("ph_occupations", lambda: ket.ph_occupations)
            if ok:
                cmp_vec("ph_occupations", occ, ref, np.full(len(ref), 1e-9 * nrm2 * max(dims) + 1e-13), "ph_occupations vs dense")
        # ---- reduced density matrices and entropies -------------------------------------------------------------------
        ok, rdm1 = it.guard("calc_1site_rdm", ket.calc_1site_rdm)
        orient = None
        tol = 1e-9 * nrm2 + 1e-13
        ent1 = {}
        if ok:
            r.check("calc_1site_rdm.keys", sorted(rdm1.keys()) == list(range(n)), f"keys {sorted(rdm1.keys())}")
            for i in range(n):
                if i not in rdm1:
                    continue
                ref = partial_trace_1(psi, dims, i)
                got = np.asarray(rdm1[i])
                if orient is None and not np.allclose(ref, ref.T, atol=1e-9 * nrm2):
                    if got.shape == ref.shape:
                        orient = "T" if np.max(np.abs(got - ref.T)) < np.max(np.abs(got - ref)) else "N"
                refo = ref.T if orient == "T" else ref
                r.check_close("calc_1site_rdm", got, refo, tol, f"site {i} (orientation {orient}) trace={it.trace[-5:]}")
                ent1[i] = vn(np.clip(np.linalg.eigvalsh((ref + ref.conj().T) / 2), 0, None)) if nrm2 > 0 else 0.0
            ok, sub = it.guard("calc_1site_rdm.idx", ket.calc_1site_rdm, [0, n - 1])
            if ok:
                r.check("calc_1site_rdm.idx.keys", sorted(sub.keys()) == sorted({0, n - 1}), f"keys {sorted(sub.keys())}")
        ent2 = {}
        ok, rdm2 = it.guard("calc_2site_rdm", ket.calc_2site_rdm)
        if ok:
            want = [(i, j) for i in range(n) for j in range(i + 1, n)]
            r.check("calc_2site_rdm.keys", sorted(rdm2.keys()) == want, f"keys {sorted(rdm2.keys())}")
            for (i, j) in want:
                if (i, j) not in rdm2:
                    continue
                ref = partial_trace_2(psi, dims, i, j)
                refo = ref.T if orient == "T" else ref
                got = np.asarray(rdm2[(i, j)])
                if orient is None and got.shape == ref.shape and not np.allclose(ref, ref.T, atol=1e-9 * nrm2):
                    orient = "T" if np.max(np.abs(got - ref.T)) < np.max(np.abs(got - ref)) else "N"
                    refo = ref.T if orient == "T" else ref
                r.check_close("calc_2site_rdm", got, refo, tol, f"sites {(i, j)} (orientation {orient}) trace={it.trace[-5:]}")
                ent2[(i, j)] = vn(np.clip(np.linalg.eigvalsh((ref + ref.conj().T) / 2), 0, None))
        etol = 1e-7
        ok, e1 = it.guard("calc_entropy.1site", ket.calc_entropy, "1site")
        if ok and ent1:
            r.check_close("calc_entropy.1site", [e1.get(i, np.nan) for i in range(n)], [ent1[i] for i in range(n)], etol, "1-site entropies")
        ok, e2 = it.guard("calc_entropy.2site", ket.calc_entropy, "2site")
        if ok and ent2:
            keys = sorted(ent2)
            r.check_close("calc_entropy.2site", [e2.get(k, np.nan) for k in keys], [ent2[k] for k in keys], etol, "2-site entropies")
        ok, mi = it.guard("calc_entropy.mutual", ket.calc_entropy, "mutual")
        if ok and ent1 and ent2:
            ref = np.zeros((n, n))
            for (i, j), v in ent2.items():
                ref[i, j] = ref[j, i] = (ent1[i] + ent1[j] - v) / 2
            r.check_close("calc_entropy.mutual", np.asarray(mi), ref, etol, "mutual information (s_i+s_j-s_ij)/2")
        # bond spectra / entropies (left to right)
        spectra = []
        for c in range(1, n):
            spectra.append(np.linalg.svd(psi.reshape(int(np.prod(dims[:c])), -1), compute_uv=False))
        ok, sv = it.guard("calc_bond_singular_values", ket.calc_bond_singular_values)
        if ok:
            sv = np.asarray(sv)
            if r.check("calc_bond_singular_values.shape", sv.ndim == 2 and sv.shape[0] == n - 1, f"shape {sv.shape}"):
                for c in range(n - 1):
                    got = np.sort(sv[c])[::-1]
                    ref = spectra[c]
                    m = max(len(got), len(ref))
                    r.check_close("calc_bond_singular_values", np.pad(got, (0, m - len(got))), np.pad(ref, (0, m - len(ref))),
                                  1e-9 * np.sqrt(nrm2) + 1e-13, f"bond {c + 1}")
        ok, be = it.guard("calc_bond_entropy", ket.calc_bond_entropy)
        if ok:
            r.check_close("calc_bond_entropy", np.asarray(be), [vn(s ** 2) for s in spectra], etol, "bond entropies")
        ok, be2 = it.guard("calc_entropy.bond", ket.calc_entropy, "bond")
        if ok:
            r.check_close("calc_entropy.bond", np.asarray(be2), [vn(s ** 2) for s in spectra], etol, "calc_entropy('bond')")
        # measuring must not have changed the state
        r.check_close("state_unchanged", chain.tensors_dense(ket), psi, 1e-12 * max(np.sqrt(nrm2), 1e-300) + 1e-15, "state after all measurements")
        return r

    def check_edof_offdiag(self, r, it, spec, psi, rdm, nrm2):
        """rho_ij = <psi| a_i^dagger a_j |psi> from harness-built single-excitation ladder matrices (documented for
        single-electron systems, no fermionic signs)"""
        dims = it.dims
        n = it.n
        # per electronic dof: (site, raise matrix)
        edofs = []
        for i, s in enumerate(spec["sites"]):
            d = dims[i]
            if s["k"] == "elec":
                m = np.zeros((d, d)); m[1, 0] = 1
                edofs.append((i, m, None))
            elif s["k"] == "mvac":
                for j in range(s["n"]):
                    m = np.zeros((d, d)); m[j + 1, 0] = 1
                    edofs.append((i, m, j + 1))
            elif s["k"] == "multi":
                for j in range(s["n"]):
                    edofs.append((i, None, j))
        if any(e[1] is None for e in edofs) or len(edofs) != rdm.shape[0]:
            return  # BasisMultiElectron has no single-ladder matrices: only the diagonal is checked
        eyes = [np.eye(d) for d in dims]
        ref = np.zeros((len(edofs), len(edofs)), dtype=complex)
        for a, (ia, ma, _) in enumerate(edofs):
            for b, (ib, mb, _) in enumerate(edofs):
                mats = list(eyes)
                if ia == ib:
                    mats[ia] = ma @ mb.T
                else:
                    mats[ia] = ma
                    mats[ib] = mb.T
                ref[a, b] = psi.conj() @ (gen.kron_all(mats) @ psi)
        if np.max(np.abs(ref.imag)) > 1e-6 * nrm2:
            r.classes.append("edof_rdm.complex_offdiagonal")
        r.check_close("calc_edof_rdm", rdm, ref, 1e-9 * nrm2 + 1e-13, "electronic RDM <a_i^dagger a_j>")

    def sample_view(self, case):
        return {"sites": [s["k"] for s in case["model"]["sites"]], "qnmode": case["model"].get("qnmode"),
                "prog": [{k: v for k, v in i.items() if k != "terms"} for i in case["prog"]],
                "olist": case["olist"], "pool_sizes": [len(p) for p in case["pool"]], "use_dm": case["use_dm"]}


PROP = C07()

"""C18 — numerical kernels meet their contracts on every admissible input.

(a) ``renormalizer.lib.expm_krylov(Afunc, dt, v, block_size)`` against the dense eigendecomposition
    ``exp(dt A) v`` for Hermitian A with structured spectra, all signs/phases of dt, structured start
    vectors and block sizes 2..50 (buffer growth when the dimension exceeds the block).
(b) ``renormalizer.mps.svd_qn``: ``svd_qn`` (SVD / QR, economic / full / optimised-full), ``eigh_qn``,
    ``blockrecover``, ``add_outer``, ``get_qn_mask`` and ``renormalizer.mps.lib.select_basis`` on generated
    coefficient arrays with generated quantum-number label arrays on both sides.

Calling conventions are those of the in-repo callers (mp.py ``compress/_push_cano/_update_mps``, mps.py
``_evolve_tdvp_ps*``/VMF/CMF, gs.py, tn/tree.py ``decompose_to_*``/``compress_node``/``update_2site``,
tn/time_evolution.py): label arrays are integer arrays of shape (..., qn_size) built with ``add_outer``, the
coefficient array is any array that reshapes to (prod(left dims), prod(right dims)), ``qntot`` is a 1-D integer
array, dt arrives as float, as complex with zero imaginary part (``-1j * (-1j*beta) / 2``) or purely imaginary.
"""
import math

import numpy as np
from hypothesis import strategies as st

from vf.core import Prop, Result, lib_exception_sig

# ------------------------------------------------------------------------------------------------
# tolerances (stated + justified; calibration numbers in the evidence file, worst_residuals)
# ------------------------------------------------------------------------------------------------
# Krylov: the routine stops when two successive even iterates satisfy numpy.allclose, i.e. element-wise
# |new-old| <= 1e-8 + 1e-5*|new|.  2-norm version of exactly that rule:
KRY_RTOL = 1e-5
KRY_ATOL = 1e-8  # times sqrt(n)
# blocked decompositions are direct LAPACK factorizations of the gathered blocks: identities of exact
# arithmetic -> 1e-10 * scale (observed <= 1e-14 * scale), scale = max |entry| * sqrt(size) >= Frobenius norm
DEC_RTOL = 1e-10
ORTHO_TOL = 1e-10

SPECTRA = ["generic", "psd", "diagonal", "few", "rankdef", "zero", "clustered", "tridiag", "gapped"]
STARTS = ["generic", "invariant", "eigvec", "near_invariant", "unit"]
PHASES = ["+t", "-t", "+it", "-it"]


# ------------------------------------------------------------------------------------------------
# strategies
# ------------------------------------------------------------------------------------------------

def _logfloat(lo, hi):
    """log-uniform float with 3 significant digits (keeps the specs readable / shrinkable)"""
    return st.integers(0, 1000).map(lambda k: float(f"{lo * (hi / lo) ** (k / 1000.0):.3g}"))


@st.composite
def krylov_cases(draw, tier):
    big = tier == "thorough"
    nmax = 300 if big else 60
    # dimension: small ones often (full-space exit, block growth with block 2..5), a tail of large ones
    ncls = draw(st.sampled_from(["mid", "small", "large", "mid", "small", "tiny"]))
    lo, hi = {"tiny": (1, 3), "small": (4, 12), "mid": (13, 40), "large": (41, nmax)}[ncls]
    n = draw(st.integers(0, hi - lo).map(lambda k: hi - k))  # minimal draw = upper end of the class
    block = draw(st.sampled_from([3, 2, 5, 10, 50, 30, 7, 4, 20, 13, 50]))
    spectrum = draw(st.sampled_from(SPECTRA + ["generic", "few", "clustered", "gapped"]))
    start = draw(st.sampled_from(STARTS + ["generic", "invariant"]))
    cplx = draw(st.booleans())
    spec = {
        "kind": "krylov",
        "n": n,
        "block": block,
        "spectrum": spectrum,
        "cplx": cplx,
        "normA": draw(_logfloat(1e-2, 1e2)),
        "x": draw(st.one_of(_logfloat(0.01, 8.0), st.sampled_from([0.01, 1.0, 4.0, 8.0]))),
        "phase": draw(st.sampled_from(PHASES)),
        "dt_form": draw(st.sampled_from(["py", "cplx0", "np"])),
        "start": start,
        "sub_dim": draw(st.integers(1, 3)),
        "eps_exp": draw(st.sampled_from([6, 5.5, 3, 5, 9, 12, 14])),
        "v_real": draw(st.booleans()),
        "vnorm": draw(st.sampled_from([1.0, 1.0, 0.1, 0.3, 5.0, 10.0, 100.0])),
        # gapped spectra only: ||A|| |dt| up to 24, so that exp(dt A) v is many decades smaller / larger than v (thermal steps)
        "xmul": draw(st.sampled_from([1, 3, 2, 1])),
        "k_distinct": draw(st.integers(1, 4)),
        "rank": draw(st.integers(1, 5)),
        "width_exp": draw(st.sampled_from([2, 4, 6, 8, 10, 13])),
        "rng": draw(st.integers(0, 2 ** 31 - 1)),
    }
    return spec


def _qvec(q, lo=-2, hi=3):
    return st.lists(st.integers(lo, hi), min_size=q, max_size=q)


@st.composite
def label_specs(draw, max_side=12, allow_nomatch=True):
    """quantum-number labels of both sides + qntot.  A side is a list of 1-2 'parts' (each a list of
    q-vectors); the big label array is the outer sum of the parts (what ``add_outer`` builds in the callers).
    (Hypothesis zero-extends examples, so every draw is arranged such that its minimal value is a useful one.)"""
    q = draw(st.sampled_from([1, 2, 1, 2, 1]))
    layout = draw(st.sampled_from(["flat", "outer", "flat", "flat"]))
    modes = ["mixed"] * 10 + ["matched_only"] * 2 + (["nomatch", "random"] if allow_nomatch else [])
    mode = draw(st.sampled_from(modes))
    qntot = draw(_qvec(q, -1, 3))
    if layout == "flat":
        npool = draw(st.sampled_from([3, 2, 4, 1, 2]))
        pool = draw(st.lists(_qvec(q, -2, 1), min_size=npool, max_size=npool))
        if draw(st.sampled_from([True, True, False])):
            pool = [[v[0] + k % 3] + [x + k // 3 for x in v[1:]] for k, v in enumerate(pool)]  # mostly distinct labels
        sizes = [s for s in [4, 2, 6, 3, 1, 5, 9, 7, 8, 12, 16, 24] if s <= max_side]
        nl = draw(st.sampled_from(sizes))
        nr = draw(st.sampled_from(sizes))
        lidx = draw(st.lists(st.integers(0, len(pool) - 1), min_size=nl, max_size=nl))
        left = [list(pool[(i + k) % len(pool)]) for k, i in enumerate(lidx)]  # all-zero draws cycle through the pool
        right = []
        for k in range(nr):
            if mode == "mixed":
                matched = draw(st.integers(0, 3)) < 3 or (k == 0 and not allow_nomatch)
            else:
                matched = mode in ("matched_only", "nomatch")
            if matched:
                # partner of a label that is actually present on the left (index into the left list)
                if draw(st.integers(0, 4)) < 4 or not allow_nomatch:
                    p = left[(k + draw(st.integers(0, nl - 1))) % nl]
                else:
                    p = pool[draw(st.integers(0, len(pool) - 1))]
                lab = [t - a for t, a in zip(qntot, p)]
                if mode == "nomatch":
                    lab = [x + 7 for x in lab]  # qntot - lab = p - 7 is outside the left label range
            else:
                lab = draw(_qvec(q, -3, 4))
            right.append(lab)
        L = [left]
        R = [right]
    else:
        # chain-like: left = bond labels (+) physical labels, right = [physical (+)] (qntot - bond labels)
        la = draw(st.sampled_from([2, 3, 1, 4]))
        sa = draw(st.sampled_from([2, 1, 3]))
        lb = draw(st.sampled_from([2, 3, 1, 4]))
        sb = draw(st.sampled_from([0, 2, 1, 3]))
        ql = draw(st.lists(_qvec(q, 0, 2), min_size=la, max_size=la))
        sig = draw(st.lists(_qvec(q, 0, 1), min_size=sa, max_size=sa))
        sig2 = draw(st.lists(_qvec(q, 0, 1), min_size=sb, max_size=sb)) if sb else None
        qb = []
        for k in range(lb):
            if mode == "random" or (mode == "mixed" and draw(st.integers(0, 3)) == 3 and not (k == 0 and not allow_nomatch)):
                tgt = draw(_qvec(q, 0, 3))
            else:
                # a left sum that really occurs (minus a physical label of the right part): guaranteed partner
                a = ql[(k + draw(st.integers(0, la - 1))) % la]
                b = sig[(k + draw(st.integers(0, sa - 1))) % sa]
                tgt = [x + y for x, y in zip(a, b)]
                if mode == "nomatch":
                    tgt = [x - 9 for x in tgt]
            lab = [t - x for t, x in zip(qntot, tgt)]
            if sig2 is not None:
                c = sig2[draw(st.integers(0, sb - 1))]
                lab = [x - y for x, y in zip(lab, c)]
            qb.append(lab)
        L = [ql, sig]
        R = [sig2, qb] if sig2 is not None else [qb]
    return {"q": q, "qntot": qntot, "L": L, "R": R}


CONTENTS = ["generic", "generic", "masked", "lowrank", "zeroblock", "ones", "intvals"]


@st.composite
def svd_cases(draw, tier):
    rng = draw(st.integers(0, 2 ** 31 - 1))
    QR = draw(st.sampled_from([False, True, False]))
    spec = {
        "kind": "svd",
        "QR": QR,
        "system": draw(st.sampled_from(["L", "R"] if QR else ["L", "R", None])),
        "full": draw(st.sampled_from([True, False])),
        "opt": draw(st.sampled_from([True, False])),
        "use_defaults": draw(st.integers(0, 5)) == 5,
        "content": draw(st.sampled_from(CONTENTS)),
        "cplx": draw(st.integers(0, 2)) == 2,
        "scale_exp": draw(st.sampled_from([0, 0, 0, -3, 3])),
        "tensor_shape": draw(st.booleans()),
        "m_extra": draw(st.integers(0, 3)),
        "rng": rng,
    }
    big = draw(st.integers(0, 3)) == 0  # larger sides: unbalanced sectors (add_orthonormal_basis) become frequent
    spec["labels"] = draw(label_specs((24 if tier == "thorough" else 16) if big else 8))
    return spec


@st.composite
def davidson_cases(draw, tier):
    return {"kind": "davidson", "n": draw(st.integers(2, 40 if tier == "quick" else 120)), "rng": draw(st.integers(0, 2 ** 31 - 1)),
            "cplx": draw(st.booleans()), "offdiag": draw(st.sampled_from([0.0, 0.0, 1e-6, 0.05, 0.5])),
            "diag": draw(st.sampled_from(["generic", "positive", "degenerate"])), "scale_exp": draw(st.sampled_from([0, 0, -3, 3]))}


@st.composite
def eigh_cases(draw, tier):
    spec = {
        "kind": "eigh",
        "rng": draw(st.integers(0, 2 ** 31 - 1)),
        "system": draw(st.sampled_from(["L", "R"])),
        "dm": draw(st.sampled_from(["physical", "physical_lowrank", "generic", "physical"])),
        "nstates": draw(st.integers(1, 3)),
        "cplx": draw(st.integers(0, 3)) == 3,
        "scale_exp": draw(st.sampled_from([0, 0, -3, 3, -18, -12, 8])),
        "tensor_shape": draw(st.booleans()),
    }
    spec["labels"] = draw(label_specs(10, allow_nomatch=False))
    return spec


@st.composite
def select_cases(draw, tier):
    q = draw(st.sampled_from([1, 1, 2]))
    n = draw(st.integers(1, 12))
    pool = draw(st.lists(_qvec(q), min_size=1, max_size=4))
    labels = [list(pool[draw(st.integers(0, len(pool) - 1))]) for _ in range(n)]
    return {
        "kind": "select",
        "rows": draw(st.integers(1, 8)),
        "labels": labels,
        "svals": draw(st.sampled_from(["distinct", "ties", "zeros_tail", "all_equal"])),
        "Mmax": draw(st.integers(1, n + 2)),
        "percent": draw(st.sampled_from([0, 0, 0.2, 0.5, 1.0])),
        "comp": draw(st.sampled_from(["none", "same", "fewer_cols", "more_cols", "self"])),
        "comp_rows": draw(st.integers(1, 6)),
        "labels_as": draw(st.sampled_from(["list", "tuple", "array"])),
        "cplx": draw(st.booleans()),
        "rng": draw(st.integers(0, 2 ** 31 - 1)),
    }


@st.composite
def util_cases(draw, tier):
    sub = draw(st.sampled_from(["blockrecover", "add_outer", "qn_mask"]))
    q = draw(st.sampled_from([1, 2, 2, 3]))
    spec = {"kind": "util", "sub": sub, "q": q, "rng": draw(st.integers(0, 2 ** 31 - 1))}
    if sub == "blockrecover":
        dim = draw(st.integers(1, 12))
        k = draw(st.integers(0, dim))
        perm = draw(st.permutations(list(range(dim))))
        spec.update(dim=dim, indices=sorted(perm[:k]) if draw(st.booleans()) else list(perm[:k]),
                    cols=draw(st.integers(0, 5)), cplx=draw(st.booleans()),
                    idx_as=draw(st.sampled_from(["list", "array"])))
    elif sub == "add_outer":
        spec.update(a_shape=draw(st.lists(st.integers(1, 3), min_size=0, max_size=2)),
                    b_shape=draw(st.lists(st.integers(1, 3), min_size=0, max_size=2)))
    else:
        spec.update(shape=draw(st.lists(st.integers(1, 4), min_size=0, max_size=3)),
                    qntot=draw(_qvec(q, 0, 1)), tot_as=draw(st.sampled_from(["list", "tuple", "array"])))
    return spec


# ------------------------------------------------------------------------------------------------
# harness-side helpers (independent of the library)
# ------------------------------------------------------------------------------------------------

def outer_sum(parts, q):
    """big label array (n1, n2, ..., q): sum over one entry of each part (reference for add_outer)"""
    big = np.zeros((q,), dtype=int)
    for p in parts:
        a = np.array(p, dtype=int).reshape(len(p), q)
        big = big.reshape(big.shape[:-1] + (1,) * 1 + (q,)) + a.reshape((1,) * (big.ndim - 1) + (len(p), q))
    return big


def side_labels(lab, side):
    q = lab["q"]
    big = outer_sum(lab[side], q)
    return big, big.reshape(-1, q)


def qn_mask(Lf, Rf, qntot):
    return np.all(Lf[:, None, :] + Rf[None, :, :] == np.array(qntot, dtype=int)[None, None, :], axis=-1)


def make_content(kind, mask, cplx, scale, rng):
    nL, nR = mask.shape

    def rnd(*shape):
        x = rng.standard_normal(shape)
        if cplx:
            x = x + 1j * rng.standard_normal(shape)
        return x

    if kind in ("generic", "masked", "zeroblock"):
        M = rnd(nL, nR)
    elif kind == "lowrank":
        M = np.outer(rnd(nL), rnd(nR))
        if rng.integers(2):
            M = M + np.outer(rnd(nL), rnd(nR))
    elif kind == "ones":
        M = np.ones((nL, nR)) * (1 + 0j if cplx else 1.0)
    elif kind == "intvals":
        M = rng.integers(-2, 3, size=(nL, nR)).astype(complex if cplx else float)
    else:
        raise ValueError(kind)
    if kind == "masked":
        M = M * mask
    return M * scale


def as_label_array(x, q):
    """normalise whatever the library returns as label list (tuples, arrays, lists) to an int array (k, q)"""
    if len(x) == 0:
        return np.zeros((0, q), dtype=int)
    return np.array([np.asarray(t).reshape(-1) for t in x]).reshape(len(x), -1)


def sectors(Lf, Rf, qntot):
    """list of (label tuple, lset, rset) for the sectors populated on both sides"""
    qntot = np.array(qntot, dtype=int)
    out = []
    for nl in sorted({tuple(int(v) for v in t) for t in Lf}):
        lset = np.where(np.all(Lf == np.array(nl), axis=-1))[0]
        rset = np.where(np.all(Rf == qntot - np.array(nl), axis=-1))[0]
        out.append((nl, lset, rset))
    return out


# ------------------------------------------------------------------------------------------------

class C18(Prop):
    id = "C18"
    rule = ("Hypothesis draws one of: (a) krylov case = (dimension 1-60 [thorough 300], spectrum class generic/psd/gapped/diagonal/"
            "few distinct/rank-deficient/zero/clustered/tridiagonal, real|complex Hermitian A, ||A|| in [1e-2,1e2], "
            "||A|||dt| in [0.01,8], dt in {+t,-t,+it,-it} passed as float / complex-with-zero-imag / numpy scalar, start vector "
            "generic / in an invariant subspace of dim 1-3 / eigenvector / near-invariant (eps 1e-3..1e-14) / unit vector, real or "
            "complex, ||v|| in [0.1,10], block size 2-50), non-trivial when dimension > block size or the start lies in (or "
            "near) an invariant subspace or the spectrum is degenerate/rank-deficient/clustered; (b) svd case = (labels with "
            "1-2 components on both sides: flat with repeated labels from a small pool / chain-like outer sums; right labels "
            "matched, arbitrary or guaranteed unmatched; coefficient content generic/masked/low-rank/zero blocks/ties; "
            "real|complex; SVD|QR, system L|R|None, full_matrices, opt_full_matrices), non-trivial when >=2 distinct left "
            "labels and at least one sector is one-sided; (c) eigh_qn on physical / generic density matrices; (d) "
            "select_basis (ties, zeros, percent, complementary set shapes); (e) blockrecover / add_outer / get_qn_mask")
    assumptions = [
        "reference exp(dt A)v from numpy.linalg.eigh of the dense Hermitian matrix handed to the closure",
        "Krylov tolerance = 2-norm form of the routine's own stopping rule: 1e-5*||ref|| + 1e-8*sqrt(n)",
        "symmetry mask = (label_left + label_right == qntot) computed by the harness with plain numpy",
        "blocked decompositions: 1e-10*scale, scale = max|entry|*sqrt(size) (exact-arithmetic identities of LAPACK factorizations)",
        "full-matrices QR mode: the product over ALL returned column pairs restores the masked input (no singular values exist "
        "to mark the padding columns); SVD full mode: the first K=sum min(m_i,n_i) column pairs restore it and the rest have s=0",
        "opt_full_matrices: only 'at least one extra orthonormal column when the sector has room' is demanded (the docstring calls the number empirical)",
        "eigh_qn is only called with at least one matched sector (an all-forbidden density matrix is refused with ValueError: counted as rejected)",
        "select_basis oracle is tie-robust: multiset of selected singular values, per-label 'largest first', per-label quota",
    ]

    known_matchers = {
        # F18 (repaired in /repo by c84bc08, kept as a separate signature so that a regression is named precisely):
        # expm_krylov allocated the Lanczos basis with the dtype of the start vector; a real start vector with a complex
        # Hermitian A silently dropped the imaginary parts (numpy ComplexWarning) and returned a wrong vector
        "F18": lambda spec, sig, msg: sig.startswith("krylov.real_start_complex_A.") and spec.get("kind") == "krylov"
        and spec.get("cplx") and spec.get("v_real"),
    }

    def fuzz(self, tier):
        # millisecond cases: libFuzzer mutates the byte stream behind the strategy and keeps inputs reaching new library branches
        return dict(runs=400 if tier == "quick" else 20000, shards=8 if tier == "quick" else 16, include=["renormalizer.lib", "renormalizer.mps.svd_qn"])

    def budget(self, tier):
        return dict(examples=6400, shards=16) if tier == "quick" else dict(examples=260000, shards=16)

    def strategy(self, tier):
        return st.one_of(
            krylov_cases(tier), krylov_cases(tier), krylov_cases(tier),
            svd_cases(tier), svd_cases(tier), svd_cases(tier), svd_cases(tier),
            eigh_cases(tier), select_cases(tier), util_cases(tier), davidson_cases(tier),
        )

    def finite_cases(self, tier):
        """a small deterministic grid that pins the early-exit branches of the Krylov routine: every (n, block) with
        n <= 7 and block in {2,3,50} for the four dt phases (full-space exit, growth at j+1 == len(V))."""
        out = []
        for n in range(1, 8):
            for block in (2, 3, 50):
                for phase in PHASES:
                    out.append({"kind": "krylov", "n": n, "block": block, "spectrum": "generic", "cplx": phase.endswith("it"),
                                "normA": 1.0, "x": 1.0, "phase": phase, "dt_form": "py", "start": "generic", "sub_dim": 1,
                                "eps_exp": 6, "v_real": False, "vnorm": 1.0, "k_distinct": 2, "rank": 1, "width_exp": 6,
                                "rng": 1000 * n + block})
        # regression pins for F18 (real start vector, complex Hermitian A; with and without buffer growth)
        for n, block, phase, start in [(2, 50, "-t", "unit"), (6, 50, "+t", "generic"), (9, 3, "-t", "generic"), (25, 2, "-it", "unit"),
                                       (40, 7, "+it", "generic"), (30, 50, "-t", "generic")]:
            out.append({"kind": "krylov", "n": n, "block": block, "spectrum": "generic", "cplx": True, "normA": 1.0, "x": 2.0,
                        "phase": phase, "dt_form": "cplx0", "start": start, "sub_dim": 1, "eps_exp": 6, "v_real": True, "vnorm": 1.0,
                        "k_distinct": 2, "rank": 1, "width_exp": 6, "rng": 77 + n})
        # thermal-like steps: spectrum away from zero, real negative dt, result 3-5 decades below the start vector
        for n, block, x, vnorm in [(120, 7, 7.4, 100.0), (60, 3, 6.0, 10.0), (40, 50, 8.0, 100.0), (90, 10, 5.0, 1.0), (30, 4, 7.0, 10.0)]:
            out.append({"kind": "krylov", "n": n, "block": block, "spectrum": "gapped", "cplx": n % 20 == 0, "normA": 11.0, "x": x, "xmul": 3,
                        "phase": "-t", "dt_form": "py", "start": "generic", "sub_dim": 1, "eps_exp": 6, "v_real": n % 20 != 0, "vnorm": vnorm,
                        "k_distinct": 2, "rank": 1, "width_exp": 6, "rng": 500 + n})
        return out

    # --------------------------------------------------------------------------------------------
    def run_case(self, spec):
        kind = spec["kind"]
        if kind == "krylov":
            return self.run_krylov(spec)
        if kind == "svd":
            return self.run_svd(spec)
        if kind == "eigh":
            return self.run_eigh(spec)
        if kind == "select":
            return self.run_select(spec)
        if kind == "util":
            return self.run_util(spec)
        if kind == "davidson":
            return self.run_davidson(spec)
        raise ValueError(kind)

    # ---- (e) Davidson eigensolver as the optimisers call it -------------------------------------------------------------
    def run_davidson(self, spec):
        """lowest eigenpair of a generated Hermitian matrix with the optimisers' call (diagonal preconditioner
        x/(hdiag - e + 1e-4), max_cycle 100): the Ritz value is variational and converged, the vector normalised, the residual small"""
        from renormalizer.lib import davidson

        r = Result()
        n = spec["n"]
        rng = np.random.default_rng(spec["rng"])
        hd = rng.uniform(-1.0, 1.0, n) if spec["diag"] != "positive" else rng.uniform(0.1, 1.0, n)
        if spec["diag"] == "degenerate":
            hd[: max(2, n // 3)] = hd[0]
        A = np.diag(hd).astype(complex if spec["cplx"] else float)
        if spec["offdiag"] > 0:
            B = rng.standard_normal((n, n)) + (1j * rng.standard_normal((n, n)) if spec["cplx"] else 0)
            A = A + spec["offdiag"] * (B + B.conj().T) / 2
        A = A * 10.0 ** spec["scale_exp"]
        hdiag = np.real(np.diag(A)).copy()
        w = np.linalg.eigvalsh(A)
        g = rng.standard_normal(n) + (1j * rng.standard_normal(n) if spec["cplx"] else 0)
        g = g / np.linalg.norm(g)
        sc = max(float(np.max(np.abs(w))), 1e-300)
        r.classes += ["davidson", f"davidson.offdiag={spec['offdiag']}", f"davidson.{spec['diag']}", f"davidson.n<={(n + 9) // 10 * 10}"]
        r.nontrivial = n >= 4
        try:
            e, c = davidson(lambda x: A @ x, g, lambda x, e_, *a: x / (hdiag - e_ + 1e-4 * 10.0 ** spec["scale_exp"]),
                            max_cycle=100, nroots=1, max_memory=64000, verbose=0)
        except Exception as ex:  # noqa
            sig, in_lib = lib_exception_sig(ex)
            if not in_lib:
                raise
            r.fail(f"davidson.{sig}", f"{ex!r} n={n} offdiag={spec['offdiag']} diag={spec['diag']}")
            return r
        c = np.asarray(c)
        e = float(np.real(e))
        r.resid("davidson.below_lowest_eigenvalue", (w[0] - e) / sc, 1e-9)
        r.check("davidson.variational", e >= w[0] - 1e-9 * sc, f"Ritz value {e!r} below the lowest eigenvalue {w[0]!r} (n={n}, offdiag={spec['offdiag']}, {spec['diag']})")
        r.check_close("davidson.unit_vector", np.linalg.norm(c), 1.0, 1e-8, f"norm of the returned vector (n={n})")
        rq = float(np.real(c.conj() @ (A @ c)) / max(np.linalg.norm(c) ** 2, 1e-300))
        r.check_close("davidson.rayleigh", rq, e, 1e-7 * sc, "Rayleigh quotient of the returned vector vs returned eigenvalue")
        # convergence to the LOWEST eigenvalue is not part of the routine's contract (it returns the current Ritz pair when the
        # trial space becomes linearly dependent or the cycles are used up): a statistic, not an assertion
        r.classes.append("davidson.reached_lowest" if e <= w[0] + 1e-6 * sc else "davidson.stopped_above_lowest")
        return r

    # ---- (a) Krylov ----------------------------------------------------------------------------------
    @staticmethod
    def build_krylov(spec):
        rng = np.random.default_rng(spec["rng"])
        n = spec["n"]
        kind = spec["spectrum"]
        cplx = spec["cplx"]
        degenerate = False
        if kind == "generic" or kind == "diagonal":
            lam = rng.uniform(-1, 1, n)
        elif kind == "psd":
            lam = rng.uniform(0, 1, n)
        elif kind == "gapped":  # spectrum away from zero: with real dt the result is exponentially smaller / larger than v
            lam = rng.uniform(0.45, 1, n)
        elif kind == "few":
            k = min(spec["k_distinct"], n)
            vals = rng.uniform(-1, 1, k)
            lam = vals[rng.integers(0, k, n)]
            degenerate = n > k or len(set(lam.tolist())) < n
        elif kind == "rankdef":
            r = min(spec["rank"], max(n - 1, 0))
            lam = np.zeros(n)
            lam[:r] = rng.uniform(-1, 1, r)
            degenerate = n - r >= 2
        elif kind == "zero":
            lam = np.zeros(n)
            degenerate = n >= 2
        elif kind == "clustered":
            k = min(spec["k_distinct"], n)
            centres = rng.uniform(-1, 1, k)
            lam = centres[rng.integers(0, k, n)] + 10.0 ** (-spec["width_exp"]) * rng.uniform(-1, 1, n)
            degenerate = n > k
        elif kind == "tridiag":
            lam = None
        else:
            raise ValueError(kind)
        if kind == "tridiag":
            d = rng.uniform(-1, 1, n)
            e = rng.uniform(-1, 1, max(n - 1, 0))
            if cplx:
                e = e * np.exp(1j * rng.uniform(0, 2 * np.pi, len(e)))
            A = np.diag(d).astype(complex if cplx else float)
            if n > 1:
                A = A + np.diag(e, 1) + np.diag(np.conj(e), -1)
        elif kind == "diagonal":
            A = np.diag(lam).astype(complex if cplx else float)
        else:
            G = rng.standard_normal((n, n))
            if cplx:
                G = G + 1j * rng.standard_normal((n, n))
            Q, _ = np.linalg.qr(G)
            A = (Q * lam) @ Q.conj().T
        A = (A + A.conj().T) / 2
        nrm = float(np.max(np.abs(np.linalg.eigvalsh(A)))) if n else 0.0
        if nrm > 0:
            A = A * (spec["normA"] / nrm)
            nrm = spec["normA"]
        w, X = np.linalg.eigh(A)
        # start vector
        start = spec["start"]
        real_v = spec["v_real"]

        def rnd(m):
            x = rng.standard_normal(m)
            if not real_v:
                x = x + 1j * rng.standard_normal(m)
            return x

        near = False
        if start == "generic":
            v = rnd(n)
        elif start == "unit":
            v = np.zeros(n, dtype=float if real_v else complex)
            v[int(rng.integers(0, n))] = 1.0
        else:
            k = 1 if start == "eigvec" else min(spec["sub_dim"], n)
            cols = rng.choice(n, size=k, replace=False)
            c = rng.standard_normal(k) + (0 if (real_v and not np.iscomplexobj(X)) else 1j * rng.standard_normal(k))
            if k == 1:
                c = np.ones(1)
            v = X[:, cols] @ c
            if real_v and not np.iscomplexobj(X):
                v = v.real
            if start == "near_invariant":
                g = rng.standard_normal(n)
                if np.iscomplexobj(v):
                    g = g + 1j * rng.standard_normal(n)
                v = v / np.linalg.norm(v) + 10.0 ** (-spec["eps_exp"]) * g / np.linalg.norm(g)
            near = True
        v = v / np.linalg.norm(v) * spec["vnorm"]
        # effective "real vector with complex A" class
        real_start_complex_A = bool(np.iscomplexobj(A) and np.abs(A.imag).max() > 0 and not np.iscomplexobj(v))
        x = spec["x"] * (spec.get("xmul", 1) if kind == "gapped" else 1)
        t = x / nrm if nrm > 0 else x
        ph = spec["phase"]
        if ph == "+t":
            dt = t
        elif ph == "-t":
            dt = -t
        elif ph == "+it":
            dt = 1j * t
        else:
            dt = -1j * t
        form = spec["dt_form"]
        if form == "cplx0" and not isinstance(dt, complex):
            dt = complex(dt, 0.0) if spec["rng"] % 2 else -1j * (1j * dt)  # the second form is what the callers compute
        elif form == "np":
            dt = np.complex128(dt) if isinstance(dt, complex) else np.float64(dt)
        ref = X @ (np.exp(dt * w) * (X.conj().T @ v))
        return A, v, dt, ref, dict(degenerate=degenerate, near=near, real_start_complex_A=real_start_complex_A, normA=nrm)

    def run_krylov(self, spec):
        from renormalizer.lib import expm_krylov

        r = Result()
        A, v, dt, ref, info = self.build_krylov(spec)
        n = spec["n"]
        block = spec["block"]
        rsc = info["real_start_complex_A"]
        r.classes += ["krylov", f"krylov.spectrum.{spec['spectrum']}", f"krylov.start.{spec['start']}",
                      f"krylov.dt.{spec['phase']}", "krylov.A." + ("complex" if np.iscomplexobj(A) else "real"),
                      "krylov.v." + ("complex" if np.iscomplexobj(v) else "real")]
        if n > block:
            r.classes.append("krylov.dim>block")
        if n > 2 * block:
            r.classes.append("krylov.dim>2*block")
        if rsc:
            r.classes.append("krylov.real_start_complex_A")
            if n > block:
                r.classes.append("krylov.real_start_complex_A.dim>block")
        r.nontrivial = bool(n > block or info["near"] or info["degenerate"] or spec["spectrum"] in ("rankdef", "clustered", "few", "zero"))
        calls = [0]

        def Afunc(x):
            calls[0] += 1
            return A @ x

        prefix = "krylov.real_start_complex_A." if rsc else "krylov."
        try:
            out = expm_krylov(Afunc, dt, v.copy(), block)
        except Exception as e:  # noqa
            sig, in_lib = lib_exception_sig(e)
            if not in_lib:
                raise
            r.fail(prefix + sig, f"expm_krylov raised {e!r} (n={n}, block={block}, dt={dt!r})")
            return r
        ok = r.check(prefix + "return_shape", isinstance(out, tuple) and len(out) == 2 and np.shape(out[0]) == (n,),
                     f"expected (vector of length {n}, steps), got {type(out)} {np.shape(out[0]) if isinstance(out, tuple) else ''}")
        if not ok:
            return r
        got, j = out
        got = np.asarray(got)
        r.check(prefix + "steps", 1 <= int(j) <= n and int(j) <= calls[0] <= int(j) + 1,
                f"returned step count {j}, dimension {n}, matvec calls {calls[0]}")
        r.classes.append("krylov.exit." + ("fullspace" if int(j) == n else ("early<=4" if int(j) <= 4 else "converged")))
        if not np.all(np.isfinite(got)):
            r.fail(prefix + "nonfinite", f"non-finite result (n={n}, block={block}, dt={dt!r})")
            return r
        tol = KRY_RTOL * float(np.linalg.norm(ref)) + KRY_ATOL * math.sqrt(n)
        err = float(np.linalg.norm(got - ref))
        r.resid(prefix + "err", err, tol)
        r.subchecks += 1
        if not err <= tol:
            r.fail(prefix + "err", f"||expm_krylov - exp(dt A)v|| = {err:.3e} > tol {tol:.3e} (||ref||={np.linalg.norm(ref):.3e}, n={n}, "
                   f"block={block}, steps={j}, dt={dt!r}, ||A||={info['normA']:.3g}, spectrum={spec['spectrum']}, start={spec['start']})")
        return r

    # ---- (b) svd_qn -----------------------------------------------------------------------------------
    def run_svd(self, spec):
        from renormalizer.mps.svd_qn import svd_qn
        from renormalizer.mps.lib import select_basis

        r = Result()
        lab = spec["labels"]
        q = lab["q"]
        qntot = np.array(lab["qntot"], dtype=int)
        bigL, Lf = side_labels(lab, "L")
        bigR, Rf = side_labels(lab, "R")
        nL, nR = len(Lf), len(Rf)
        mask = qn_mask(Lf, Rf, qntot)
        rng = np.random.default_rng(spec["rng"])
        scale_f = 10.0 ** spec["scale_exp"]
        M = make_content(spec["content"], mask, spec["cplx"], scale_f, rng)
        secs = sectors(Lf, Rf, qntot)
        matched = [(nl, ls, rs) for nl, ls, rs in secs if len(rs) > 0]
        if spec["content"] == "zeroblock" and matched:
            nl, ls, rs = matched[int(rng.integers(0, len(matched)))]
            M[np.ix_(ls, rs)] = 0
        Mm = M * mask
        one_sided_left = sum(1 for _, ls, rs in secs if len(rs) == 0)
        matched_right = set()
        for _, ls, rs in matched:
            matched_right.update(rs.tolist())
        one_sided_right = nR - len(matched_right)
        K = sum(min(len(ls), len(rs)) for _, ls, rs in matched)
        sumL = sum(len(ls) for _, ls, rs in matched)
        sumR = sum(len(rs) for _, ls, rs in matched)
        unbalanced = any(not (1 / 3 < len(ls) / len(rs) < 3) for _, ls, rs in matched)
        QR, system, full, opt = spec["QR"], spec["system"], spec["full"], spec["opt"]
        if spec["use_defaults"]:
            full, opt = True, True  # documented defaults (what _update_mps / update_2site rely on)
        mode = ("qr" if QR else "svd") + "." + ("full" if full else "econ") + (".opt" if (full and opt and not QR) else "")
        r.classes += ["svd", f"svd.{mode}", f"svd.system.{system}", f"svd.q{q}", f"svd.content.{spec['content']}",
                      "svd.complex" if spec["cplx"] else "svd.real", f"svd.layout.{'outer' if len(lab['L']) > 1 else 'flat'}"]
        if one_sided_left:
            r.classes.append("svd.one_sided_left")
        if one_sided_right:
            r.classes.append("svd.one_sided_right")
        r.classes.append(f"svd.matched_sectors={min(len(matched), 4)}{'+' if len(matched) >= 4 else ''}")
        if not matched:
            r.classes.append("svd.no_matched_sector")
        if unbalanced and full and opt and not QR:
            r.classes.append("svd.add_orthonormal_basis")
        if np.any((np.abs(M) > 0) & ~mask):
            r.classes.append("svd.input_has_forbidden_entries")
        r.nontrivial = len(secs) >= 2 and (one_sided_left > 0 or one_sided_right > 0)

        coef = M.reshape(bigL.shape[:-1] + bigR.shape[:-1]) if spec["tensor_shape"] else M.copy()
        coef0 = coef.copy()
        kw = {}
        if not spec["use_defaults"]:
            kw = dict(full_matrices=full, opt_full_matrices=opt)
        if QR:
            kw["QR"] = True
        if system is not None:
            kw["system"] = system
        np.random.seed(spec["rng"] % (2 ** 32))  # add_orthonormal_basis draws from the global RNG
        try:
            out = svd_qn(coef, bigL, bigR, qntot, **kw)
        except ValueError as e:
            sig, in_lib = lib_exception_sig(e)
            if not in_lib:
                raise
            if "Invalid quantum number" in str(e):
                r.check("svd.invalid_qn.raised_although_matched", not matched,
                        f"'Invalid quantum number' raised although {len(matched)} sector(s) are populated on both sides")
                return r
            r.fail(f"svd.{mode}.{sig}", repr(e))
            return r
        except Exception as e:  # noqa
            sig, in_lib = lib_exception_sig(e)
            if not in_lib:
                raise
            r.fail(f"svd.{mode}.{sig}", repr(e))
            return r
        if not matched:
            r.fail("svd.invalid_qn.not_raised", "no sector is populated on both sides but svd_qn returned normally")
            return r
        r.check("svd.input_modified", np.array_equal(coef, coef0), "svd_qn modified its input array")
        scale = max(float(np.max(np.abs(M))) * math.sqrt(M.size), 1e-300)
        tol = DEC_RTOL * scale
        allowedL = {nl for nl, _, _ in matched}
        allowedR = {tuple(int(x) for x in (qntot - np.array(nl))) for nl, _, _ in matched}

        def check_labels(side, mat, labels, flat, allowed):
            labs = as_label_array(labels, q)
            if not r.check(f"svd.{mode}.label_count.{side}", labs.shape == (mat.shape[1], q),
                           f"{side}: {mat.shape[1]} columns but labels of shape {labs.shape}"):
                return None
            bad = []
            for i in range(mat.shape[1]):
                lt = tuple(int(x) for x in labs[i])
                if lt not in allowed:
                    bad.append((i, lt, "label is not a sector populated on both sides"))
                    continue
                rows_ok = np.all(flat == labs[i], axis=-1)
                if np.any(mat[~rows_ok, i] != 0):
                    bad.append((i, lt, "column has weight on rows carrying another label"))
            r.check(f"svd.{mode}.label_support.{side}", not bad, f"{side}: {bad[:3]}")
            return labs

        def check_ortho(side, mat):
            if mat.shape[1] == 0:
                return
            g = mat.conj().T @ mat
            r.check_close(f"svd.{mode}.orthonormal.{side}", g, np.eye(mat.shape[1]), ORTHO_TOL, f"{side} factor columns")

        if QR:
            if not r.check(f"svd.{mode}.arity", isinstance(out, tuple) and len(out) == 4, f"QR returns {len(out)} values"):
                return r
            u, qnl, v, qnr = out
            u, v = np.asarray(u), np.asarray(v)
            ok = r.check(f"svd.{mode}.shape", u.ndim == 2 and v.ndim == 2 and u.shape[0] == nL and v.shape[0] == nR
                         and u.shape[1] == v.shape[1] and u.shape[1] >= K,
                         f"u {u.shape} v {v.shape} for a {nL}x{nR} input with K={K}")
            if not ok:
                return r
            if not full:
                r.check(f"svd.{mode}.ncols", u.shape[1] == K, f"economic QR: {u.shape[1]} columns, expected K={K}")
            else:
                expect = sumL if system == "L" else sumR
                r.check(f"svd.{mode}.ncols", u.shape[1] == max(expect, K) or u.shape[1] == expect,
                        f"full QR system {system}: {u.shape[1]} columns, expected {expect}")
            r.check_close(f"svd.{mode}.reconstruct", u @ v.T, Mm, tol, "U V^T vs masked input")
            check_ortho("L" if system == "L" else "R", u if system == "L" else v)
            la = check_labels("L", u, qnl, Lf, allowedL)
            ra = check_labels("R", v, qnr, Rf, allowedR)
            if la is not None and ra is not None:
                r.check(f"svd.{mode}.label_pair", np.array_equal(la + ra, np.broadcast_to(qntot, la.shape)),
                        "left + right column labels != qntot")
            return r

        if not r.check(f"svd.{mode}.arity", isinstance(out, tuple) and len(out) == 6, f"SVD returns {len(out)} values"):
            return r
        u, su, qnl, v, sv, qnr = out
        u, v, su, sv = np.asarray(u), np.asarray(v), np.asarray(su), np.asarray(sv)
        ok = r.check(f"svd.{mode}.shape", u.ndim == 2 and v.ndim == 2 and u.shape[0] == nL and v.shape[0] == nR and
                     su.shape == (u.shape[1],) and sv.shape == (v.shape[1],) and u.shape[1] >= K and v.shape[1] >= K,
                     f"u {u.shape} su {su.shape} v {v.shape} sv {sv.shape} for a {nL}x{nR} input with K={K}")
        if not ok:
            return r
        cu, cv = u.shape[1], v.shape[1]
        if not full:
            r.check(f"svd.{mode}.ncols", cu == K and cv == K, f"economic: {cu}/{cv} columns, expected K={K}")
        elif not opt:
            r.check(f"svd.{mode}.ncols", cu == sumL and cv == sumR, f"full: {cu}/{cv} columns, expected {sumL}/{sumR}")
        else:
            r.check(f"svd.{mode}.ncols", K <= cu <= sumL and K <= cv <= sumR and (cu > K or sumL == K) and (cv > K or sumR == K),
                    f"opt full: {cu}/{cv} columns, K={K}, available {sumL}/{sumR}")
        r.check(f"svd.{mode}.s_nonneg_finite", np.all(np.isfinite(su)) and np.all(np.isfinite(sv)) and np.all(su >= 0) and np.all(sv >= 0),
                "negative or non-finite singular value")
        r.check(f"svd.{mode}.su_eq_sv", np.array_equal(su[:K], sv[:K]), "S_u and S_v differ on the shared columns")
        r.check_close(f"svd.{mode}.reconstruct", (u[:, :K] * su[:K]) @ v[:, :K].T, Mm, tol, "U[:, :K] diag(S) V[:, :K]^T vs masked input")
        check_ortho("L", u)
        check_ortho("R", v)
        la = check_labels("L", u, qnl, Lf, allowedL)
        ra = check_labels("R", v, qnr, Rf, allowedR)
        if la is not None and ra is not None:
            r.check(f"svd.{mode}.label_pair", np.array_equal(la[:K] + ra[:K], np.broadcast_to(qntot, (K, q))),
                    "left + right labels of the paired columns != qntot")
        ref_s = np.linalg.svd(Mm, compute_uv=False)
        ref_s = np.concatenate([ref_s, np.zeros(max(0, K - len(ref_s)))])
        if len(ref_s) > K and ref_s[K:].max() > tol:  # oracle self-check (cannot happen: rank(Mm) <= K)
            raise AssertionError("harness: masked matrix has more than K non-zero singular values")
        if not full:
            r.check(f"svd.{mode}.sorted", bool(np.all(su[:-1] >= su[1:])), f"economic singular values not globally non-increasing: {su}")
            r.check_close(f"svd.{mode}.svals", su, ref_s[:K], tol, "singular values vs numpy SVD of the masked matrix")
        else:
            r.check_close(f"svd.{mode}.svals", np.sort(su[:K])[::-1], ref_s[:K], tol, "multiset of singular values vs numpy SVD of the masked matrix")
            r.check(f"svd.{mode}.extra_s_zero", np.all(su[K:] == 0) and np.all(sv[K:] == 0), "padding columns carry a non-zero singular value")
        # the way every SVD caller consumes the result: select_basis(system side, S, labels, other side, m)
        msel = K + spec["m_extra"]
        try:
            if system == "R":
                ms, msdim, msqn, comp = select_basis(v, sv, qnr, u, msel)
                rec = np.asarray(comp) @ np.asarray(ms).T
            else:
                ms, msdim, msqn, comp = select_basis(u, su, qnl, v, msel)
                rec = np.asarray(ms) @ np.asarray(comp).T
        except Exception as e:  # noqa
            sig, in_lib = lib_exception_sig(e)
            if not in_lib:
                raise
            r.fail(f"svd.{mode}.select_roundtrip.{sig}", repr(e))
            return r
        r.check_close(f"svd.{mode}.select_roundtrip", rec, Mm, tol, f"select_basis(m={msel}) product vs masked input")
        return r

    # ---- (c) eigh_qn ----------------------------------------------------------------------------------
    def run_eigh(self, spec):
        from renormalizer.mps.svd_qn import eigh_qn

        r = Result()
        lab = spec["labels"]
        q = lab["q"]
        qntot = np.array(lab["qntot"], dtype=int)
        bigL, Lf = side_labels(lab, "L")
        bigR, Rf = side_labels(lab, "R")
        mask = qn_mask(Lf, Rf, qntot)
        rng = np.random.default_rng(spec["rng"])
        system = spec["system"]
        scale_f = 10.0 ** spec["scale_exp"]
        S, C = (Lf, Rf) if system == "L" else (Rf, Lf)
        bigS = bigL if system == "L" else bigR
        ns = len(S)
        # sectors of the system side whose partner label exists on the complementary side
        labs = sorted({tuple(int(x) for x in t) for t in S})
        matched = []
        for nl in labs:
            partner = qntot - np.array(nl)
            if np.any(np.all(C == partner, axis=-1)):
                matched.append((nl, np.where(np.all(S == np.array(nl), axis=-1))[0]))
        r.classes += ["eigh", f"eigh.system.{system}", f"eigh.dm.{spec['dm']}", f"eigh.q{q}"]
        if len(matched) < len(labs):
            r.classes.append("eigh.one_sided")
        r.nontrivial = len(labs) >= 2 and len(matched) < len(labs)
        if spec["dm"] == "generic":
            G = rng.standard_normal((ns, ns)) + (1j * rng.standard_normal((ns, ns)) if spec["cplx"] else 0)
            dm = G @ G.conj().T * scale_f
        else:
            dm = 0
            for _ in range(spec["nstates"]):
                kind = "lowrank" if spec["dm"] == "physical_lowrank" else "generic"
                Cm = make_content(kind, mask, spec["cplx"], 1.0, rng) * mask
                dm = dm + (Cm @ Cm.conj().T if system == "L" else Cm.T @ Cm.conj())
            dm = dm / spec["nstates"] * scale_f
        dm = (dm + dm.conj().T) / 2
        same = np.all(S[:, None, :] == S[None, :, :], axis=-1)
        keep = np.zeros(ns, dtype=bool)
        for _, idx in matched:
            keep[idx] = True
        ref = dm * same * keep[:, None] * keep[None, :]
        arr = dm.reshape(bigS.shape[:-1] * 2) if spec["tensor_shape"] else dm.copy()
        try:
            out = eigh_qn(arr, bigL, bigR, qntot, system)
        except Exception as e:  # noqa
            sig, in_lib = lib_exception_sig(e)
            if not in_lib:
                raise
            if not matched and isinstance(e, ValueError):
                r.rejected = "eigh_qn: no sector populated on both sides (ValueError)"
                return r
            r.fail(f"eigh.{sig}", repr(e))
            return r
        if not matched:
            r.fail("eigh.no_sector_not_refused", "no matched sector but eigh_qn returned normally")
            return r
        if not r.check("eigh.arity", isinstance(out, tuple) and len(out) == 3, "eigh_qn returns 3 values"):
            return r
        u, s, qn = out
        u, s = np.asarray(u), np.asarray(s)
        ncol = sum(len(idx) for _, idx in matched)
        if not r.check("eigh.shape", u.shape == (ns, ncol) and s.shape == (ncol,), f"u {u.shape} s {s.shape}, expected ({ns},{ncol})"):
            return r
        scale = max(float(np.max(np.abs(dm))) * ns, 1e-300)
        tol = DEC_RTOL * scale
        r.check("eigh.s_nonneg_finite", bool(np.all(np.isfinite(s)) and np.all(s >= 0)), f"S = {s}")
        r.check_close("eigh.reconstruct", (u * s ** 2) @ u.conj().T, ref, tol, "U diag(S^2) U^dagger vs block-diagonal part of dm")
        r.check_close("eigh.orthonormal", u.conj().T @ u, np.eye(ncol), ORTHO_TOL, "eigenvector columns")
        la = as_label_array(qn, q)
        if r.check("eigh.label_count", la.shape == (ncol, q), f"labels {la.shape}"):
            allowed = {nl for nl, _ in matched}
            bad = []
            for i in range(ncol):
                lt = tuple(int(x) for x in la[i])
                if lt not in allowed:
                    bad.append((i, lt, "not a matched sector"))
                elif np.any(u[~np.all(S == la[i], axis=-1), i] != 0):
                    bad.append((i, lt, "weight on rows of another label"))
            r.check("eigh.label_support", not bad, str(bad[:3]))
            for nl, idx in matched:
                sel = np.all(la == np.array(nl), axis=-1)
                ev = np.linalg.eigvalsh(dm[np.ix_(idx, idx)])
                ev = np.where(ev > 0, ev, 0)
                if sel.sum() == len(idx):
                    r.check_close("eigh.eigenvalues", np.sort(s[sel] ** 2), np.sort(ev), tol, f"sector {nl}")
                else:
                    r.fail("eigh.sector_count", f"sector {nl}: {sel.sum()} columns for {len(idx)} rows")
        return r

    # ---- (d) select_basis ------------------------------------------------------------------------------
    def run_select(self, spec):
        from renormalizer.mps.lib import select_basis

        r = Result()
        rng = np.random.default_rng(spec["rng"])
        labels = [tuple(l) for l in spec["labels"]]
        n = len(labels)
        rows = spec["rows"]
        cplx = spec["cplx"]

        def rnd(a, b):
            x = rng.standard_normal((a, b))
            return x + 1j * rng.standard_normal((a, b)) if cplx else x

        vset = rnd(rows, n)  # generic columns are pairwise distinct: the source index of an output column is identifiable
        kind = spec["svals"]
        if kind == "distinct":
            s = rng.permutation(np.arange(1, n + 1) / n)
        elif kind == "ties":
            s = rng.integers(0, 3, n) / 2.0
        elif kind == "zeros_tail":
            s = rng.uniform(0.1, 1, n)
            s[n // 2:] = 0.0
        else:
            s = np.full(n, 0.5)
        comp = spec["comp"]
        if comp == "none":
            compset = None
        elif comp == "self":
            compset = vset
        else:
            ncomp = {"same": n, "fewer_cols": max(n - 1 - int(rng.integers(0, 2)), 0), "more_cols": n + 2}[comp]
            compset = rnd(spec["comp_rows"], ncomp)
        Mmax, percent = spec["Mmax"], spec["percent"]
        if spec["labels_as"] == "list":
            qnlist = [list(l) for l in labels]
        elif spec["labels_as"] == "tuple":
            qnlist = list(labels)
        else:
            qnlist = [np.array(l) for l in labels]
        r.classes += ["select", f"select.svals.{kind}", f"select.comp.{comp}", f"select.percent.{percent}"]
        if Mmax < n:
            r.classes.append("select.truncating")
        r.nontrivial = Mmax < n and len(set(labels)) >= 2
        v0, s0 = vset.copy(), s.copy()
        try:
            ms, dim, msqn, compms = select_basis(vset, s, qnlist, compset, Mmax, percent=percent)
        except Exception as e:  # noqa
            sig, in_lib = lib_exception_sig(e)
            if not in_lib:
                raise
            r.fail(f"select.{sig}", repr(e))
            return r
        ms = np.asarray(ms)
        nsel = min(n, Mmax)
        if not r.check("select.count", dim == nsel and ms.shape == (rows, nsel) and len(msqn) == nsel,
                       f"dim={dim} ms{ms.shape} len(qn)={len(msqn)} expected {nsel}"):
            return r
        r.check("select.input_modified", np.array_equal(vset, v0) and np.array_equal(s, s0), "inputs modified")
        src = []
        for i in range(nsel):
            hit = [k for k in range(n) if np.array_equal(vset[:, k], ms[:, i])]
            src.append(hit[0] if len(hit) == 1 else None)
        if not r.check("select.columns_are_input_columns", None not in src and len(set(src)) == nsel,
                       f"source indices {src}"):
            return r
        la = as_label_array(msqn, len(labels[0]))
        r.check("select.labels", all(tuple(int(x) for x in la[i]) == labels[src[i]] for i in range(nsel)), "label of a selected column differs from its source")
        if compset is not None:
            compms = np.asarray(compms)
            ref = np.zeros((compset.shape[0], nsel), dtype=compset.dtype)
            for i, k in enumerate(src):
                if k < compset.shape[1]:
                    ref[:, i] = compset[:, k] * s[k]
            r.check_close("select.comp", compms, ref, 1e-14 * max(1.0, float(np.abs(ref).max(initial=0))), "complementary set = compset[:, idx]*s[idx]")
        else:
            r.check("select.comp_none", compms is None, "compset None must give None")
        # which ones: per label quota first (largest of the label), the rest globally largest
        blocks = sorted(set(labels))
        quota = int(nsel * percent / len(blocks)) if percent != 0 else 0
        sel = set(src)
        ref_sel = []
        remaining = set(range(n))
        for b in blocks:
            idx = sorted([k for k in range(n) if labels[k] == b], key=lambda k: -s[k])[:quota]
            ref_sel += idx
            remaining -= set(idx)
        ref_sel += sorted(remaining, key=lambda k: -s[k])[: nsel - len(ref_sel)]
        r.check_close("select.selected_values", np.sort(s[sorted(sel)]), np.sort(s[ref_sel]), 0.0, "multiset of selected singular values")
        for b in blocks:
            idx = [k for k in range(n) if labels[k] == b]
            ins = [s[k] for k in idx if k in sel]
            outs = [s[k] for k in idx if k not in sel]
            r.check("select.block_largest_first", not ins or not outs or min(ins) >= max(outs), f"label {b}: selected {ins}, dropped {outs}")
            r.check("select.block_quota", len(ins) >= min(quota, len(idx)), f"label {b}: {len(ins)} selected, quota {quota}")
        return r

    # ---- (e) small utilities -----------------------------------------------------------------------------
    def run_util(self, spec):
        from renormalizer.mps import svd_qn as sq

        r = Result()
        rng = np.random.default_rng(spec["rng"])
        sub = spec["sub"]
        q = spec["q"]
        r.classes += ["util", f"util.{sub}"]
        r.nontrivial = True
        try:
            if sub == "blockrecover":
                idx = spec["indices"]
                U = rng.standard_normal((len(idx), spec["cols"]))
                if spec["cplx"]:
                    U = U + 1j * rng.standard_normal(U.shape)
                got = sq.blockrecover(np.array(idx, dtype=int) if spec["idx_as"] == "array" else list(idx), U.copy(), spec["dim"])
                ref = np.zeros((spec["dim"], spec["cols"]), dtype=U.dtype)
                for k, i in enumerate(idx):
                    ref[i] = U[k]
                r.check_close("util.blockrecover", got, ref, 0.0, "blockrecover")
                r.check("util.blockrecover.dtype", np.asarray(got).dtype == U.dtype, f"dtype {np.asarray(got).dtype}")
                r.nontrivial = 0 < len(idx) < spec["dim"]
            elif sub == "add_outer":
                a = rng.integers(-3, 4, size=tuple(spec["a_shape"]) + (q,))
                b = rng.integers(-3, 4, size=tuple(spec["b_shape"]) + (q,))
                got = np.asarray(sq.add_outer(a, b))
                na, nb = len(spec["a_shape"]), len(spec["b_shape"])
                ref = a.reshape(a.shape[:-1] + (1,) * nb + (q,)) + b.reshape((1,) * na + b.shape)
                r.check_close("util.add_outer", got, ref, 0.0, "add_outer(a,b)[i..,j..,c] = a[i..,c]+b[j..,c]")
                r.nontrivial = q >= 2 or (na + nb) >= 2
            else:
                qnmat = rng.integers(0, 2, size=tuple(spec["shape"]) + (q,))
                tot = spec["qntot"]
                arg = {"list": list(tot), "tuple": tuple(tot), "array": np.array(tot)}[spec["tot_as"]]
                got = np.asarray(sq.get_qn_mask(qnmat, arg))
                ref = np.ones(tuple(spec["shape"]), dtype=bool)
                for c in range(q):
                    ref &= qnmat[..., c] == tot[c]
                r.check("util.qn_mask", got.shape == ref.shape and got.dtype == bool and np.array_equal(got, ref), f"mask {got.shape} vs {ref.shape}")
                r.nontrivial = q >= 2 and bool(ref.any()) and not bool(ref.all())
        except Exception as e:  # noqa
            sig, in_lib = lib_exception_sig(e)
            if not in_lib:
                raise
            r.fail(f"util.{sub}.{sig}", repr(e))
        return r

    # --------------------------------------------------------------------------------------------
    def sample_view(self, spec):
        if spec.get("kind") in ("svd", "eigh"):
            lab = spec["labels"]
            out = {k: v for k, v in spec.items() if k != "labels"}
            out["labels"] = {"q": lab["q"], "qntot": lab["qntot"], "L": [p[:6] for p in lab["L"]], "R": [p[:6] for p in lab["R"]],
                             "sizes": [[len(p) for p in lab["L"]], [len(p) for p in lab["R"]]]}
            return out
        if spec.get("kind") == "select":
            out = dict(spec)
            out["labels"] = spec["labels"][:8]
            return out
        return spec


PROP = C18()

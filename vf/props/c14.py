"""C14 — saved states reload identically; periodic result dumps survive a crash (fault enumeration).

part "rt"    : chain objects (Mps / MpDm / Mpo) out of generated programs -> dump -> load -> identical object, identical
               follow-up program; spilled (dump_matrix_size) vs in-memory execution; spill files vanish with the object.
part "tree"  : the same for small TTNS objects built with the public tn API.
part "crash" : a job history (harness TdMpsJob subclass or the real ThermalProp) x ALL crash instants of its dumps
               (x ALL crash instants of the first two dumps of a job restarted in the left-over directory);
               mode "inproc" = injected BaseException at the k-th file-system call / after j bytes of a write,
               mode "death"  = real SIGKILL of a forked child at the N-th traced system call (strace).
"""
import gc
import os
import re
import shutil
import tempfile

import numpy as np
from hypothesis import strategies as st

from vf.core import Prop, Result, lib_exception_sig
from vf import gen, chain
from vf import c14_util as cu

BIG = chain.BIG


# ------------------------------------------------------------------------------------------------
# generators
# ------------------------------------------------------------------------------------------------

@st.composite
def builder_instr(draw):
    op = draw(st.sampled_from(["add", "add", "cadd", "apply", "scale", "coeff", "coeff", "mpdm_from", "mpdm_from", "to_complex",
                               "dm_scale", "op_add", "conj"]))
    a, b, o = draw(st.integers(0, 20)), draw(st.integers(0, 20)), draw(st.integers(0, 20))
    if op in ("add", "cadd"):
        return {"op": op, "a": a, "b": b, "on": "S"}
    if op == "apply":
        return {"op": "apply", "o": o, "a": a}
    if op == "scale":
        return {"op": "scale", "a": a, "on": "S", "val": draw(st.sampled_from(chain.SCALARS)), "inplace": draw(st.booleans())}
    if op == "dm_scale":
        return {"op": "scale", "a": a, "on": "M", "val": draw(st.sampled_from(chain.SCALARS)), "inplace": False}
    if op == "coeff":
        return {"op": "coeff", "a": a, "on": draw(st.sampled_from(["S", "S", "M"])), "val": draw(st.sampled_from(chain.SCALARS))}
    if op == "mpdm_from":
        return {"op": "mpdm_from", "a": a}
    if op == "op_add":
        return {"op": "add", "a": a, "b": b, "on": "O"}
    if op == "conj":
        return {"op": "conj", "a": a, "on": "S"}
    return {"op": "to_complex", "a": a, "on": draw(st.sampled_from(["S", "M"]))}


@st.composite
def follow_specs(draw, spec, real_only=False):
    imag = draw(st.integers(0, 3)) == 0
    # imaginary time keeps the dtype of the state: a real state needs a real Hamiltonian (the library forbids the silent cast)
    return {"M": draw(st.sampled_from([1, 2, 3, 4, 8, 32])), "dir": draw(st.integers(0, 1)),
            "hterms": draw(gen.hermitian_hamiltonian(spec, max_terms=3, real_only=real_only or imag)),
            "hnorm": draw(st.sampled_from([0.5, 1.0, 3.0])), "dt": draw(st.sampled_from([0.05, 0.3])),
            "imag": imag}


@st.composite
def gauge_instr(draw, on):
    op = draw(st.sampled_from(["ensure_left", "ensure_right", "canon_stop", "canon_stop", "move_qnidx", "move_qnidx",
                               "compress_lossless"]))
    ins = {"op": op, "a": draw(st.integers(0, 20)), "on": on}
    if op == "canon_stop":
        ins["stop"] = draw(st.integers(0, 6))
    if op == "move_qnidx":
        ins["k"] = draw(st.integers(0, 6))
    if op == "compress_lossless":
        ins["dir"] = draw(st.integers(0, 1))
        ins["mode"] = draw(st.integers(0, 2))
    return ins


@st.composite
def rt_cases(draw, tier):
    spec = draw(chain.chain_model_specs(2, 5, max_dim=64 if tier == "quick" else 128))
    has_multi_or_dummy = any(s["k"] in ("multi", "dummy") for s in spec["sites"])
    has_qn = any(np.any(gen.site_sigmaqn(spec, i) != 0) for i in range(len(spec["sites"])))
    product_only = draw(st.integers(0, 5)) == 0
    prog = []
    if product_only:
        # product states: every per-bond label array has the same shape (1, qn_size)
        for _ in range(draw(st.integers(1, 2))):
            prog.append(draw(chain.create_instr(spec, ("prod",))))
        if draw(st.booleans()):
            prog.append({"op": "mpdm_from", "a": 0})
        if draw(st.booleans()):
            prog.append({"op": "coeff", "a": 0, "on": "S", "val": draw(st.sampled_from(chain.SCALARS))})
        if draw(st.booleans()):
            prog.append({"op": "move_qnidx", "a": 0, "on": "S", "k": draw(st.integers(0, 6))})
    else:
        allow = ["rand", "rand", "rand", "prod"]
        if not has_multi_or_dummy:
            allow.append("gs")
        if not has_qn:
            allow.append("dense")
        qsel = draw(st.integers(0, 50))
        for _ in range(draw(st.integers(1, 3))):
            ins = draw(chain.create_instr(spec, tuple(allow)))
            if ins["op"] == "rand":
                if draw(st.integers(0, 3)) > 0:
                    ins["q"] = qsel
                ins["m"] = min(ins["m"], 8)
            prog.append(ins)
        for _ in range(draw(st.integers(1, 2))):
            prog.append(draw(chain.mpo_instr(spec)))
        for _ in range(draw(st.integers(0, 4))):
            prog.append(draw(builder_instr()))
        for _ in range(draw(st.integers(0, 5))):
            prog.append(draw(gauge_instr(draw(st.sampled_from(["S", "S", "S", "M", "M", "O"])))))
    picks = [draw(st.integers(0, 20)) for _ in range(3)]
    if not product_only:
        # a last gauge move aimed at the objects that will be dumped (any centre, either direction)
        for j, on in ((0, "S"), (1, "S"), (0, "M")):
            if draw(st.integers(0, 2)) > 0:
                g = draw(gauge_instr(on))
                g["a"] = picks[j]
                prog.append(g)
    return {"part": "rt", "model": spec, "prog": prog, "product_only": product_only, "spill": draw(st.booleans()),
            "follow": draw(follow_specs(spec)), "picks": picks}


TREE_KINDS = {0: ["spin", "spin", "sho", "elec"], 1: ["spin", "elec", "elec", "sho"], 2: ["spin", "spin", "elec"]}


@st.composite
def tree_cases(draw, tier):
    if draw(st.integers(0, 4)) == 0:
        # many nodes (11-14 spins): file keys with two-digit node numbers; only the round trip itself is checked (no dense follow-up)
        n = draw(st.integers(11, 14))
        q = draw(st.sampled_from([0, 1]))
        sites = [({"k": "spin", "qn": draw(st.sampled_from([[[0], [1]], [[1], [0]], [[0], [0]]]))} if q else {"k": "spin"}) for _ in range(n)]
        spec = {"names": draw(st.integers(0, 2)), "sites": sites, "qnmode": q}
        return {"part": "tree", "big": True, "model": spec, "shape": draw(st.sampled_from(["linear", "binary", "mctdh2", "mctdh3", "t3ns"])),
                "create": draw(st.sampled_from(["random", "random", "product", "sum"])), "m": draw(st.sampled_from([1, 2, 3])),
                "q": draw(st.integers(0, 50)), "rng": draw(st.integers(0, 10 ** 6)), "cplx": draw(st.booleans()),
                "coeff": draw(st.sampled_from([[1.0, 0.0], [0.6, 0.8], [-0.5, 0.0]])),
                "occ": draw(st.lists(st.integers(0, 3), min_size=1, max_size=5)),
                "pre": draw(st.lists(st.sampled_from(["canonicalise", "scale"]), max_size=2)), "follow": None}
    q = draw(st.sampled_from([0, 1, 1, 2]))
    spec = draw(gen.model_specs(2, 5, qn=q, kinds=TREE_KINDS[q], max_dim=64))
    for s in spec["sites"]:
        if s["k"] == "sho":
            s["nbas"] = min(s["nbas"], 3)
            s["dvr"] = False
    # trees with virtual (dummy) nodes carry a one-component dummy label: the library refuses them for 2-component models
    shapes = ["linear", "binary"] if q == 2 else ["linear", "binary", "mctdh2", "mctdh3", "t3ns"]
    return {"part": "tree", "model": spec, "shape": draw(st.sampled_from(shapes)),
            "create": draw(st.sampled_from(["random", "random", "product", "sum"])), "m": draw(st.sampled_from([1, 2, 3, 4, 8])),
            "q": draw(st.integers(0, 50)), "rng": draw(st.integers(0, 10 ** 6)), "cplx": draw(st.booleans()),
            "coeff": draw(st.sampled_from([[1.0, 0.0], [0.6, 0.8], [2.0, 0.0], [-0.5, 0.0]])),
            "occ": draw(st.lists(st.integers(0, 3), min_size=1, max_size=5)),
            "pre": draw(st.lists(st.sampled_from(["canonicalise", "compress", "scale"]), max_size=2)),
            "follow": draw(follow_specs(spec, real_only=True))}


def _points(nsteps, dump_mps, dirty):
    """rough number of crash points of a history (budget control only)"""
    n = 0
    for k in range(1, nsteps + 1):
        n += 5 + (5 if dump_mps else 0)
        if k > 1 or dirty:
            n += 3
    return n


@st.composite
def holstein_tiny(draw, tier):
    def ph():
        w0 = draw(st.sampled_from([0.5, 1.0, 1.7]))
        return {"w0": w0, "w1": w0, "d": draw(st.sampled_from([0.0, 0.5, -0.8])), "nbas": 2}
    nmol = draw(st.integers(1, 2)) if tier == "thorough" else 1
    return {"mols": [{"e": draw(st.sampled_from([0.0, 0.3, 2.0])), "ph": [ph()]} for _ in range(nmol)],
            "J": draw(st.sampled_from([0.2, -0.7])), "scheme": draw(st.sampled_from([1, 2, 3]))}


@st.composite
def job_specs(draw, tier, kind, max_steps):
    js = {"kind": kind, "nsteps": draw(st.integers(1, max_steps)), "dump_mps": draw(st.sampled_from([None, None, "one", "all"]))}
    if kind == "toy":
        js["alen"] = draw(st.sampled_from([1, 7, 50, 400]))
    return js


@st.composite
def crash_cases(draw, tier):
    kind = draw(st.sampled_from(["toy", "toy", "toy", "thermal"]))
    js1 = draw(job_specs(tier, kind, 4))
    js2 = draw(job_specs(tier, kind, 2)) if draw(st.integers(0, 2)) > 0 else None
    if kind == "thermal":
        h = draw(holstein_tiny(tier))
        common = {"holstein": h, "space": draw(st.sampled_from(["GS", "EX"])), "tau": draw(st.sampled_from([0.02, 0.1])),
                  "exact": draw(st.booleans())}
        js1.update(common)
        if js2 is not None:
            js2.update(common)
    # bound the number of job executions (every crash point is one execution): shrink the history, never sample points
    limit = (300 if kind == "toy" else 100) if tier == "quick" else (1500 if kind == "toy" else 400)

    def cost():
        c = _points(js1["nsteps"], js1["dump_mps"], False)
        if js2 is not None:
            c *= 1 + _points(js2["nsteps"], js2["dump_mps"], True)
        return c

    while cost() > limit:
        if js2 is not None and js2["nsteps"] > 1:
            js2["nsteps"] -= 1
        elif js1["nsteps"] > 2:
            js1["nsteps"] -= 1
        elif js2 is not None and js2["dump_mps"]:
            js2["dump_mps"] = None
        elif js1["dump_mps"]:
            js1["dump_mps"] = None
        else:
            break
    return {"part": "crash", "mode": "inproc", "job": js1, "restart": js2}


@st.composite
def cases(draw, tier):
    part = draw(st.sampled_from(["rt"] * 10 + ["tree"] * 3 + ["crash"] * 3))
    if part == "rt":
        return draw(rt_cases(tier))
    if part == "tree":
        return draw(tree_cases(tier))
    return draw(crash_cases(tier))


# ------------------------------------------------------------------------------------------------
# part (a): round trip of chain objects
# ------------------------------------------------------------------------------------------------

def _guard(r, sig, fn, *a):
    """(ok, value); a library exception becomes a failure with a stable signature"""
    try:
        return True, fn(*a)
    except Exception as e:  # noqa
        s, in_lib = lib_exception_sig(e)
        if not in_lib:
            raise
        r.fail(f"{sig}.{s}", repr(e)[:500])
        return False, None


def _try(fn, *a):
    """(ok, value, exception) without recording anything"""
    try:
        return True, fn(*a), None
    except Exception as e:  # noqa
        s, in_lib = lib_exception_sig(e)
        if not in_lib:
            raise
        return False, s, e


def compare_chain(r, tag, x, y, what):
    """loaded y vs original x: tensors bit-identical, dtype, prefactor, qntot, qnidx, to_right, per-bond labels"""
    ok = r.check(f"rt.{tag}.nsites", len(y) == len(x), f"{what}: {len(y)} sites loaded, {len(x)} dumped")
    if not ok:
        return False
    for i in range(len(x)):
        a, b = np.asarray(x[i].array), np.asarray(y[i].array)
        ok &= r.check(f"rt.{tag}.tensor", a.dtype == b.dtype and a.shape == b.shape and np.array_equal(a, b),
                      f"{what}: site {i} differs (dtype {a.dtype}->{b.dtype}, shape {a.shape}->{b.shape})")
    ok &= r.check(f"rt.{tag}.dtype", np.dtype(x.dtype) == np.dtype(y.dtype) and x.is_complex == y.is_complex,
                  f"{what}: dtype {x.dtype} -> {y.dtype}")
    if hasattr(x, "coeff"):
        cx, cy = getattr(x, "coeff"), getattr(y, "coeff", None)
        ok &= r.check(f"rt.{tag}.coeff", cy is not None and np.ndim(cy) == 0 and complex(cy) == complex(cx),
                      f"{what}: coeff {cx!r} -> {cy!r}")
    qx, qy = np.asarray(x.qntot), np.asarray(y.qntot)
    ok &= r.check(f"rt.{tag}.qntot", qy.dtype.kind in "iu" and qx.shape == qy.shape and np.array_equal(qx, qy),
                  f"{what}: qntot {qx} -> {qy} ({qy.dtype})")
    ok &= r.check(f"rt.{tag}.qnidx", y.qnidx == x.qnidx and isinstance(y.qnidx, (int, np.integer)),
                  f"{what}: qnidx {x.qnidx} -> {y.qnidx!r}")
    ok &= r.check(f"rt.{tag}.to_right", y.to_right is x.to_right or (isinstance(y.to_right, (bool, np.bool_)) and bool(y.to_right) == bool(x.to_right)),
                  f"{what}: to_right {x.to_right!r} -> {y.to_right!r}")
    if r.check(f"rt.{tag}.qn_len", len(y.qn) == len(x.qn), f"{what}: {len(y.qn)} label arrays for {len(x.qn)}"):
        for i in range(len(x.qn)):
            a, b = np.asarray(x.qn[i]), np.asarray(y.qn[i])
            ok &= r.check(f"rt.{tag}.qn", b.dtype.kind in "iu" and a.shape == b.shape and np.array_equal(a, b),
                          f"{what}: bond {i} labels {a.tolist()} -> {b.tolist()} ({b.dtype})")
    else:
        ok = False
    return bool(ok)


def state_steps(fol, hmpo, obs, spillkw):
    """the follow-up program as a list of (name, fn(x) -> array); applied in this order to the same object"""
    from renormalizer.utils import CompressConfig, CompressCriteria, EvolveConfig, EvolveMethod

    def s_canon(x):
        x.compress_config = CompressConfig(CompressCriteria.fixed, max_bonddim=BIG, **spillkw)
        chain.Interp._prep_end(x)
        x.canonicalise()
        return chain.dense_of(x)

    def s_compress(x):
        x.compress_config = CompressConfig(CompressCriteria.fixed, max_bonddim=fol["M"], **spillkw)
        if fol["dir"]:
            x.ensure_left_canonical()
        else:
            x.ensure_right_canonical()
        x.compress()
        return chain.dense_of(x)

    def s_expect(x):
        return np.array([x.expectation(o) for o in [hmpo] + obs], dtype=complex)

    def s_evolve(x):
        x.compress_config = CompressConfig(CompressCriteria.fixed, max_bonddim=max(fol["M"], 4), **spillkw)
        x.evolve_config = EvolveConfig(EvolveMethod.tdvp_ps)
        y = x.evolve(hmpo, -1j * fol["dt"] if fol["imag"] else fol["dt"])
        return np.concatenate([np.ravel(chain.dense_of(y)), [y.coeff]])

    return [("canonicalise", s_canon), ("compress", s_compress), ("expectation", s_expect), ("evolve_tdvp_ps", s_evolve)]


def op_steps(state):
    def o_canon(o):
        chain.Interp._prep_end(o)
        o.canonicalise()
        return chain.dense_of(o)

    def o_expect(o):
        return np.array([state.expectation(o)], dtype=complex)

    def o_apply(o):
        return chain.dense_of(o.apply(state))

    steps = [("canonicalise", o_canon)]
    if state is not None:
        steps += [("expectation", o_expect), ("apply", o_apply)]
    return steps


def run_follow(r, tag, steps, x, y, what):
    """the same steps on the reference object x and on y; results must agree to 1e-12 (relative to the result's norm)"""
    for name, fn in steps:
        okx, vx, ex = _try(fn, x)
        if not okx:
            # the step is not applicable to this object (the original refuses it as well): not a statement about dump/load
            r.classes.append(f"follow.{name}.original_raises.{vx}")
            if name == "expectation":
                continue
            return
        oky, vy, ey = _try(fn, y)
        if not oky:
            r.fail(f"rt.{tag}.follow.{name}.{vy}", f"{what}: step '{name}' works on the original and raises on the other: {ey!r}")
            return
        sc = max(float(np.linalg.norm(np.ravel(vx))), 1.0)
        if not r.check_close(f"rt.{tag}.follow.{name}", vy, vx, 1e-12 * sc, f"{what}: result of '{name}'"):
            return


def roundtrip_chain(r, it, reg, case, tmp, idx, hmpo, obs):
    from renormalizer.mps import Mps, Mpo, MpDm
    from renormalizer.utils import CompressConfig, CompressCriteria

    x = reg.obj
    tag = {"S": "mps", "M": "mpdm", "O": "mpo"}[reg.kind]
    cls = {"S": Mps, "M": MpDm, "O": Mpo}[reg.kind]
    what = f"{tag}[{reg.tag}] bonds={list(x.bond_dims)} qnidx={x.qnidx} to_right={x.to_right} complex={x.is_complex}"
    r.classes += [f"rt.{tag}", f"rt.{tag}.complex" if x.is_complex else f"rt.{tag}.real",
                  f"rt.centre.{'end' if x.qnidx in (0, len(x) - 1) else 'interior'}", f"rt.to_right={x.to_right}"]
    if getattr(x, "coeff", 1) != 1:
        r.classes.append("rt.coeff_ne_1")
    if all(np.asarray(q).shape == np.asarray(x.qn[0]).shape for q in x.qn):
        r.classes.append("rt.equal_shaped_labels")
    if reg.kind != "O" and max(x.bond_dims) > 1 and it.has_qn:
        r.nontrivial = True
    fname = os.path.join(tmp, f"obj{idx}.npz")
    # the file name as str, as pathlib.Path, or without the extension (numpy appends ".npz")
    nk = (case.get("rng", 0) + idx) % 3
    import pathlib
    arg = fname if nk == 0 else (pathlib.Path(fname) if nk == 1 else fname[:-4])
    r.classes.append(f"rt.name_kind.{('str', 'Path', 'no_extension')[nk]}")
    ok, _ = _guard(r, f"rt.{tag}.dump", x.dump, arg)
    if not ok:
        return
    if not r.check(f"rt.{tag}.dump.file", os.path.isfile(fname), f"{what}: dump({arg!r}) returned but {os.path.basename(fname)} does not exist "
                                                                  f"(directory: {sorted(os.listdir(tmp))})"):
        return
    ok, y = _guard(r, f"rt.{tag}.load", cls.load, it.fresh_model(), fname)
    if not ok:
        return
    same = compare_chain(r, tag, x, y, what)
    r.check(f"rt.{tag}.type", type(y) is cls, f"{what}: loaded object is {type(y).__name__}")
    if not same:
        return
    spillkw = {}
    if reg.kind == "O":
        st0 = it.S[0].obj.copy() if it.S else None
        steps = op_steps(st0)
    else:
        steps = state_steps(case["follow"], hmpo, obs, spillkw)
    run_follow(r, tag, steps, x.copy(), y, what + " original vs loaded")
    # ---- spilled execution ------------------------------------------------------------------------------------------
    if not case["spill"] or reg.kind == "O":
        return
    sd = os.path.join(tmp, f"spill{idx}")
    os.makedirs(sd, exist_ok=True)
    _spill_part(r, tag, x, cls, it, case, hmpo, obs, sd, fname, what)
    gc.collect()
    left = sorted(os.listdir(sd))
    r.check(f"rt.{tag}.spill.files_removed", not left, f"{what}: spill directories left after the objects were deleted: {left[:5]}")


def _spill_part(r, tag, x, cls, it, case, hmpo, obs, sd, fname, what):
    """everything that holds a reference to a spilled object lives in this frame"""
    from renormalizer.utils import CompressConfig, CompressCriteria

    spillkw = dict(dump_matrix_size=1, dump_matrix_dir=sd)
    tmpl = x.copy()
    tmpl.compress_config = CompressConfig(CompressCriteria.fixed, max_bonddim=BIG, **spillkw)
    ok, xs = _guard(r, f"rt.{tag}.spill.copy", tmpl.copy)
    if not ok:
        return
    n_spilled = sum(isinstance(m, str) for m in xs._mp)
    r.classes.append("rt.spilled")
    if not r.check(f"rt.{tag}.spill.happened", n_spilled == len(xs) and all(os.path.isfile(m) for m in xs._mp if isinstance(m, str)),
                   f"{what}: {n_spilled} of {len(xs)} site tensors were moved to {sd}"):
        return
    # a spilled object dumps / reloads like the in-memory one
    f2 = fname[:-4] + "_spilled.npz"
    ok, _ = _guard(r, f"rt.{tag}.spill.dump", xs.dump, f2)
    if ok and r.check(f"rt.{tag}.spill.dump.file", os.path.isfile(f2), f"{what}: dump of the spilled object wrote nothing"):
        ok, ys = _guard(r, f"rt.{tag}.spill.load", cls.load, it.fresh_model(), f2)
        if ok:
            compare_chain(r, f"{tag}.spill", x, ys, what + " (dumped from the spilled object)")
    # the same follow-up program in memory and spilled
    run_follow(r, f"{tag}.spill", _paired_steps(case["follow"], hmpo, obs, spillkw), x.copy(), xs, what + " in-memory vs spilled")


def _paired_steps(fol, hmpo, obs, spillkw):
    """steps whose configuration spills for the spilled operand only: the object's own compress_config decides"""
    mem = state_steps(fol, hmpo, obs, {})
    spl = state_steps(fol, hmpo, obs, spillkw)

    def pick(fm, fs):
        def f(x):
            spilled = np.isfinite(x.compress_config.dump_matrix_size)
            return (fs if spilled else fm)(x)
        return f
    return [(nm, pick(fm, fs)) for (nm, fm), (_, fs) in zip(mem, spl)]


def run_rt(case, r):
    from renormalizer.mps import Mpo
    from vf.props.c08 import scaled_terms, build_ops

    tmp = tempfile.mkdtemp(prefix="c14a_", dir="/tmp")
    try:
        r0 = Result()
        it = chain.Interp(case["model"], r0, None)
        it.run(case["prog"])
        r.rejected = None
        if r0.failures:
            # arithmetic / gauge failures belong to C03/C04; objects of a failed program are not used here
            r.classes.append("rt.program_failed_elsewhere")
            return
        spec = case["model"]
        fol = case["follow"]
        terms, _ = scaled_terms(spec, fol["hterms"], fol["hnorm"])
        if terms is None:
            r.classes.append("rt.zero_hamiltonian")
            return
        ok, hmpo = _guard(r0, "mpo", Mpo, it.fresh_model(), build_ops(spec, terms))
        if not ok:
            r.classes.append("rt.program_failed_elsewhere")
            return
        obs = [o.obj for o in it.O[:1]]
        regs = []
        for lst, cnt in ((it.S, 2), (it.M, 1), (it.O, 1)):
            seen = set()
            for p in case["picks"][:cnt]:
                if lst and (p % len(lst)) not in seen:
                    seen.add(p % len(lst))
                    regs.append(lst[p % len(lst)])
        if case["product_only"]:
            r.classes.append("rt.product_only_program")
        for idx, reg in enumerate(regs):
            roundtrip_chain(r, it, reg, case, tmp, idx, hmpo, obs)
            if len(r.failures) >= 4:
                break
        r.classes.append(f"qn={spec.get('qnmode')}")
    finally:
        gc.collect()
        shutil.rmtree(tmp, ignore_errors=True)


# ------------------------------------------------------------------------------------------------
# part (a'): tree states
# ------------------------------------------------------------------------------------------------

def build_tree(spec, shape):
    from renormalizer.tn import BasisTree

    bl = list(gen.build_basis_list(spec))
    if shape == "linear":
        return BasisTree.linear(bl)
    if shape == "binary":
        return BasisTree.binary(bl)
    if shape == "mctdh2":
        return BasisTree.general_mctdh(bl, tree_order=2)
    if shape == "mctdh3":
        return BasisTree.general_mctdh(bl, tree_order=3)
    return BasisTree.t3ns(bl)


def tree_order(t):
    # size-1 physical legs (dummy nodes, one-state sites) are squeezed away by to_contract_args: leave them out of the order
    return [b for b in t.basis.basis_list if b.nbas > 1]


def tree_dense(t):
    return np.asarray(t.todense(tree_order(t))) * t.coeff


def run_tree(case, r):
    from renormalizer.tn import TTNS, TTNO
    from renormalizer.utils import CompressConfig, CompressCriteria, EvolveConfig, EvolveMethod
    from vf.props.c08 import scaled_terms, build_ops

    spec = case["model"]
    tmp = tempfile.mkdtemp(prefix="c14t_", dir="/tmp")
    try:
        try:
            tree = build_tree(spec, case["shape"])
            tree2 = build_tree(spec, case["shape"])
        except Exception as e:  # noqa
            s, in_lib = lib_exception_sig(e)
            if not in_lib:
                raise
            r.rejected = f"tree construction refused ({s})"
            return
        secs = gen.sectors(spec)
        q = secs[case["q"] % len(secs)]
        qarg = np.array(q)
        n = len(spec["sites"])
        dims = gen.pdims(spec)

        def product():
            cond = {}
            for i in range(n):
                cond[gen.site_dofs(spec, i)[0]] = int(case["occ"][i % len(case["occ"])] % dims[i])
            return TTNS(tree, cond)

        try:
            np.random.seed(case["rng"])
            if case["create"] == "product":
                t = product()
            else:
                t = TTNS.random(tree, qarg, case["m"], 1.0)
                if case["create"] == "sum":
                    np.random.seed(case["rng"] + 1)
                    t = t.add(TTNS.random(tree, qarg, case["m"], 1.0))
            d0 = np.asarray(t.todense(tree_order(t)))
            if not np.all(np.isfinite(d0)) or np.linalg.norm(d0) == 0:
                raise FloatingPointError("non-finite random state")
            if case["cplx"]:
                t = t.scale(np.exp(0.7j))
            for p in case["pre"]:
                if p == "canonicalise":
                    t.canonicalise()
                elif p == "compress":
                    t.compress_config = CompressConfig(CompressCriteria.fixed, max_bonddim=max(case["m"] - 1, 1))
                    t.canonicalise()
                    t.compress()
                else:
                    t = t.scale(-1.5)
            c = case["coeff"]
            t.coeff = complex(c[0], c[1]) if c[1] else c[0]
        except (FloatingPointError, ZeroDivisionError, ValueError, AssertionError, IndexError, KeyError) as e:
            r.rejected = "tree state construction refused"
            return
        what = f"ttns[{case['create']},{case['shape']}] bonds={list(t.bond_dims)} complex={np.iscomplexobj(t.root.tensor)}"
        r.classes += ["rt.ttns", f"rt.ttns.{case['shape']}", f"rt.ttns.{case['create']}", f"qn={spec.get('qnmode')}"]
        if t.coeff != 1:
            r.classes.append("rt.coeff_ne_1")
        has_qn = any(np.any(gen.site_sigmaqn(spec, i) != 0) for i in range(n))
        r.nontrivial = has_qn and max(t.bond_dims) > 1
        fname = os.path.join(tmp, "ttns.npz")
        extra = case["rng"] % 2 == 1
        if extra:
            # user attributes stored along with the state (other_attrs): they must come back, and so must the prefactor
            t.harness_note = np.array([1.5, -2.0])
            r.classes.append("rt.ttns.other_attrs")
        ok, _ = _guard(r, "rt.ttns.dump", t.dump, fname, *( [["harness_note"]] if extra else []))
        if not ok or not r.check("rt.ttns.dump.file", os.path.isfile(fname), f"{what}: dump wrote nothing"):
            return
        ok, y = _guard(r, "rt.ttns.load", TTNS.load, tree2, fname, *( [["harness_note"]] if extra else []))
        if not ok:
            return
        if extra:
            r.check("rt.ttns.other_attrs", hasattr(y, "harness_note") and np.array_equal(np.asarray(y.harness_note), t.harness_note),
                    f"{what}: attribute stored with other_attrs not restored")
        same = r.check("rt.ttns.nodes", len(y.node_list) == len(t.node_list), f"{what}: node count")
        if same:
            for i, (a, b) in enumerate(zip(t.node_list, y.node_list)):
                same &= r.check("rt.ttns.tensor", a.tensor.dtype == b.tensor.dtype and a.tensor.shape == b.tensor.shape and
                                np.array_equal(a.tensor, b.tensor), f"{what}: node {i} tensor differs")
                qa, qb = np.asarray(a.qn), np.asarray(b.qn)
                same &= r.check("rt.ttns.qn", qb.dtype.kind in "iu" and qa.shape == qb.shape and np.array_equal(qa, qb),
                                f"{what}: node {i} labels {qa.tolist()} -> {qb.tolist()} ({qb.dtype})")
        same &= r.check("rt.ttns.coeff", np.ndim(y.coeff) == 0 and complex(y.coeff) == complex(t.coeff), f"{what}: coeff {t.coeff!r} -> {y.coeff!r}")
        same &= r.check("rt.ttns.qntot", np.array_equal(np.asarray(t.qntot), np.asarray(y.qntot)), f"{what}: qntot {t.qntot} -> {y.qntot}")
        if not same:
            return
        if case.get("big"):
            r.classes.append(f"rt.ttns.nodes>={10 if len(t.node_list) > 10 else 0}")
            ok, d1 = _guard(r, "rt.ttns.big.todense", lambda: tree_dense(y))
            if ok:
                r.check_close("rt.ttns.big.dense", d1, tree_dense(t), 0.0, f"{what}: dense vector after the round trip")
            return
        fol = case["follow"]
        terms, _ = scaled_terms(spec, fol["hterms"], fol["hnorm"])
        if terms is None:
            return
        ok, ttno, _e = _try(lambda: TTNO(tree, build_ops(spec, terms)))
        ok2, ttno2, _e = _try(lambda: TTNO(tree2, build_ops(spec, terms)))
        if not (ok and ok2):
            r.classes.append("follow.ttno.original_raises")
            return

        def mk(op):
            def s_canon(x):
                x.canonicalise()
                return tree_dense(x)

            def s_compress(x):
                x.compress_config = CompressConfig(CompressCriteria.fixed, max_bonddim=fol["M"])
                x.compress()
                return tree_dense(x)

            def s_expect(x):
                return np.array([x.expectation(op)], dtype=complex)

            def s_evolve(x):
                x.evolve_config = EvolveConfig(EvolveMethod.tdvp_ps)
                x.compress_config = CompressConfig(CompressCriteria.fixed, max_bonddim=max(fol["M"], 4))
                z = x.evolve(op, -1j * fol["dt"] if fol["imag"] else fol["dt"])
                return np.concatenate([np.ravel(tree_dense(z)), [z.coeff]])

            def s_alias(x):
                # operations on a copy must not reach the object they were copied from
                c0 = complex(x.coeff)
                z = x.copy()
                z.normalize("ttns_and_coeff")
                z = z.scale(2.0, inplace=True)
                return np.array([complex(x.coeff) - c0])
            return [("canonicalise", s_canon), ("compress", s_compress), ("expectation", s_expect), ("evolve_tdvp_ps", s_evolve),
                    ("copy_independent", s_alias)]
        sx, sy = mk(ttno), mk(ttno2)
        steps = [(nm, (lambda fx, fy: (lambda x: fx(x) if x.basis is tree else fy(x)))(fx, fy)) for (nm, fx), (_, fy) in zip(sx, sy)]
        run_follow(r, "ttns", steps, t.copy(), y, what + " original vs loaded")
    finally:
        gc.collect()
        shutil.rmtree(tmp, ignore_errors=True)


# ------------------------------------------------------------------------------------------------
# part (b): crash safety
# ------------------------------------------------------------------------------------------------

def run_crash(case, r):
    js1, js2 = case["job"], case.get("restart")
    if case.get("mode") == "death":
        t = cu.enumerate_death(js1, js2, r)
    else:
        t = cu.enumerate_inproc(js1, js2, r)
    if r.rejected:
        return
    n = t.n
    r.info.update(n)
    r.classes += [f"crash.{case.get('mode', 'inproc')}.history", f"crash.job.{js1['kind']}", f"crash.nsteps={js1['nsteps']}",
                  f"crash.dump_mps={js1['dump_mps']}", "crash.restart" if js2 is not None else "crash.single_run"]
    # enumerated crash sequences go into the class histogram (one label per sequence)
    m = "sigkill" if case.get("mode") == "death" else "inproc"
    r.classes += [f"crash.points.{m}.single_level"] * n["l1"] + [f"crash.points.{m}.two_level"] * n["l2"]
    r.classes += [f"crash.points.{m}.single_level.oracle_binding"] * n["l1.required"]
    r.classes += [f"crash.points.{m}.two_level.oracle_binding"] * n["l2.required"]
    r.classes += [f"crash.points.{m}.single_level.inside_write_step>=2"] * n["l1.inside_write"]
    r.classes += [f"crash.points.{m}.two_level.restart_into_partial_file"] * n["l2.after_partial"]
    if getattr(t, "not_killed", 0):
        r.classes += ["crash.death.child_not_killed"] * t.not_killed
    r.nontrivial = n["l1.inside_write"] > 0 or n["l2.after_partial"] > 0


def _toy(nsteps, dump_mps, alen=50):
    return {"kind": "toy", "nsteps": nsteps, "dump_mps": dump_mps, "alen": alen}


def _thermal(nsteps, dump_mps, exact=True):
    return {"kind": "thermal", "nsteps": nsteps, "dump_mps": dump_mps, "exact": exact, "space": "EX", "tau": 0.05,
            "holstein": {"mols": [{"e": 0.3, "ph": [{"w0": 1.0, "w1": 1.0, "d": 0.5, "nbas": 2}]}], "J": 0.2, "scheme": 1}}


_F11_MSG = re.compile(r"l1\.step=(\d+) l1\.partial_result=1 .*l2\.step=1 ")


def match_f11(spec, sig, msg):
    """restart present AND the first crash left a partially written result file of a step >= 2 AND the second crash happened
    within the first dump of the restarted job"""
    if sig != "crash.restart_after_partial_write.no_complete_file":
        return False
    if spec.get("part") != "crash" or not spec.get("restart"):
        return False
    m = _F11_MSG.search(msg)
    return bool(m) and int(m.group(1)) >= 2


def match_mpo_lists(spec, sig, msg):
    """an Mpo loaded through the inherited MatrixProduct.load carries nested lists (not arrays) as bond labels: apply() raises"""
    return (spec.get("part") == "rt" and sig.startswith("rt.mpo.follow.apply.exc.AttributeError")
            and "'list' object has no attribute 'shape'" in msg)


class C14(Prop):
    id = "C14"
    level = "fault_enumeration"
    rule = ("Three kinds of cases. rt: Hypothesis draws a chain model (2-5 sites, 0/1/2 quantum numbers) and a program (random / "
            "product / ground / dense constructors, operators, sums, operator application, prefactor changes, MpDm.from_mps, gauge "
            "moves incl. move_qnidx and partial canonicalisation); up to 2 Mps, 1 MpDm and 1 Mpo of the final registers are dumped to "
            "a per-case temporary directory and loaded back; all attributes are compared bit-wise and an identical follow-up program "
            "(canonicalise, compress(M), expectation, one tdvp_ps step in real or imaginary time) is run on original and loaded "
            "object; in half of the cases the same is repeated with every site tensor spilled to disk (dump_matrix_size=1). "
            "tree: the same for TTNS (linear/binary/MCTDH/T3NS; random, product, sums). crash: a job history (harness TdMpsJob "
            "subclass or ThermalProp on a tiny Holstein model, 1-4 steps, dump_mps None/one/all) for which EVERY crash instant is "
            "enumerated (before each mutating file-system call of the dumps and 4 byte-truncation classes inside each write; in "
            "mode 'death' a real SIGKILL at every traced system call), optionally followed by a restart in the left-over directory "
            "crashed at EVERY instant of its first two dumps. Non-trivial = (rt/tree) a non-product state with quantum numbers; "
            "(crash) the history contains a crash strictly inside a write of step >= 2 or a restart into a directory holding a "
            "partial file")
    assumptions = ["only the format versions the library writes are round-tripped (chain '0.4', tree '0.1'); the loaders' legacy "
                   "branches (0.1-0.3) have no writer in the tree",
                   "compress_config / evolve_config are not part of the dump format: the follow-up program sets them explicitly on "
                   "both objects, as the in-repo callers do",
                   "follow-up results must agree to 1e-12*max(1,||result||) (observed: bit-identical, 0.0)",
                   "a follow-up step that raises on the ORIGINAL object is skipped (not a statement about dump/load)",
                   "crash = process death (BaseException in-process, SIGKILL under strace); no power-loss / page-cache model",
                   "complete result file = every member of the archive can be read and the content equals the dump dict the job "
                   "produced at that step (checksum array is a function of run and step)",
                   "required after a crash in dump k: a complete file of step k or k-1 (k-1 >= 1); in a restarted run's first dump: "
                   "a complete file of the earlier run or of the new run; nothing while the first dump into an empty directory is in "
                   "progress",
                   "the restarted ThermalProp uses another step size so that its files are distinguishable from the first run's"]

    known_matchers = {"F11": match_f11, "FC14a": match_mpo_lists}

    def budget(self, tier):
        return dict(examples=448, shards=16) if tier == "quick" else dict(examples=4000, shards=16)

    def strategy(self, tier):
        return cases(tier)

    def finite_cases(self, tier):
        out = [{"part": "crash", "mode": "inproc", "job": _toy(2, None), "restart": _toy(1, None)},
               {"part": "crash", "mode": "inproc", "job": _toy(3, "one"), "restart": None},
               {"part": "crash", "mode": "inproc", "job": _thermal(2, "one"), "restart": None},
               {"part": "crash", "mode": "death", "job": _toy(2, None, 3000), "restart": _toy(1, None, 3000)}]
        if tier == "thorough":
            for n in (1, 2, 3, 4):
                for dm in (None, "one", "all"):
                    out.append({"part": "crash", "mode": "inproc", "job": _toy(n, dm), "restart": None})
                    out.append({"part": "crash", "mode": "inproc", "job": _toy(n, dm), "restart": _toy(2, dm)})
            # real process death, every traced system call (x every traced call of the restarted job's dumps)
            for n in (1, 2, 3):
                out.append({"part": "crash", "mode": "death", "job": _toy(n, None, 3000), "restart": _toy(2, None, 3000)})
            out.append({"part": "crash", "mode": "death", "job": _toy(1, "one", 3000), "restart": _toy(2, "one", 3000)})
            out.append({"part": "crash", "mode": "death", "job": _toy(2, "all", 3000), "restart": _toy(1, "all", 3000)})
            out.append({"part": "crash", "mode": "death", "job": _toy(2, "one", 3000), "restart": _toy(1, None, 3000)})
            out.append({"part": "crash", "mode": "death", "job": _toy(4, "all", 20000), "restart": None})
            for exact in (True, False):
                out.append({"part": "crash", "mode": "death", "job": _thermal(3, "one", exact), "restart": None})
                out.append({"part": "crash", "mode": "death", "job": _thermal(2, None, exact), "restart": _thermal(2, None, exact)})
            out.append({"part": "crash", "mode": "death", "job": _thermal(1, "one", True), "restart": _thermal(1, "one", True)})
        return out

    def run_case(self, case):
        r = Result()
        part = case.get("part")
        if part == "rt":
            run_rt(case, r)
        elif part == "tree":
            run_tree(case, r)
        else:
            run_crash(case, r)
        r.classes.append(f"part.{part}")
        return r

    def sample_view(self, case):
        if case.get("part") == "crash":
            return case
        v = {"part": case["part"], "sites": [s["k"] for s in case["model"]["sites"]], "qnmode": case["model"].get("qnmode")}
        if case["part"] == "rt":
            v.update(prog=[{k: x for k, x in i.items() if k != "terms"} for i in case["prog"]], spill=case["spill"],
                     follow={k: x for k, x in case["follow"].items() if k != "hterms"})
        else:
            v.update({k: case[k] for k in ("shape", "create", "m", "cplx", "coeff", "pre")})
        return v


PROP = C14()

"""C15 — the symbolic operator algebra (Op / OpSum / scalars) is a faithful homomorphism.

A case is a small model plus an *expression program*: a list of instructions over a register file of
library objects (``Op``, ``OpSum``, plain ``list`` of ``Op``).  Every register carries, next to the library
object, a harness-side dense matrix ``ref`` that is computed by ordinary matrix algebra from the
``ref`` of the operands (sum, difference, scalar multiple, matrix product).  After every instruction the
dense matrix *denoted by the library object* (``den``: every simple symbol -> its single-symbol local matrix
of the basis set, embedded on the site of its DoF, multiplied in written order, times the factor; terms
added) is compared with ``ref``.  Further sub-checks: structure of products (symbols / DoFs / quantum
numbers are concatenated, total quantum number additive), operands are not mutated (except the target of
``+=``), ``simplify(atol)`` (tolerance bound, no two equal terms left, no negligible term left),
``squeeze_identity``, ``split_elementary``, ``==`` / ``!=`` / ``hash`` consistency for twins built by
different routes, ``Model.check_operator_terms`` (ravel, zero filter, unknown DoF) and finally
``Mpo(model, expr).todense() == den(expr)`` whenever the model accepts the expression with product
semantics.  Operands of invalid type must be refused (TypeError / ValueError / a deliberate ``assert``)
and never produce a result.
"""
import operator

import numpy as np
from hypothesis import strategies as st

from vf.core import Prop, Result, lib_exception_sig
from vf import gen

# ------------------------------------------------------------------------------------------------
# tolerances (all relative to scale = sum_k |c_k| * prod ||single-symbol local matrices||_2)
# ------------------------------------------------------------------------------------------------
RTOL_ALG = 1e-11      # identities that hold exactly up to rounding (observed <= 3e-14, see report)
RTOL_MPO = {"qr": 1e-7, "Hopcroft-Karp": 1e-9}   # as C01: QR cuts at 1e-10 relative, graph algorithms are exact

MAX_TERMS = 40
MAX_WORDS = 9

BDAGB = r"b^\dagger + b"

SPIN_FULL = ["X", "Y", "Z", "+", "-", "iY", "I", "I", "sigma_x", "sigma_y", "sigma_z", "sigma_+", "sigma_-"]
SPIN_QN = ["Z", "+", "-", "I", "I", "sigma_z", "sigma_+", "sigma_-"]
ELEC = [r"a^\dagger", "a", "I"]
SHO = ["x", "b", r"b^\dagger", BDAGB, "n", "I"]
COMPLEX_WORDS = ("Y", "sigma_y", "y")

PLAIN_SCALARS = ("int", "float", "complex", "np.int64", "np.float64", "np.float32", "np.complex128")
ALL_SCALARS = PLAIN_SCALARS + ("arr0d_int", "arr0d_float")
ZERO_D_BIASED = PLAIN_SCALARS + ("arr0d_int", "arr0d_int", "arr0d_int", "arr0d_float")


# ------------------------------------------------------------------------------------------------
# generators
# ------------------------------------------------------------------------------------------------

@st.composite
def _site(draw, qnmode):
    if qnmode == 2:
        k = draw(st.sampled_from(["spin", "spin", "spin", "elec"]))
        if k == "spin":
            return {"k": "spin", "qn": draw(st.sampled_from([[[0, 0], [1, 0]], [[0, 0], [0, 1]], [[0, 0], [0, 0]],
                                                              [[0, 0], [0, 0]]]))}
        return {"k": "elec", "qn": draw(st.sampled_from([[[0, 0], [1, 0]], [[0, 0], [0, 1]]]))}
    k = draw(st.sampled_from(["spin", "spin", "spin", "spin", "elec", "elec", "mvac", "sho"]))
    if k == "spin":
        s = {"k": "spin"}
        if qnmode == 1:
            s["qn"] = draw(st.sampled_from([[[0], [1]], [[1], [0]], [[0], [0]], [[0], [0]]]))
        return s
    if k == "elec":
        return {"k": "elec"}
    if k == "mvac":
        return {"k": "mvac", "n": 2}
    return {"k": "sho", "omega": draw(st.sampled_from([0.5, 1.0, 1.7])), "nbas": draw(st.integers(2, 3)), "x0": 0.0,
            "dvr": False}


@st.composite
def _model(draw):
    qnmode = draw(st.sampled_from([0, 0, 1, 2, 2]))
    n = draw(st.integers(1, 4))
    sites, dim = [], 1
    for _ in range(n):
        s = draw(_site(qnmode))
        if dim * gen.site_nbas(s) > 54:
            break
        dim *= gen.site_nbas(s)
        sites.append(s)
    return {"names": draw(st.integers(0, 2)), "sites": sites, "qnmode": qnmode}


def _alphabet(model, i):
    s = model["sites"][i]
    if s["k"] == "spin":
        if s.get("qn") is not None and np.any(np.array(s["qn"]) != 0):
            return SPIN_QN
        return SPIN_FULL
    if s["k"] in ("elec", "mvac"):
        return ELEC
    return SHO


_MANT = [1.0, -1.0, 0.5, -2.5, 3.0, 0.7, 2.0, -0.04]


@st.composite
def _scalar(draw, kinds=PLAIN_SCALARS, nonzero=False):
    k = draw(st.sampled_from(kinds))
    if k in ("int", "np.int64", "arr0d_int"):
        v = draw(st.sampled_from([1, -1, 2, -2, 3, -3, 5, 0] if not nonzero else [1, -1, 2, -2, 3, -3, 5]))
        return {"k": k, "v": [v, 0]}
    e = draw(st.integers(-3, 2))
    if draw(st.integers(0, 11)) == 0:
        e = draw(st.sampled_from([-9, -12]))  # tiny but non-zero factors: only an exactly zero term may be dropped silently
    m = draw(st.sampled_from(_MANT))
    if not nonzero and draw(st.integers(0, 15)) == 0:
        m = 0.0
    re = m * 10.0 ** e
    if k in ("complex", "np.complex128"):
        ph = draw(st.sampled_from([0.0, 0.5, 1.5707963267948966, 2.0, 4.5]))
        return {"k": k, "v": [float(re * np.cos(ph)), float(re * np.sin(ph))]}
    return {"k": k, "v": [float(re), 0]}


FACTOR_KINDS = ("int", "float", "float", "complex", "np.int64", "np.float64", "np.complex128", "quantity")


@st.composite
def _factor(draw):
    k = draw(st.sampled_from(FACTOR_KINDS))
    if k == "quantity":
        return {"k": k, "v": draw(_scalar(("float",)))["v"]}
    return draw(_scalar((k,)))


@st.composite
def _words(draw, model, nmax=4):
    ns = len(model["sites"])
    n = draw(st.integers(1, nmax))
    out = []
    for j in range(n):
        if out and draw(st.integers(0, 1)) == 0:
            site = draw(st.sampled_from(out))[0]  # repeated DoF / site
        else:
            site = draw(st.integers(0, ns - 1))
        w = draw(st.sampled_from(_alphabet(model, site)))
        ld = draw(st.integers(0, 1)) if model["sites"][site]["k"] == "mvac" else 0
        out.append([site, w, ld])
    return out


@st.composite
def _lit(draw, model):
    words = draw(_words(model))
    qm = model["qnmode"]
    form = draw(st.sampled_from({0: ["none", "none", "none", "phys_list", "phys_int", "phys_arr", "arb"],
                                 1: ["phys_int", "phys_list", "phys_arr", "phys_list", "arb", "none"],
                                 2: ["phys_list", "phys_list", "phys_arr", "phys_tuple", "arb"]}[qm]))
    ins = {"op": "lit", "words": words, "f": draw(_factor()), "qn": form,
           "dof": draw(st.sampled_from(["list", "shared"]))}
    if form == "arb":
        qs = 2 if qm == 2 else 1
        ins["arb"] = [[draw(st.integers(-1, 1)) for _ in range(qs)] for _ in words]
    return ins


BIN = ["add", "sub", "mul", "iadd"]
OPS_WEIGHTED = (["lit"] * 3 + ["ident"] + ["add"] * 4 + ["sub"] * 3 + ["mul"] * 6 + ["smul"] * 2 + ["rsmul"] * 2 + ["div"] * 2 +
                ["neg"] * 2 + ["iadd"] * 2 + ["sum"] + ["addn"] * 3 + ["prod"] * 2 + ["sprod"] * 2 + ["simplify"] * 5 + ["squeeze"] * 3 +
                ["copy", "tolist"] + ["split"] * 2 + ["twin"] * 3 + ["bad"] * 2 + ["zero"] + ["checkterms"])

N_BAD = 36
ADDN_PATTERNS = [[0, 1, 0, 0], [0, 1, 0, 1, 0], [0, 0, 0], [0, 1, 1, 0, 1], [1, 0, 2, 0, 0], [0, 1, 2, 0, 1], [0, 0, 1, 0], [2, 1, 2, 0, 2]]


@st.composite
def _instr(draw, model):
    op = draw(st.sampled_from(OPS_WEIGHTED))
    if op == "lit":
        return draw(_lit(model))
    ins = {"op": op, "a": draw(st.integers(0, 7))}
    if op in BIN or op in ("smul", "rsmul", "neg", "squeeze", "split", "twin"):
        # preferred operand kinds (first live register of that kind, cyclically from the index; any register if none)
        ins["ka"] = draw(st.sampled_from(["any", "op", "sum", "sum", "list"] if op in ("add", "mul") else ["any", "op", "sum", "sum"]))
    if op in BIN:
        # operands drawn from a small range so that a register meets itself often (a+a, a-a, a*a)
        ins["b"] = draw(st.integers(0, 7))
        ins["kb"] = draw(st.sampled_from(["any", "op", "sum", "sum", "list"]))
    elif op == "ident":
        ns = len(model["sites"])
        ins["sites"] = [[draw(st.integers(0, ns - 1)), draw(st.integers(0, 1))] for _ in range(draw(st.integers(1, 3)))]
        ins["aslist"] = draw(st.booleans())
        ins["f"] = draw(_factor())
    elif op in ("smul", "rsmul"):
        ins["c"] = draw(_scalar(ZERO_D_BIASED if draw(st.integers(0, 3)) == 0 else PLAIN_SCALARS))
    elif op == "div":
        ins["c"] = draw(_scalar(ALL_SCALARS if draw(st.integers(0, 5)) == 0 else PLAIN_SCALARS, nonzero=True))
    elif op == "addn":
        # chained + / - over 3-5 operands drawn from a very small index range: the same term occurs 3 or more times
        ins["regs"] = draw(st.sampled_from(ADDN_PATTERNS)) if draw(st.booleans()) else \
            [draw(st.integers(0, 2)) for _ in range(draw(st.integers(3, 5)))]
        ins["signs"] = [draw(st.sampled_from([1, 1, -1])) for _ in ins["regs"]]
        ins["simp"] = draw(st.sampled_from([None, 0, 0, 1e-6, 0.05, 0.5]))  # simplify the chain right away
    elif op in ("sum", "prod", "sprod"):
        ins["regs"] = [draw(st.integers(0, 7)) for _ in range(draw(st.integers(1, 3)))]
        ins["start"] = draw(st.booleans())
    elif op == "simplify":
        ins["atol"] = draw(st.sampled_from([0, 0, 0.0, 1e-12, 1e-6, 1e-3, 0.05, 0.5, 2.0]))
    elif op in ("squeeze", "split"):
        ins["b"] = draw(st.integers(0, 7))
    elif op == "twin":
        ins["route"] = draw(st.integers(0, 5))
        ins["fv"] = draw(st.integers(0, 5))
        ins["qv"] = draw(st.integers(0, 5))
        ins["dv"] = draw(st.integers(0, 1))
        ins["pert"] = draw(st.integers(0, 3))
        ins["b"] = draw(st.integers(0, 7))
    elif op == "bad":
        ins["which"] = draw(st.integers(0, N_BAD - 1))
    elif op == "zero":
        ins["which"] = draw(st.integers(0, 9))
    elif op == "checkterms":
        ins["b"] = draw(st.integers(0, 7))
    return ins


@st.composite
def programs(draw, tier):
    model = draw(_model())
    n0 = draw(st.integers(2, 3))
    n = draw(st.integers(3, 10 if tier == "quick" else 18))
    prog = [draw(_lit(model)) for _ in range(n0)]
    prog.append({"op": draw(st.sampled_from(["add", "add", "sub"])), "a": 0, "b": 1, "ka": "any", "kb": "any"})  # a first OpSum
    prog += [draw(_instr(model)) for _ in range(n)]
    tie = {"algo": draw(st.sampled_from(["qr", "Hopcroft-Karp"])),
           "form": draw(st.sampled_from(["direct", "direct", "nested", "ham"])),
           "a": draw(st.integers(0, 7)), "b": draw(st.integers(0, 7))}
    return {"model": model, "prog": prog, "tie": tie}


# ------------------------------------------------------------------------------------------------
# harness-side evaluator
# ------------------------------------------------------------------------------------------------

def tokens(symbol):
    """harness tokenisation of a symbol string into simple symbols (``b^\\dagger + b`` is one simple symbol)."""
    return [BDAGB if w == r"b^\dagger+b" else w for w in symbol.replace(BDAGB, r"b^\dagger+b").split(" ")]


def verbatim_tokens(symbol):
    r"""simple symbols of a symbol string in their original spelling ('b^\dagger + b' and 'b^\dagger+b' are kept apart)."""
    return [BDAGB if w == "\0" else w for w in symbol.replace(BDAGB, "\0").split(" ")]


def ambiguous(words):
    """the documented grammar (simple symbols separated by one space, 'b^\\dagger + b' being ONE simple symbol) cannot spell
    this sequence of simple symbols unambiguously, e.g. 'b^\\dagger', '+' (spin raising), 'b' or 'b^\\dagger', '+', 'b^\\dagger'"""
    return verbatim_tokens(" ".join(words)) != list(words)


class Ctx:
    """per-case harness state: basis list, DoF -> (site, local index), single-symbol local matrices."""

    def __init__(self, model):
        self.model = model
        self.bl = gen.build_basis_list(model)
        self.dims = gen.pdims(model)
        self.D = int(np.prod(self.dims))
        self.qs = gen.qn_size(model)
        self.dofmap = {}
        for i in range(len(model["sites"])):
            for j, d in enumerate(gen.site_dofs(model, i)):
                self.dofmap[d] = (i, j)
        self.dof_to_site = {d: s for d, (s, _) in self.dofmap.items()}
        self._mat = {}
        self.eyes = [np.eye(d) for d in self.dims]

    def dof(self, site, ld):
        return gen.site_dofs(self.model, site)[ld]

    def wordmat(self, site, word, ld):
        key = (site, word, ld)
        m = self._mat.get(key)
        if m is None:
            from renormalizer.model import Op

            try:
                mat = np.asarray(self.bl[site].op_mat(Op(word, self.dof(site, ld))))
            except ValueError as e:
                raise _Malformed(f"the basis set of site {site} does not know the simple symbol {word!r}: {e}")
            m = (mat, float(np.linalg.norm(mat, 2)))
            self._mat[key] = m
        return m

    def den_words(self, words):
        """dense matrix and norm bound of a product of simple symbols [(site, word, ld)] in written order."""
        acc = list(self.eyes)
        nrm = 1.0
        for site, w, ld in words:
            m, n = self.wordmat(site, w, ld)
            acc[site] = acc[site] @ m
            nrm *= n
        return gen.kron_all(acc), nrm

    def words_of(self, op):
        """[(site, word, ld)] of a library Op, from its public fields, harness tokenisation."""
        tk = tokens(op.symbol)
        dofs = list(op.dofs)
        if len(tk) != len(dofs):
            raise _Malformed(f"{len(tk)} simple symbols but {len(dofs)} DoFs in {rp(op)}")
        out = []
        for w, d in zip(tk, dofs):
            if d not in self.dofmap:
                raise _Malformed(f"DoF {rp(d)} of {rp(op)} is not a DoF of the model")
            s, ld = self.dofmap[d]
            out.append((s, w, ld))
        return out

    def den_terms(self, terms):
        """(dense, scale, maxnorm) denoted by a list of library Ops."""
        tot = np.zeros((self.D, self.D), dtype=complex)
        scale = 0.0
        mx = 0.0
        for t in terms:
            m, n = self.den_words(self.words_of(t))
            f = complex(t.factor)
            tot += f * m
            scale += abs(f) * n
            mx = max(mx, n)
        return tot, scale, mx


class _Malformed(Exception):
    pass


def rp(x):
    """repr that cannot raise (Op.__str__ builds an array from qn_list and fails on ragged lists)"""
    try:
        return repr(x)
    except Exception as e:  # noqa
        return f"<unprintable {type(x).__name__}: {type(e).__name__}>"


class Reg:
    __slots__ = ("obj", "kind", "ref", "scale", "taint")

    def __init__(self, obj, kind, ref, scale, taint=False):
        self.obj, self.kind, self.ref, self.scale, self.taint = obj, kind, ref, scale, taint

    def terms(self):
        return [self.obj] if self.kind == "op" else list(self.obj)

    def nterms(self):
        return 1 if self.kind == "op" else len(self.obj)

    def maxwords(self):
        return max([len(t.dofs) for t in self.terms()] or [0])


def kind_of(obj):
    from renormalizer.model import Op, OpSum

    if isinstance(obj, Op):
        return "op"
    if isinstance(obj, OpSum):
        return "sum"
    if isinstance(obj, list):
        return "list"
    return None


def struct(t):
    """harness view of the structure of one library Op (without the factor)."""
    return (tuple(tokens(t.symbol)), tuple(t.dofs), tuple(tuple(int(x) for x in np.asarray(q).reshape(-1)) for q in t.qn_list))


def snap(obj):
    ts = [obj] if kind_of(obj) == "op" else list(obj)
    return [(t.symbol, tuple(t.dofs), complex(t.factor), struct(t)[2]) for t in ts]


def make_scalar(c):
    k, (re, im) = c["k"], c["v"]
    if k == "int":
        return int(re)
    if k == "float":
        return float(re)
    if k == "complex":
        return complex(re, im)
    if k == "np.int64":
        return np.int64(int(re))
    if k == "np.float64":
        return np.float64(re)
    if k == "np.float32":
        return np.float32(re)
    if k == "np.complex128":
        return np.complex128(complex(re, im))
    if k == "arr0d_int":
        return np.array(int(re))
    if k == "arr0d_float":
        return np.array(float(re))
    if k == "quantity":
        from renormalizer.utils import Quantity

        return Quantity(float(re))
    raise ValueError(k)


def scalar_value(c, obj):
    if c["k"] == "quantity":
        return complex(float(c["v"][0]))
    if isinstance(obj, np.ndarray):
        return complex(obj.item())
    return complex(obj)


def must_ok(op, ka, kb=None, sk=None):
    """combinations inside the documented domain: an exception there is a violation."""
    if op == "add":
        return ka in ("op", "sum") and kb in ("op", "sum", "list")
    if op == "sub":
        return ka in ("op", "sum") and kb in ("op", "sum")
    if op == "mul":
        return (ka in ("op", "sum") and kb in ("op", "sum", "list")) or (ka == "list" and kb == "op")
    if op in ("smul", "rsmul"):
        return ka in ("op", "sum") and sk in PLAIN_SCALARS
    if op == "div":
        return ka == "sum" and sk in PLAIN_SCALARS
    if op == "neg":
        return ka in ("op", "sum")
    if op == "iadd":
        return ka in ("op", "sum") and kb in ("op", "sum", "list")
    return False


REFUSAL = (TypeError, ValueError, AssertionError)


class C15(Prop):
    id = "C15"
    rule = ("Hypothesis draws a model (1-4 sites: spin-1/2, simple electron, 2-DoF multi-electron-with-vacuum, SHO; 0/1/2 "
            "quantum-number components; int/str/tuple DoF names) and an expression program of 5-13 (thorough: -21) instructions over "
            "registers of Op / OpSum / list: literals (1-4 simple symbols, DoFs repeated with p=1/2, factor int/float/complex/NumPy/"
            "Quantity, qn None/int/list/array/arbitrary), identity, Op.product, OpSum.product, + - * (all operand kind pairs), "
            "scalar * and / on both sides, unary -, +=, sum(), chained a+b-a+a (same term 3+ times), 0+Op, simplify(atol), squeeze_identity, "
            "split_elementary, copy, Model.check_operator_terms, "
            "equal-by-another-route twins, invalid operands; each instruction is checked against dense matrix algebra. "
            "non-trivial = the program executed >=1 product and >=1 sum of operators, or an operator with a repeated DoF, "
            "or >=2 quantum-number components, or a NumPy scalar")
    assumptions = ["single-symbol local matrices are taken from BasisSet.op_mat (their physics is C16's subject)",
                   "Mpo tie-in only for expressions whose per-site symbol groups the basis accepts with product semantics "
                   "(any word on spin sites; a^dagger, a, 'a^dagger a', I on electron sites; one simple symbol on SHO sites); "
                   "complex local matrices are accompanied by complex-typed factors (DESIGN 3.1)",
                   "algebra identities: 1e-11*scale (rounding only); Mpo: 1e-9*scale (Hopcroft-Karp), 1e-7*scale + 1e-10*#terms*#sites*max||term|| "
                   "(QR: library cuts 1e-10 relative on R and 1e-10 absolute on Q; QR only when every |factor| >= 1e-6), scale = "
                   "sum|c_k|*prod||single-symbol matrices||; OpSum / np.float32: 2e-6*scale (1/c is rounded to float32 by NumPy); simplify(atol): (#terms)*atol*max prod||.|| + 1e-11*scale",
                   "refusal of an invalid operand = TypeError, ValueError or a deliberate assert (AssertionError)",
                   "0-d NumPy arrays are treated as scalar-like operands outside the must-succeed domain: the library may refuse "
                   "them, but if it returns a result that result must denote the scalar multiple"]

    known_matchers = {
        # Op.squeeze_identity: `assert qn is None or qn == 0` on an array with >= 2 quantum-number components
        "F5": lambda spec, sig, msg: sig == "squeeze_identity.multi_qn_identity_ambiguous_truth"
        and spec["model"].get("qnmode") == 2,
        # OpSum * (0-d integer ndarray < 0) falls through to list repetition and returns the empty sum
        "F51": lambda spec, sig, msg: sig == "scalar0d.opsum_times_negative_int_array_is_empty_sum",
        # squeeze_identity rebuilds the symbol from split_symbol: the documented 'b^\dagger + b' becomes 'b^\dagger+b', so an
        # operator without any identity factor comes back != itself (and with another hash)
        "F53": lambda spec, sig, msg: sig == "squeeze.no_identity.respells_bdagger_plus_b"
        and any(s["k"] == "sho" for s in spec["model"]["sites"]),
        # the symbol grammar is ambiguous: 'b^\\dagger' '+' 'b...' written next to each other (product of valid Ops, or after
        # squeeze_identity removed an 'I' between them) is parsed as the simple symbol 'b^\\dagger + b' -> ValueError
        "F54": lambda spec, sig, msg: sig in ("grammar.bdagger_plus_b_ambiguity", "grammar.bdagger_plus_b_ambiguity.silent_misparse")
        and any(s["k"] == "sho" for s in spec["model"]["sites"]) and any(s["k"] == "spin" for s in spec["model"]["sites"]),
        # BasisMultiElectronVac.op_mat('I I' on one site) ignores op.factor -> Mpo of such a term is wrong
        "F52": lambda spec, sig, msg: sig == "tiein.multi_electron_identity_factor_dropped"
        and any(s["k"] == "mvac" for s in spec["model"]["sites"]),
    }

    def budget(self, tier):
        return dict(examples=2000, shards=8) if tier == "quick" else dict(examples=80000, shards=16)

    def strategy(self, tier):
        return programs(tier)

    def sample_view(self, spec):
        return {"sites": [s["k"] for s in spec["model"]["sites"]], "qnmode": spec["model"]["qnmode"],
                "program": [_brief(i) for i in spec["prog"]][:14], "tie": spec["tie"]}

    # --------------------------------------------------------------------------------------------
    def run_case(self, spec):
        return _Run(spec).run()


def _brief(ins):
    op = ins["op"]
    if op == "lit":
        return "lit " + " ".join(f"{w}@{s}" for s, w, _ in ins["words"]) + f" f={ins['f']['k']} qn={ins['qn']}"
    keys = [k for k in ("a", "b", "regs", "c", "atol", "which", "route") if k in ins]
    return op + " " + " ".join(f"{k}={ins[k]['k'] + ':' + str(ins[k]['v'][0]) if k == 'c' else ins[k]}" for k in keys)


class _Run:
    def __init__(self, spec):
        self.spec = spec
        self.model = spec["model"]
        self.r = Result()
        self.ctx = Ctx(self.model)
        self.regs = []
        self.n_prod = 0
        self.n_sumop = 0
        self.rep_dof = False
        self.np_scalar = False
        self.cls = set()

    # ---- helpers -------------------------------------------------------------------------------
    def reg(self, idx, kinds=None, prefer=None):
        n = len(self.regs)
        if prefer not in (None, "any"):
            for k in range(n):
                g = self.regs[(idx + k) % n]
                if g.kind == prefer and (kinds is None or g.kind in kinds):
                    return g
        for k in range(n):
            g = self.regs[(idx + k) % n]
            if kinds is None or g.kind in kinds:
                return g
        return None

    def call(self, fn, *args):
        try:
            return fn(*args), None
        except Exception as e:  # noqa
            return None, e

    def refused_or_fail(self, name, e, ok_expected, what, amb=None):
        """classify an exception raised by a library operation.  ``amb``: callable telling whether the symbol string the
        operation has to build is ambiguous under the documented grammar (evaluated only when needed)."""
        sig, in_lib = lib_exception_sig(e)
        if ok_expected and amb is not None and isinstance(e, (ValueError, AssertionError)) and sig.endswith("op.py:__init__") and amb():
            self.r.fail("grammar.bdagger_plus_b_ambiguity",
                        f"{what}: valid operands, but the joined symbol string is parsed as containing the simple symbol "
                        f"'b^\\dagger + b' -> {rp(e)}")
            self.cls.add("F54.region_hit")
            return
        if ok_expected:
            self.r.fail(f"{name}.{sig}", f"{what}: in-domain operation raised {rp(e)}")
            return
        if isinstance(e, REFUSAL):
            self.cls.add(f"refused.{name}")
            return
        self.r.fail(f"{name}.bad_refusal.{type(e).__name__}", f"{what}: out-of-domain operand raised {rp(e)} instead of TypeError/ValueError")

    def wellformed(self, name, obj):
        from renormalizer.model import Op

        k = kind_of(obj)
        if k is None:
            self.r.fail(f"{name}.result_type", f"result of type {type(obj).__name__}: {rp(obj)}"[:300])
            return None
        if k != "op" and not all(isinstance(t, Op) for t in obj):
            self.r.fail(f"{name}.result_contains_non_op", f"{rp(obj)}"[:300])
            return None
        return k

    def den_check(self, name, obj, ref, scale, extra_tol=0.0, what="", rebase=False, amb=None):
        """den(obj) == ref ; returns the Reg for obj (re-baselined on failure so that one defect is reported once)."""
        k = self.wellformed(name, obj)
        if k is None:
            return None
        terms = [obj] if k == "op" else list(obj)
        try:
            got, sc, _ = self.ctx.den_terms(terms)
        except _Malformed as e:
            if amb is not None and amb():
                # silent variant of the grammar ambiguity: the joined string has as many simple symbols as DoFs after the
                # mis-parse, so an Op with a nonsense symbol ('b^\\dagger+b^\\dagger') / shifted DoFs is returned
                self.r.fail("grammar.bdagger_plus_b_ambiguity.silent_misparse", f"{what or name}: {e}")
                self.cls.add("F54.region_hit")
            else:
                self.r.fail(f"{name}.malformed", str(e))
            return None
        scale = max(scale, 1e-300)
        ok = self.r.check_close(f"{name}.den", got / scale, ref / scale, RTOL_ALG + extra_tol / scale,
                                f"{what or name}: dense matrix denoted by the result vs matrix algebra on the operands (relative to scale)")
        for t in terms:
            if len(t.dofs) != len(set(t.dofs)):
                self.rep_dof = True
        keep = ok and not rebase
        return Reg(obj, k, ref if keep else got, scale if keep else max(sc, 1e-300))

    def unchanged(self, name, pairs):
        for g, before in pairs:
            now = snap(g.obj)
            self.r.check(f"{name}.operand_mutated", now == before, f"operand changed from {before} to {now}"[:600])

    def push(self, g, taint=False):
        if g is None:
            return
        g.taint = taint
        if len(self.regs) < 8:
            self.regs.append(g)
        else:
            self.regs[self._rot % 8] = g
            self._rot += 1

    _rot = 0

    # ---- instruction implementations -----------------------------------------------------------------
    def do_lit(self, ins):
        from renormalizer.model import Op

        ctx = self.ctx
        words = [tuple(w) for w in ins["words"]]
        dofs = [ctx.dof(s, ld) for s, _, ld in words]
        symbol = " ".join(w for _, w, _ in words)
        f = make_scalar(ins["f"])
        fval = scalar_value(ins["f"], f)
        if ins["f"]["k"].startswith("np."):
            self.np_scalar = True
        phys = []
        indefinite = False
        for s, w, ld in words:
            q = gen.word_qn(self.model, s, w, ld)
            if q is None:
                indefinite = True
                q = [0] * ctx.qs
            phys.append([int(x) for x in q])
        form = ins["qn"]
        taint = indefinite
        if form == "none":
            qn = None
            expect = [[1] if w == r"a^\dagger" else [-1] if w == "a" else [0] for _, w, _ in words]
            taint = taint or expect != phys
        elif form == "arb":
            expect = [[0] * len(a) if w == "I" else list(a) for a, (_, w, _) in zip(ins["arb"], words)]
            qn = [list(q) for q in expect]
            taint = taint or expect != phys
        else:
            expect = phys
            if form == "phys_int" and ctx.qs == 1:
                qn = [q[0] for q in phys]
                if len(words) == 1:
                    qn = qn[0]
            elif form == "phys_arr":
                qn = [np.array(q) for q in phys]
            elif form == "phys_tuple":
                qn = [tuple(q) for q in phys]
            else:
                qn = [list(q) for q in phys]
        if ins["dof"] == "shared" and len(set(dofs)) == 1:
            dofarg = dofs[0]
        else:
            dofarg = list(dofs)
        obj, e = self.call(Op, symbol, dofarg, f, qn)
        if e is not None:
            self.refused_or_fail("lit", e, True, f"Op({rp(symbol)}, {rp(dofarg)}, {rp(f)}, {rp(qn)})",
                                 amb=lambda: ambiguous([w for _, w, _ in words]))
            return
        m, n = ctx.den_words(words)
        g = self.den_check("lit", obj, fval * m, abs(fval) * n, what=f"Op({rp(symbol)}, {rp(dofarg)}, {rp(f)}, qn={rp(qn)})",
                           amb=lambda: ambiguous([w for _, w, _ in words]))
        if g is None:
            return
        st_ = struct(obj)
        self.r.check("lit.struct", st_ == (tuple(w for _, w, _ in words), tuple(dofs), tuple(tuple(q) for q in expect)),
                     f"fields of Op({rp(symbol)}, {rp(dofarg)}, qn={rp(qn)}): {st_}")
        self.r.check("lit.qn_total", list(np.asarray(obj.qn).reshape(-1)) == list(np.sum(np.array(expect), axis=0))
                     and obj.qn_size == len(expect[0]), f"qn {obj.qn} qn_size {obj.qn_size} expected sum of {expect}")
        self.cls.add(f"lit.words={len(words)}")
        self.cls.add(f"lit.qn={form}")
        self.cls.add(f"lit.f={ins['f']['k']}")
        self.push(g, taint)

    def do_ident(self, ins):
        from renormalizer.model import Op

        ctx = self.ctx
        ns = len(self.model["sites"])
        picks = []
        for s, ld in ins["sites"]:
            s = s % ns
            ld = ld % len(gen.site_dofs(self.model, s))
            picks.append((s, "I", ld))
        f = make_scalar(ins["f"])
        fval = scalar_value(ins["f"], f)
        if ins["aslist"]:
            dofarg = [ctx.dof(s, ld) for s, _, ld in picks]
        else:
            picks = picks[:1]
            dofarg = ctx.dof(picks[0][0], picks[0][2])
        obj, e = self.call(lambda: Op.identity(dofarg, qn_size=ctx.qs, factor=f))
        if e is not None:
            self.refused_or_fail("ident", e, True, f"Op.identity({rp(dofarg)})")
            return
        g = self.den_check("ident", obj, fval * np.eye(ctx.D), abs(fval), what=f"Op.identity({rp(dofarg)}, factor={rp(f)})")
        if g is not None:
            self.r.check("ident.fields", obj.is_identity and obj.qn_size == ctx.qs and not np.any(obj.qn),
                         f"is_identity={obj.is_identity} qn_size={obj.qn_size} qn={obj.qn}")
            self.push(g)

    def expected_struct(self, op, A, B):
        sa = [struct(t) for t in A]
        if op == "mul":
            return sorted(repr((x[0] + y[0], x[1] + y[1], x[2] + y[2])) for x in sa for y in [struct(t) for t in B])
        return sorted(repr(x) for x in sa + ([struct(t) for t in B] if B is not None else []))

    def struct_check(self, name, g, expected):
        got = sorted(repr(struct(t)) for t in g.terms())
        self.r.check(f"{name}.struct", got == expected,
                     f"symbols/DoFs/quantum numbers of the result terms {got[:6]} != concatenation/union of the operands' {expected[:6]}")

    def do_binary(self, ins):
        op = ins["op"]
        a, b = self.reg(ins["a"], prefer=ins.get("ka")), self.reg(ins["b"], prefer=ins.get("kb"))
        # a plain list of Op is a documented operand (Op + list, Op * list, list * Op, OpSum + list ...): when one is asked
        # for and no list register is live, the terms of an OpSum are handed over as a plain list
        if ins.get("ka") == "list" and a.kind == "sum" and op != "iadd":
            a = Reg(list(a.obj), "list", a.ref, a.scale, a.taint)
        if ins.get("kb") == "list" and b.kind == "sum":
            b = Reg(list(b.obj), "list", b.ref, b.scale, b.taint)
        na, nb = a.nterms(), b.nterms()
        if op == "mul":
            if na * nb > MAX_TERMS or a.maxwords() + b.maxwords() > MAX_WORDS:
                self.cls.add("skip.size")
                return
        elif na + nb > MAX_TERMS:
            self.cls.add("skip.size")
            return
        ok_exp = must_ok(op, a.kind, b.kind)
        name = f"{op}.{a.kind}_{b.kind}"
        before = [(a, snap(a.obj)), (b, snap(b.obj))]
        A, B = a.terms(), b.terms()
        fn = {"add": operator.add, "sub": operator.sub, "mul": operator.mul, "iadd": operator.iadd}[op]
        res, e = self.call(fn, a.obj, b.obj)
        amb = (lambda: any(ambiguous(verbatim_tokens(x.symbol) + verbatim_tokens(y.symbol)) for x in A for y in B)) if op == "mul" else None
        if e is not None:
            self.refused_or_fail(name, e, ok_exp, f"{a.kind} {op} {b.kind}", amb=amb)
            self.unchanged(name, before)
            return
        if op == "mul":
            ref, scale = a.ref @ b.ref, a.scale * b.scale
            self.n_prod += 1
        elif op == "sub":
            ref, scale = a.ref - b.ref, a.scale + b.scale
            self.n_sumop += 1
        else:
            ref, scale = a.ref + b.ref, a.scale + b.scale
            self.n_sumop += 1
        g = self.den_check(name, res, ref, scale, what=f"{a.kind} {op} {b.kind}", amb=amb)
        self.cls.add(f"bin.{name}")
        if a.obj is b.obj:
            self.cls.add(f"bin.{op}.same_object")
        if g is None:
            return
        self.struct_check(name, g, self.expected_struct(op, A, B))
        taint = a.taint or b.taint
        if op == "iadd" and res is a.obj:
            # in place: every register that aliases the target now denotes the new value
            if b.obj is not a.obj:  # (two registers may alias one OpSum: OpSum.product([s]) returns s itself)
                self.unchanged(name, before[1:])
            for h in self.regs:
                if h.obj is res:
                    h.ref, h.scale, h.taint = g.ref, g.scale, taint
            self.cls.add("iadd.inplace")
            return
        self.unchanged(name, before)
        self.r.check(f"{name}.fresh_object", res is not a.obj and res is not b.obj, "result is one of the operand objects")
        if op == "iadd":
            # rebinding form (Op += ...): only the target register changes
            a.obj, a.kind, a.ref, a.scale, a.taint = g.obj, g.kind, g.ref, g.scale, taint
            return
        self.push(g, taint)

    def do_scalar(self, ins):
        op = ins["op"]
        # a plain list is not a library object (list*int repeats, numpy broadcasts); only OpSum has a quotient
        a = self.reg(ins["a"], ("op", "sum"), prefer="sum" if (op == "div" and ins["a"] % 4) else ins.get("ka"))
        if a is None:
            return
        c = make_scalar(ins["c"])
        sk = ins["c"]["k"]
        cv = scalar_value(ins["c"], c)
        if sk.startswith("np."):
            self.np_scalar = True
        ok_exp = must_ok(op, a.kind, sk=sk)
        name = f"{op}.{a.kind}"
        before = [(a, snap(a.obj))]
        A = a.terms()
        if op == "smul":
            res, e = self.call(operator.mul, a.obj, c)
        elif op == "rsmul":
            res, e = self.call(operator.mul, c, a.obj)
        else:
            res, e = self.call(operator.truediv, a.obj, c)
        self.cls.add(f"scalar.{op}.{a.kind}.{sk}")
        if e is not None:
            self.refused_or_fail(f"{name}.{sk}" if not ok_exp else name, e, ok_exp, f"{a.kind} {op} {rp(c)}")
            self.unchanged(name, before)
            return
        if isinstance(res, np.ndarray) and res.shape == ():
            res = res.item()  # numpy wraps the result of  0-d array * Op  into a 0-d object array
        factor = 1.0 / cv if op == "div" else cv
        ref, scale = a.ref * factor, a.scale * abs(factor)
        if sk == "arr0d_int" and a.kind == "sum" and cv.real < 0 and kind_of(res) == "sum" and len(res) == 0 \
                and np.abs(a.ref).max() > 1e-9 * a.scale and op in ("smul", "rsmul"):
            self.r.fail("scalar0d.opsum_times_negative_int_array_is_empty_sum",
                        f"OpSum of {len(A)} terms {'*' if op == 'smul' else 'r*'} np.array({int(cv.real)}) returned the empty OpSum "
                        f"(list repetition) instead of the scalar multiple or a TypeError")
            self.unchanged(name, before)
            return
        lenient = "" if ok_exp else f".lenient.{sk}"
        # OpSum / c is documented as  self * (1/c) : with a float32 divisor 1/c is rounded to float32 (rel. 2**-24 = 6e-8);
        # this is NumPy's arithmetic for the operand type the caller chose, not a defect of the algebra
        extra = 2e-6 * scale if (op == "div" and sk == "np.float32") else 0.0
        g = self.den_check(name + (".float32" if extra else "") + lenient, res, ref, scale, extra_tol=extra, what=f"{a.kind} {op} {rp(c)}",
                           rebase=bool(extra))
        self.unchanged(name, before)
        if g is None:
            return
        if ok_exp:
            self.struct_check(name, g, self.expected_struct(op, A, None))
        self.push(g, a.taint)

    def do_neg(self, ins):
        a = self.reg(ins["a"], prefer=ins.get("ka"))
        name = f"neg.{a.kind}"
        before = [(a, snap(a.obj))]
        A = a.terms()
        res, e = self.call(operator.neg, a.obj)
        if e is not None:
            self.refused_or_fail(name, e, must_ok("neg", a.kind), f"-{a.kind}")
            return
        g = self.den_check(name, res, -a.ref, a.scale, what=f"-{a.kind}")
        self.unchanged(name, before)
        if g is not None:
            self.struct_check(name, g, self.expected_struct("neg", A, None))
            self.push(g, a.taint)

    def do_sum(self, ins):
        from renormalizer.model import OpSum

        gs = [self.reg(i) for i in ins["regs"]]
        if sum(g.nterms() for g in gs) > MAX_TERMS:
            return
        before = [(g, snap(g.obj)) for g in gs]
        objs = [g.obj for g in gs]
        if ins["start"]:
            res, e = self.call(lambda: sum(objs, OpSum()))
            ok_exp = all(g.kind in ("op", "sum", "list") for g in gs)
        else:
            res, e = self.call(lambda: sum(objs))
            ok_exp = gs[0].kind == "op" and all(g.kind in ("op", "sum", "list") for g in gs[1:])
        name = "sum.start" if ins["start"] else "sum"
        self.cls.add(f"{name}.first={gs[0].kind}")
        if e is not None:
            self.refused_or_fail(name, e, ok_exp, f"sum({[g.kind for g in gs]})")
            return
        ref = sum(g.ref for g in gs)
        g = self.den_check(name, res, ref, sum(g.scale for g in gs), what=f"sum({[x.kind for x in gs]})")
        self.unchanged(name, before)
        self.n_sumop += len(gs) > 1
        if g is not None:
            self.push(g, any(x.taint for x in gs))

    def do_addn(self, ins):
        gs = [self.reg(ins["a"] + i, ("op", "sum")) for i in ins["regs"]]
        if any(g is None for g in gs) or sum(g.nterms() for g in gs) > MAX_TERMS:
            return
        before = [(g, snap(g.obj)) for g in gs]
        def chain():
            acc = gs[0].obj if ins["signs"][0] > 0 else -gs[0].obj
            for g, sg in zip(gs[1:], ins["signs"][1:]):
                acc = acc + g.obj if sg > 0 else acc - g.obj
            return acc
        res, e = self.call(chain)
        if e is not None:
            self.refused_or_fail("addn", e, True, "a +/- b +/- c ...")
            return
        ref = sum(sg * g.ref for g, sg in zip(gs, ins["signs"]))
        h = self.den_check("addn", res, ref, sum(g.scale for g in gs), what=f"chained +/- of {[g.kind for g in gs]}")
        self.unchanged("addn", before)
        self.n_sumop += 1
        self.cls.add(f"addn.n={len(gs)}")
        if h is not None:
            self.push(h, any(g.taint for g in gs))
            if ins.get("simp") is not None:
                self.do_simplify({"a": [i for i, g in enumerate(self.regs) if g is h][0], "atol": ins["simp"]})

    def do_prod(self, ins):
        from renormalizer.model import Op, OpSum

        if ins["op"] == "prod":
            gs = [self.reg(i, ("op",)) for i in ins["regs"]]
            if any(g is None for g in gs):
                return
            if sum(g.maxwords() for g in gs) > MAX_WORDS:
                return
            fn, name = Op.product, "Op.product"
        else:
            gs = [self.reg(i, ("op", "sum")) for i in ins["regs"]]
            if any(g is None for g in gs):
                return
            nt = 1
            for g in gs:
                nt *= g.nterms()
            if nt > MAX_TERMS or sum(g.maxwords() for g in gs) > MAX_WORDS:
                return
            fn, name = OpSum.product, "OpSum.product"
        before = [(g, snap(g.obj)) for g in gs]
        res, e = self.call(fn, [g.obj for g in gs])

        def amb():
            import itertools
            return any(ambiguous([w for t in combo for w in verbatim_tokens(t.symbol)])
                       for combo in itertools.product(*[g.terms() for g in gs]))
        if e is not None:
            self.refused_or_fail(name, e, True, f"{name}({[g.kind for g in gs]})", amb=amb)
            return
        ref, scale = gs[0].ref, gs[0].scale
        exp = [struct(t) for t in gs[0].terms()]
        for g in gs[1:]:
            ref, scale = ref @ g.ref, scale * g.scale
            exp = [(x[0] + y[0], x[1] + y[1], x[2] + y[2]) for x in exp for y in [struct(t) for t in g.terms()]]
        h = self.den_check(name, res, ref, scale, what=f"{name}({[g.kind for g in gs]})", amb=amb)
        self.unchanged(name, before)
        self.n_prod += len(gs) > 1
        self.cls.add(f"{name}.n={len(gs)}")
        if h is not None:
            self.struct_check(name, h, sorted(repr(x) for x in exp))
            if ins["op"] == "prod":
                self.r.check("Op.product.type", h.kind == "op", f"Op.product returned {type(res).__name__}")
            self.push(h, any(g.taint for g in gs))

    # -- simplification -----------------------------------------------------------------------------------
    def is_f5(self, e, terms):
        """the pre-identified suspect: squeeze_identity's `assert qn is None or qn == 0` on a >=2-component array."""
        sig, in_lib = lib_exception_sig(e)
        if not (isinstance(e, ValueError) and "truth value of an array" in str(e) and sig.endswith("op.py:squeeze_identity")):
            return False
        for t in terms:
            tk = tokens(t.symbol)
            if t.qn_size >= 2 and "I" in tk and set(tk) != {"I"}:
                return True
        return False

    def do_simplify(self, ins):
        from renormalizer.model import OpSum

        a = self.reg(ins["a"])
        obj = a.obj
        if a.kind != "sum":
            obj, e = self.call(OpSum, a.terms())  # OpSum([op]) / OpSum(list): public constructor
            if e is not None:
                self.refused_or_fail("OpSum()", e, True, "OpSum(list of Op)")
                return
        atol = ins["atol"]
        T = list(obj)
        before = snap(obj)
        res, e = self.call(obj.simplify, atol)
        self.cls.add(f"simplify.atol={atol:g}")
        if e is not None:
            if self.is_f5(e, T):
                self.r.fail("squeeze_identity.multi_qn_identity_ambiguous_truth",
                            f"OpSum.simplify({atol}) on terms with {T[0].qn_size} quantum-number components and an identity factor: {rp(e)}")
                self.cls.add("F5.region_hit")
            else:
                self.refused_or_fail("simplify", e, True, f"simplify(atol={atol}) of {rp(T)}"[:400],
                                     amb=lambda: any(ambiguous([w for w in verbatim_tokens(t.symbol) if w != "I"]) for t in T))
            return
        _, _, mx = self.ctx.den_terms(T) if T else (None, None, 0.0)
        bound = len(T) * float(atol) * mx
        amb_s = lambda: any(ambiguous([w for w in verbatim_tokens(t.symbol) if w != "I"]) for t in T)
        if not atol:
            g = self.den_check("simplify.atol0", res, a.ref, a.scale, what=f"simplify(atol=0) of {len(T)} terms", amb=amb_s)
        else:
            # statement of the property: the denoted operator moves by at most (#terms)*atol*max prod||local||
            g = None
            if self.wellformed("simplify", res) is not None:
                try:
                    got, sc, _ = self.ctx.den_terms(list(res))
                except _Malformed as ex:
                    if amb_s():
                        self.r.fail("grammar.bdagger_plus_b_ambiguity.silent_misparse", f"simplify(atol={atol}): {ex}")
                        self.cls.add("F54.region_hit")
                        return
                    raise
                err = float(np.max(np.abs(got - a.ref))) if got.size else 0.0
                excess = max(err - bound, 0.0) / a.scale
                self.r.subchecks += 1
                self.r.resid("simplify.den_excess_over_atol_bound", excess, RTOL_ALG)
                if not excess <= RTOL_ALG:
                    self.r.fail("simplify.den_excess_over_atol_bound",
                                f"simplify(atol={atol}) of {len(T)} terms moved the operator by {err:.3e} > bound {bound:.3e} (scale {a.scale:.3e})")
                g = Reg(res, kind_of(res), got, max(sc, 1e-300))
        self.r.check("simplify.operand_mutated", snap(obj) == before, "simplify changed its operand")
        if g is None:
            return
        self.simplify_model_check(T, list(res), atol)
        self.r.check("simplify.type", g.kind == "sum", f"simplify returned {type(res).__name__}")
        R = list(res)
        keys = [(tuple(tokens(t.symbol)), tuple(t.dofs)) for t in R]
        self.r.check("simplify.duplicate_terms_left", len(keys) == len(set(keys)),
                     f"two terms with the same symbol and DoFs remain: {rp(R)}"[:500])
        # (|factor| == atol up to rounding is left to the library: np.abs and abs differ in the last bit for complex numbers)
        self.r.check("simplify.negligible_term_left", all(abs(complex(t.factor)) > atol * (1 - 1e-12) for t in R),
                     f"term with |factor| <= atol={atol} remains: {[t.factor for t in R]}"[:300])
        self.r.check("simplify.identity_left", all(("I" not in k[0]) or k[0] == ("I",) for k in keys),
                     f"identity factor not removed: {rp(R)}"[:300])
        self.r.check("simplify.grew", len(R) <= len(T), f"{len(T)} terms -> {len(R)} terms")
        # the total quantum number of a merged term is that of (one of) the terms it came from
        def sq(t):
            tk, d = tokens(t.symbol), list(t.dofs)
            kept = [(w, x) for w, x in zip(tk, d) if w != "I"]
            return (tuple(kept) if kept else (("I", d[0]),))
        src = {}
        for t in T:
            src.setdefault(sq(t), set()).add(tuple(int(x) for x in np.asarray(t.qn).reshape(-1)))
        self.r.check("simplify.qn_total", all(tuple(int(x) for x in np.asarray(t.qn).reshape(-1)) in src.get(sq(t), set()) for t in R),
                     "total quantum number of a simplified term differs from every term it was merged from")
        if len(R) < len(T):
            self.cls.add("simplify.merged_or_dropped")
        if any("I" in tokens(t.symbol) and set(tokens(t.symbol)) != {"I"} for t in T):
            self.cls.add("simplify.squeezed_identity")
        self.push(g, a.taint)

    def simplify_model_check(self, T, R, atol):
        """sharper than the tolerance bound: merge by (non-identity symbols, DoFs) in the harness, sum the factors, keep
        |factor| > atol; the result must consist of exactly these terms with these factors (borderline factors excluded)."""
        def key(t):
            tk, d = tokens(t.symbol), list(t.dofs)
            kept = tuple((w, x) for w, x in zip(tk, d) if w != "I")
            return kept if kept else (("I", d[0]),)
        merged, mag = {}, {}
        for t in T:
            k = key(t)
            merged[k] = merged.get(k, 0.0) + complex(t.factor)
            mag[k] = mag.get(k, 0.0) + abs(complex(t.factor))
        got = {}
        for t in R:
            got.setdefault(key(t), []).append(complex(t.factor))
        for k, f in merged.items():
            eps = 1e-12 * mag[k]
            if abs(abs(f) - atol) <= eps + 1e-300:
                continue  # borderline: rounding decides
            if abs(f) > atol:
                ok = k in got and len(got[k]) == 1 and abs(got[k][0] - f) <= eps
                self.r.check("simplify.kept_term_factor", ok, f"term {k}: merged factor {f} expected, result has {got.get(k)} (atol={atol})")
            else:
                self.r.check("simplify.dropped_term_present", k not in got, f"term {k} with merged factor {f} should be dropped at atol={atol}")
        self.r.check("simplify.unknown_term", all(k in merged for k in got), f"result contains terms that are not in the input: {rp(R)}"[:300])

    def do_squeeze(self, ins):
        a = self.reg(ins["a"], prefer=ins.get("ka"))
        T = a.terms()
        if not T:
            return
        t = T[ins["b"] % len(T)]
        before = snap(t)
        res, e = self.call(t.squeeze_identity)
        if e is not None:
            if self.is_f5(e, [t]):
                self.r.fail("squeeze_identity.multi_qn_identity_ambiguous_truth",
                            f"{rp(t)}.squeeze_identity() ({t.qn_size} quantum-number components, identity factor): {rp(e)}")
                self.cls.add("F5.region_hit")
            else:
                self.refused_or_fail("squeeze", e, True, f"{rp(t)}.squeeze_identity()",
                                     amb=lambda: ambiguous([w for w in verbatim_tokens(t.symbol) if w != "I"]))
            return
        m, n = self.ctx.den_words(self.ctx.words_of(t))
        f = complex(t.factor)
        g = self.den_check("squeeze", res, f * m, abs(f) * n, what=f"{rp(t)}.squeeze_identity()",
                           amb=lambda: ambiguous([w for w in verbatim_tokens(t.symbol) if w != "I"]))
        self.r.check("squeeze.operand_mutated", snap(t) == before, "squeeze_identity changed its operand")
        if g is None:
            return
        tk = tokens(res.symbol)
        self.r.check("squeeze.identity_left", g.kind == "op" and ("I" not in tk or tk == ["I"]), f"{rp(t)} -> {rp(res)}")
        self.r.check("squeeze.factor", complex(res.factor) == f, f"factor {t.factor} -> {res.factor}")
        self.r.check("squeeze.qn_total", res.qn_size == t.qn_size and np.array_equal(np.asarray(res.qn).reshape(-1), np.asarray(t.qn).reshape(-1)),
                     f"qn {t.qn} (size {t.qn_size}) -> {res.qn} (size {res.qn_size})")
        if "I" in tokens(t.symbol):
            self.cls.add("squeeze.has_identity")
        else:
            # nothing to remove: the result must be the same operator (== and hash)
            same, e = self.call(lambda: res == t and hash(res) == hash(t))
            if e is not None or not same:
                respelled = BDAGB in t.symbol and res.symbol == t.symbol.replace(BDAGB, r"b^\dagger+b")
                self.r.fail("squeeze.no_identity.respells_bdagger_plus_b" if respelled else "squeeze.no_identity.not_equal",
                            f"{rp(t)} has no identity factor but squeeze_identity() returned {rp(res)}, which compares unequal "
                            f"(symbol {res.symbol!r} vs {t.symbol!r})")
        self.push(g, a.taint)

    def do_copy(self, ins):
        a = self.reg(ins["a"], ("sum",))
        if a is None:
            return
        if ins["op"] == "copy":
            res, e = self.call(a.obj.copy)
            if e is not None:
                self.refused_or_fail("copy", e, True, "OpSum.copy()")
                return
            g = self.den_check("copy", res, a.ref, a.scale)
            if g is not None:
                self.r.check("copy.fresh", res is not a.obj and g.kind == "sum" and res == a.obj, f"copy: {type(res).__name__}")
                self.push(g, a.taint)
        else:
            self.push(Reg(list(a.obj), "list", a.ref, a.scale), a.taint)

    def do_split(self, ins):
        a = self.reg(ins["a"], prefer=ins.get("ka"))
        T = a.terms()
        if not T:
            return
        t = T[ins.get("b", 0) % len(T)]
        res, e = self.call(t.split_elementary, dict(self.ctx.dof_to_site))
        if e is not None:
            self.refused_or_fail("split", e, True, f"{rp(t)}.split_elementary")
            return
        ok = isinstance(res, tuple) and len(res) == 2 and self.wellformed("split", list(res[0])) is not None
        if not ok:
            self.r.fail("split.result_type", repr(res)[:300])
            return
        ops, factor = res
        try:
            prod = np.eye(self.ctx.D, dtype=complex)
            sites = []
            for o in ops:
                w = self.ctx.words_of(o)
                prod = prod @ self.ctx.den_words(w)[0]
                sites.append(sorted({s for s, _, _ in w}))
            m, n = self.ctx.den_words(self.ctx.words_of(t))
        except _Malformed as ex:
            self.r.fail("split.malformed", str(ex))
            return
        f = complex(t.factor)
        self.r.check_close("split.den", complex(factor) * prod / max(abs(f) * n, 1e-300), f * m / max(abs(f) * n, 1e-300), RTOL_ALG,
                           f"{rp(t)}.split_elementary: product of the elementary operators times the factor")
        self.r.check("split.one_site_each", all(len(s) == 1 for s in sites) and [s[0] for s in sites] == sorted({s[0] for s in sites}),
                     f"sites of the elementary operators: {sites}")
        self.r.check("split.factors", complex(factor) == f and all(o.factor == 1 for o in ops), f"factor {factor}, element factors {[o.factor for o in ops]}")
        self.r.check("split.qn_total", np.array_equal(np.asarray(sum(o.qn for o in ops)).reshape(-1), np.asarray(t.qn).reshape(-1)),
                     f"sum of elementary qn != {t.qn}")
        if len(t.dofs) != len(set(t.dofs)):
            self.cls.add("split.repeated_dof")

    # -- equality and hashing -----------------------------------------------------------------------------
    def do_twin(self, ins):
        from renormalizer.model import Op
        from renormalizer.utils import Quantity

        a = self.reg(ins["a"], prefer=ins.get("ka"))
        T = a.terms()
        if not T:
            return
        t = T[ins["b"] % len(T)]
        _, dofs, qn = struct(t)
        words = tuple(verbatim_tokens(t.symbol))  # same spelling: == compares the symbol strings
        if len(words) != len(dofs):
            raise _Malformed(f"{rp(t)}")
        f = t.factor
        fc = complex(f)
        # factor by another route
        fvs = [fc if fc.imag else fc.real]
        if fc.imag == 0:
            fvs += [np.float64(fc.real), complex(fc.real), np.complex128(fc.real), Quantity(fc.real)]
            if float(fc.real).is_integer() and abs(fc.real) < 1e9:
                fvs += [int(fc.real), np.int64(int(fc.real))]
        else:
            fvs += [np.complex128(fc)]
        fv = fvs[ins["fv"] % len(fvs)]
        qs = len(qn[0])
        qvs = [[list(q) for q in qn], [np.array(q) for q in qn], [tuple(q) for q in qn]]
        if qs == 1:
            qvs.append([q[0] for q in qn])
            if len(words) == 1:
                qvs.append(qn[0][0])
            if all(q == ((1,) if w == r"a^\dagger" else (-1,) if w == "a" else (0,)) for q, w in zip(qn, words)):
                qvs.append(None)
        qv = qvs[ins["qv"] % len(qvs)]
        dv = dofs[0] if (ins["dv"] and len(set(dofs)) == 1) else list(dofs)
        route = ins["route"] % 6
        if route == 0:
            mk = lambda: Op(t.symbol, dv, fv, qv)
        elif route == 1:
            mk = lambda: Op.product([Op(w, d, (fv if i == 0 else 1), qn=[list(q)]) for i, (w, d, q) in enumerate(zip(words, dofs, qn))])
        elif route == 2:
            mk = lambda: t * 1
        elif route == 3:
            mk = lambda: 1.0 * t
        elif route == 4:
            mk = lambda: -(-t)
        else:
            mk = lambda: Op(t.symbol, dv, 1.0, qv) * fv if not isinstance(fv, Quantity) else Op(t.symbol, dv, fv, qv)
        tw, e = self.call(mk)
        if e is not None:
            self.refused_or_fail(f"twin.route{route}", e, True, f"equal-by-another-route construction of {rp(t)}",
                                 amb=lambda: ambiguous(list(words)))
            return
        what = f"{rp(t)} vs twin (route {route}, factor {rp(fv)}, qn {rp(qv)}) {rp(tw)}"
        res, e = self.call(lambda: (t == tw, tw == t, t != tw, hash(t) == hash(tw), len({t, tw}), t.same_term(tw)))
        if e is not None:
            self.refused_or_fail("twin.compare", e, True, what)
            return
        self.r.check("eq.twin_not_equal", res[0] is True and res[1] is True and res[2] is False, f"== {res[0]}/{res[1]}, != {res[2]}: {what}")
        self.r.check("eq.twin_hash_differs", res[3] and res[4] == 1, f"hash equal {res[3]}, set size {res[4]}: {what}")
        self.r.check("eq.twin_not_same_term", res[5] is True, what)
        self.cls.add(f"twin.route{route}")
        # a perturbed copy must compare unequal
        p = ins["pert"]
        if p == 0:
            other = Op(" ".join(words), list(dofs), fc * 2 if fc != 0 else 1.0, [list(q) for q in qn])
            pw = "factor"
        elif p == 1:
            other = Op(" ".join(words[:-1] + (("Z",) if words[-1] != "Z" else ("X",))), list(dofs), f, [list(q) for q in qn])
            pw = "symbol"
        elif p == 2:
            alt = [d for d in self.ctx.dofmap if d != dofs[-1]]
            if not alt:
                return
            other = Op(" ".join(words), list(dofs[:-1]) + [alt[0]], f, [list(q) for q in qn])
            pw = "dof"
        else:
            q2 = [list(q) for q in qn]
            q2[-1][0] += 1
            other = Op(" ".join(words), list(dofs), f, q2)
            pw = "qn"
        res, e = self.call(lambda: (t == other, other == t, t != other, len({t, other})))
        if e is not None:
            self.refused_or_fail("eq.compare", e, True, f"{rp(t)} == {rp(other)}")
            return
        self.r.check(f"eq.differs_in_{pw}_but_equal", res[0] is False and res[1] is False and res[2] is True and res[3] == 2,
                     f"{rp(t)} vs {rp(other)}: == {res[0]}/{res[1]}, != {res[2]}, set size {res[3]}")

    def pairwise_eq(self):
        ops = [g.obj for g in self.regs if g.kind == "op"][:6]
        for i in range(len(ops)):
            for j in range(i, len(ops)):
                x, y = ops[i], ops[j]
                res, e = self.call(lambda: (x == y, y == x, x != y, hash(x), hash(y)))
                if e is not None:
                    self.refused_or_fail("eq.compare", e, True, f"{rp(x)} == {rp(y)}")
                    continue
                sx = (x.symbol, tuple(x.dofs), complex(x.factor), struct(x)[2])
                sy = (y.symbol, tuple(y.dofs), complex(y.factor), struct(y)[2])
                self.r.check("eq.inconsistent", res[0] == res[1] == (not res[2]) and (not res[0] or res[3] == res[4]),
                             f"{rp(x)}, {rp(y)}: == {res[0]}/{res[1]}, != {res[2]}, hashes equal {res[3] == res[4]}")
                self.r.check("eq.vs_fields", bool(res[0]) == (sx == sy), f"{rp(x)} == {rp(y)} is {res[0]} but fields equal is {sx == sy}")

    # -- invalid operands -----------------------------------------------------------------------------------------
    def do_bad(self, ins):
        from renormalizer.model import Op, OpSum, Model

        x = self.reg(ins["a"], ("op",))
        s = self.reg(ins["a"], ("sum",))
        xo = x.obj if x is not None else None
        so = s.obj if s is not None else None
        d0 = self.ctx.dof(0, 0)
        menu = [
            ("op+int", xo, lambda: xo + 1), ("int+op", xo, lambda: 1 + xo), ("op+str", xo, lambda: xo + "X"),
            ("op+None", xo, lambda: xo + None), ("op*str", xo, lambda: xo * "X"), ("op*None", xo, lambda: xo * None),
            ("str*op", xo, lambda: "X" * xo), ("op*tuple", xo, lambda: xo * (xo,)), ("op*list_of_float", xo, lambda: xo * [1.0]),
            ("op*dict", xo, lambda: xo * {}), ("op+float", xo, lambda: xo + 1.5), ("op-int", xo, lambda: xo - 2),
            ("op*array1d", xo, lambda: xo * np.array([1.0, 2.0])), ("op+tuple", xo, lambda: xo + (xo,)),
            ("sum+int", so, lambda: so + 1), ("sum+str", so, lambda: so + "X"), ("sum+None", so, lambda: so + None),
            ("sum+tuple", so, lambda: so + tuple(so)), ("sum*str", so, lambda: so * "X"), ("sum*None", so, lambda: so * None),
            ("sum*dict", so, lambda: so * {}), ("sum/str", so, lambda: so / "2"), ("sum/None", so, lambda: so / None),
            ("sum/list", so, lambda: so / [2]), ("sum*array1d", so, lambda: so * np.array([1.0, 2.0])),
            ("sum+float", so, lambda: so + 1.5), ("sum-int", so, lambda: so - 1), ("array1d*sum", so, lambda: np.array([1.0, 2.0]) * so),
            ("Op(symbol=int)", 0, lambda: Op(1, d0)), ("Op(2 symbols, 1 dof)", 0, lambda: Op("X Y", [d0])),
            ("Op(1 symbol, 2 qn)", 0, lambda: Op("X", d0, qn=[0, 1])), ("Op(2 symbols, scalar qn)", 0, lambda: Op("X Y", d0, qn=1)),
            ("Op(unhashable dof)", 0, lambda: Op("X", [[0]])), ("Op(2 symbols, 3 qn)", 0, lambda: Op("X Y", d0, qn=[0, 0, 0])),
            ("split_elementary(unknown dof)", 0, lambda: Op("X Y", [d0, "no such dof"]).split_elementary(dict(self.ctx.dof_to_site))),
            ("Model(unknown dof)", 0, lambda: Model(list(self.ctx.bl), [Op("I", "no such dof")])),
        ]
        assert len(menu) == N_BAD
        name, need, fn = menu[ins["which"] % N_BAD]
        if need is None:
            return
        before = [(g, snap(g.obj)) for g in (x, s) if g is not None]
        res, e = self.call(fn)
        self.cls.add("bad." + name)
        if e is None:
            self.r.fail(f"invalid.accepted.{name}", f"{name}: returned {rp(res)} instead of raising TypeError/ValueError"[:400])
        elif not isinstance(e, REFUSAL):
            self.r.fail(f"invalid.bad_refusal.{name}", f"{name}: raised {rp(e)}")
        else:
            self.cls.add(f"refusal_type.{type(e).__name__}")
        self.unchanged("invalid", before)

    def do_zero(self, ins):
        a = self.reg(ins["a"], ("op", "sum"))
        if a is None:
            return
        menu = [("0+a", lambda: 0 + a.obj, True), ("a+0", lambda: a.obj + 0, True), ("0.0+a", lambda: 0.0 + a.obj, True),
                ("a+0.0", lambda: a.obj + 0.0, True), ("array(0)+a", lambda: np.array(0) + a.obj, True),
                ("a+array(0)", lambda: a.obj + np.array(0), True), ("a-0", lambda: a.obj - 0, True),
                ("np.float64(0)+a", lambda: np.float64(0) + a.obj, False), ("a+np.int64(0)", lambda: a.obj + np.int64(0), False),
                ("np.int64(0)+a", lambda: np.int64(0) + a.obj, False)]
        name, fn, ok = menu[ins["which"] % len(menu)]
        ok = ok and a.kind == "op"  # documented for Op only (so that sum([...]) works)
        res, e = self.call(fn)
        self.cls.add(f"zero.{name}.{a.kind}")
        if e is not None:
            self.refused_or_fail(f"zero.{name}", e, ok, f"{name} with a={a.kind}")
            return
        if isinstance(res, np.ndarray) and res.shape == ():
            res = res.item()
        g = self.den_check(f"zero.{name}", res, a.ref, a.scale, what=name)
        if g is not None:
            self.push(g, a.taint)

    def do_checkterms(self, ins):
        """Model.check_operator_terms: ravel of nested OpSum, zero-factor filter, order kept."""
        from renormalizer.model import Model

        a, b = self.reg(ins["a"], ("op", "sum")), self.reg(ins["b"], ("op", "sum"))
        if a is None or b is None or a.taint or b.taint:
            return
        terms = [a.obj, b.obj]
        res, e = self.call(lambda: Model(list(self.ctx.bl), terms).ham_terms)
        if e is not None:
            self.refused_or_fail("checkterms", e, True, "Model(basis, [expr, expr])")
            return
        g = self.den_check("checkterms", list(res), a.ref + b.ref, a.scale + b.scale, what="Model(basis, [a, b]).ham_terms")
        if g is None:
            return
        flat = [t for t in a.terms() + b.terms() if t.factor != 0]
        self.r.check("checkterms.filter", len(res) == len(flat) and all(x is y for x, y in zip(res, flat)),
                     f"ham_terms {rp(res)} vs non-zero input terms {rp(flat)}"[:500])
        if len(flat) < a.nterms() + b.nterms():
            self.cls.add("checkterms.zero_dropped")

    # -- Mpo tie-in ---------------------------------------------------------------------------------------------------
    def group_status(self, terms):
        """'ok' (basis accepts every per-site group with product semantics) / reason for not tying in."""
        cplx = False
        for t in terms:
            groups = {}
            for s, w, ld in self.ctx.words_of(t):
                groups.setdefault(s, []).append((w, ld))
                if w in COMPLEX_WORDS:
                    cplx = True
            for s, g in groups.items():
                k = self.model["sites"][s]["k"]
                ws = tuple(w for w, _ in g)
                if k == "spin":
                    continue
                if k == "elec":
                    if ws not in (("I",), ("a",), (r"a^\dagger",), (r"a^\dagger", "a")):
                        return "elec_group_unsupported", cplx
                elif k == "mvac":
                    if not (len(ws) == 1 or ws == (r"a^\dagger", "a") or set(ws) == {"I"}):
                        return "mvac_group_unsupported", cplx
                elif len(ws) != 1:
                    return "sho_group_not_single", cplx
        return "ok", cplx

    def multi_identity_on_multi_electron_site(self, terms):
        for t in terms:
            n = {}
            for s, w, ld in self.ctx.words_of(t):
                if self.model["sites"][s]["k"] == "mvac":
                    n.setdefault(s, []).append(w)
            if any(len(ws) >= 2 and set(ws) == {"I"} for ws in n.values()):
                return True
        return False

    def tie_in(self):
        from renormalizer.model import Op, OpSum, Model
        from renormalizer.mps import Mpo

        tie = self.spec["tie"]
        form = tie["form"]
        def usable(g):
            """register inside the tie-in domain? (reason otherwise)"""
            if g.taint:
                return "qn_not_physical"
            if not g.terms():
                return "empty"
            try:
                status, _ = self.group_status(g.terms())
            except _Malformed:
                return "malformed"
            return status

        # first register (cyclically from the drawn index) the model accepts with product semantics
        n = len(self.regs)
        parts, reasons = [], set()
        for start, kinds in ((tie["a"], ("op", "sum") if form != "direct" else ("op", "sum", "list")), (tie["b"], ("op", "sum"))):
            for k in range(n):
                g = self.regs[(start + k) % n]
                if g.kind not in kinds:
                    continue
                why = usable(g)
                if why == "ok":
                    parts.append(g)
                    break
                reasons.add(why)
            if form != "nested":
                break
        if len(parts) < (2 if form == "nested" else 1):
            for why in reasons:
                self.cls.add(f"tiein.skip.{why}")
            self.cls.add("tiein.skipped")
            return
        a = parts[0]
        terms = [t for p in parts for t in p.terms()]
        _, cplx = self.group_status(terms)
        ref = sum(p.ref for p in parts)
        scale = sum(p.scale for p in parts)
        if np.abs(ref).max() <= 1e-9 * scale:
            self.cls.add("tiein.skip.zero_operator")
            self.cls.add("tiein.skipped")
            return

        def conv(obj):
            """precondition DESIGN 3.1: complex local matrices need complex-typed factors"""
            if not cplx:
                return obj
            mk = lambda t: Op(t.symbol, t.dofs, complex(t.factor), t.qn_list)
            k = kind_of(obj)
            return mk(obj) if k == "op" else (OpSum([mk(t) for t in obj]) if k == "sum" else [mk(t) for t in obj])

        before = [(p, snap(p.obj)) for p in parts]
        algo = tie["algo"]
        nz = [abs(complex(t.factor)) for t in terms if t.factor != 0]
        if algo == "qr" and nz and min(nz) < 1e-6:
            # the QR builder cuts entries of an un-normalised factor column at 1e-10 *absolute* (symbolic_mpo._decompose_qr),
            # so it is not scale invariant; that threshold is C01's subject, the tie-in uses the exact graph algorithm there
            algo = "Hopcroft-Karp"
            self.cls.add("tiein.qr_replaced_small_factors")
        mxn = max(self.ctx.den_words(self.ctx.words_of(t))[1] for t in terms)
        tol = RTOL_MPO[algo] + (1e-10 * len(terms) * len(self.model["sites"]) * mxn / scale if algo == "qr" else 0.0)
        if form == "direct":
            arg = conv(a.obj)
            build = lambda: Mpo(Model(list(self.ctx.bl), []), arg, algo=algo)
        elif form == "nested":
            arg = [conv(p.obj) for p in parts]
            build = lambda: Mpo(Model(list(self.ctx.bl), []), arg, algo=algo)
        else:
            arg = conv(a.obj)
            arg = [arg] if kind_of(arg) == "op" else arg
            build = lambda: Mpo(Model(list(self.ctx.bl), arg), algo=algo)
        got, e = self.call(lambda: build().todense())
        self.cls.add(f"tiein.{form}.{algo}")
        if e is not None:
            sig, in_lib = lib_exception_sig(e)
            if not in_lib:
                raise e
            self.r.fail(f"tiein.{form}.{sig}", f"Mpo(model, expression of {len(terms)} terms) raised {rp(e)}")
            return
        sig = f"tiein.{algo}"
        if self.multi_identity_on_multi_electron_site(terms):
            # BasisMultiElectron(Vac).op_mat returns eye() for 'I I' / 'I I I' without the factor (finding F52); region kept,
            # separately signed so that it cannot hide a tie-in failure elsewhere
            sig = "tiein.multi_electron_identity_factor_dropped"
            self.cls.add("F52.region_hit")
        self.r.check_close(sig, np.asarray(got) / scale, ref / scale, tol,
                           f"Mpo(model, expr, algo={algo}).todense() vs den(expr), {len(terms)} terms, form {form}")
        self.unchanged("tiein", before)
        self.cls.add("tiein.done")

    # ---- driver -------------------------------------------------------------------------------------------------
    def run(self):
        r = self.r
        if not self.model["sites"]:
            r.rejected = "empty model"
            return r
        table = {"lit": self.do_lit, "ident": self.do_ident, "add": self.do_binary, "sub": self.do_binary, "mul": self.do_binary,
                 "iadd": self.do_binary, "smul": self.do_scalar, "rsmul": self.do_scalar, "div": self.do_scalar, "neg": self.do_neg,
                 "sum": self.do_sum, "addn": self.do_addn, "prod": self.do_prod, "sprod": self.do_prod, "simplify": self.do_simplify,
                 "squeeze": self.do_squeeze, "copy": self.do_copy, "tolist": self.do_copy, "split": self.do_split,
                 "twin": self.do_twin, "bad": self.do_bad, "zero": self.do_zero, "checkterms": self.do_checkterms}
        for ins in self.spec["prog"]:
            if not self.regs and ins["op"] not in ("lit", "ident"):
                continue
            try:
                table[ins["op"]](ins)
            except _Malformed as e:
                r.fail(f"{ins['op']}.malformed", str(e))
        if self.regs:
            self.pairwise_eq()
            try:
                self.tie_in()
            except _Malformed as e:
                r.fail("tiein.malformed", str(e))
        qm = self.model["qnmode"]
        r.nontrivial = bool((self.n_prod >= 1 and self.n_sumop >= 1) or self.rep_dof or qm == 2 or self.np_scalar)
        self.cls.add(f"qn_components={2 if qm == 2 else 1}{'(explicit)' if qm == 1 else ''}")
        self.cls.add(f"sites={len(self.model['sites'])}")
        for s in self.model["sites"]:
            self.cls.add("kind." + s["k"])
        if self.rep_dof:
            self.cls.add("repeated_dof")
        if self.np_scalar:
            self.cls.add("numpy_scalar")
        if self.n_prod and self.n_sumop:
            self.cls.add("product_and_sum")
        r.classes = sorted(self.cls)
        return r


PROP = C15()

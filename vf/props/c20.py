r"""C20 — bipartite vertex cover is valid and minimum, so operator bonds are minimal.

Three parts (DESIGN §4 C20):

(i)   finite, completely enumerated: *every* bipartite graph with >= 1 edge on every |U| x |V| grid
      (quick: all grids up to 4x4; thorough: additionally 5xb and bx5, b <= 4), as bit masks, both
      algorithms, neighbour lists ascending and descending (the transposed graph is the same mask set of
      the transposed grid, which is enumerated too).  The enumeration is cut into chunk specs
      {"kind": "enum", nU, nV, algo, lo, hi}; ``finite_cases`` evaluates all chunks on a fork pool
      (16 cores) and ``run_case`` hands the stored outcome to the framework (a replay recomputes the chunk).
      Oracle: minimum vertex cover *by definition* (min over S subset of U of |S| + |N(U \\ S)|, bit masks)
      which at the same time validates the harness' own augmenting-path matching used in (ii)/(iii).
(ii)  Hypothesis: random graphs up to 40 x 40 (several densities, planted small covers, zig-zag chains,
      blocks, hubs, isolated and trailing-isolated vertices, list or numpy adjacency); oracle: Koenig,
      |cover| == nu(G) with nu from the harness' BFS augmenting-path routine.
(iii) Hypothesis: operator term tables (spin-heavy so that partial terms collide); for every cut c
      Mpo(...).bond_dims[c] must equal the minimum vertex cover of the prefix/suffix incidence graph of the
      harness-built, de-duplicated, zero-filtered table and never exceed min(#prefixes, #suffixes);
      a spy on symbolic_mpo.bipartite_vertex_cover applies the cover test to every graph the builder
      really submits (construction and adjacent-site swaps).
(iv)  finite: three-site matrix-unit operators with 65 536 + k distinct partial terms on the large side of a cut (beyond the
      16-bit index range of the library's tables), large side on the right or on the left, both algorithms (quick: one
      case, thorough: four); oracle: bond_dims == minimum cover per cut (harness matching) and todense() == the operator
      written down term by term (every term is one matrix element of the one-particle space).

Known finding F-C20a (own signature ``table.<algo>.bond_inflated_by_symbol_spelling``): Op.split_elementary keeps
the spelling r"b^\dagger + b" for a term consisting of that single symbol but re-spells it r"b^\dagger+b" in
terms with several symbols, so one operator enters the table as two primary operators and the bonds exceed the
minimum cover of the operator-level table; the check recognises exactly this case (bonds equal the covers of the
table with the two spellings kept apart) and reports every other deviation under the ordinary signatures.
"""
import multiprocessing as mp
import os

import numpy as np
from hypothesis import strategies as st

from vf.core import Prop, Result, lib_exception_sig, canon
from vf import gen

ALGOS = ["Hopcroft-Karp", "Hungarian"]
ENUM_CHUNK = 8192  # masks per chunk spec


# ------------------------------------------------------------------------------------------------
# harness oracles (independent of the library)
# ------------------------------------------------------------------------------------------------


def max_matching(adj, nV):
    """size of a maximum matching; BFS augmenting paths from every free U vertex (iterative)."""
    nU = len(adj)
    mU = [-1] * nU
    mV = [-1] * nV
    size = 0
    for root in range(nU):
        if not adj[root]:
            continue
        parent = {}  # v -> u from which v was reached
        seen_u = {root}
        frontier = [root]
        end = -1
        while frontier and end < 0:
            nxt = []
            for u in frontier:
                for v in adj[u]:
                    v = int(v)
                    if v in parent:
                        continue
                    parent[v] = u
                    w = mV[v]
                    if w < 0:
                        end = v
                        break
                    if w not in seen_u:
                        seen_u.add(w)
                        nxt.append(w)
                if end >= 0:
                    break
            frontier = nxt
        if end >= 0:
            v = end
            while True:
                u = parent[v]
                pv = mU[u]
                mU[u] = v
                mV[v] = u
                if u == root:
                    break
                v = pv
            size += 1
    return size


def min_cover_bruteforce(rows, nV):
    """minimum vertex cover by definition: choose the U-part S of the cover, the rest T = U \\ S forces N(T).
    rows[u] = bit mask of the neighbours of u."""
    nU = len(rows)
    nb = [0] * (1 << nU)
    best = nU  # T empty
    for T in range(1, 1 << nU):
        low = T & -T
        nb[T] = nb[T ^ low] | rows[low.bit_length() - 1]
        c = nU - T.bit_count() + nb[T].bit_count()
        if c < best:
            best = c
    return best


def pad(tab, n):
    t = [bool(x) for x in tab]
    return t + [False] * (n - len(t))


def cover_verdict(adj, nU, nV, tabs, nu):
    """-> (signature suffix or None, message).  tabs = (table for U, table for V) as returned."""
    try:
        tabU, tabV = tabs
        lu, lv = len(tabU), len(tabV)
    except Exception as e:  # noqa
        return "bad_return", f"return value is not a pair of tables: {tabs!r} ({e!r})"
    if lu > nU or lv > nV:
        return "table_too_long", f"table lengths ({lu},{lv}) exceed the vertex counts ({nU},{nV})"
    pu, pv = pad(tabU, nU), pad(tabV, nV)
    for u, nbrs in enumerate(adj):
        for v in nbrs:
            if not (pu[u] or pv[int(v)]):
                return "not_a_cover", f"edge ({u},{int(v)}) is not covered; U-table {pu} V-table {pv}"
    size = sum(pu) + sum(pv)
    if size != nu:
        return "not_minimum", f"cover size {size} != maximum matching / minimum cover {nu}; U-table {pu} V-table {pv}"
    return None, ""


def _bvc():
    from renormalizer.lib import bipartite_vertex_cover

    return bipartite_vertex_cover


# ------------------------------------------------------------------------------------------------
# (i) complete enumeration
# ------------------------------------------------------------------------------------------------


def enum_grids(tier):
    grids = [(a, b) for a in range(1, 5) for b in range(1, 5)]
    if tier == "thorough":
        grids += [(5, b) for b in range(1, 5)] + [(b, 5) for b in range(1, 5)]
    return grids


def enum_specs(tier):
    specs = []
    for a, b in enum_grids(tier):
        total = 1 << (a * b)
        step = ENUM_CHUNK if tier == "quick" else 4 * ENUM_CHUNK
        for algo in ALGOS:
            for lo in range(0, total, step):
                specs.append({"kind": "enum", "nU": a, "nV": b, "algo": algo, "lo": lo, "hi": min(total, lo + step)})
    return specs


def enum_chunk(spec):
    """all graphs with mask in [max(lo,1), hi) on the nU x nV grid; bit u*nV+v of the mask = edge (u,v)."""
    bvc = _bvc()
    nU, nV, algo = spec["nU"], spec["nV"], spec["algo"]
    full = (1 << nV) - 1
    asc = [[v for v in range(nV) if (m >> v) & 1] for m in range(1 << nV)]
    desc = [list(reversed(x)) for x in asc]
    out = dict(graphs=0, calls=0, nontrivial=0, subchecks=0, fails={}, classes={}, oracle_mismatch=None)

    def fail(sig, msg, adj):
        f = out["fails"].get(sig)
        if f is None:
            out["fails"][sig] = [1, msg + " | replay spec: " +
                                 canon({"kind": "graph", "nU": nU, "nV": nV, "adj": adj, "algos": [algo], "as_numpy": False})]
        else:
            f[0] += 1

    for mask in range(max(spec["lo"], 1), spec["hi"]):
        rows = [(mask >> (u * nV)) & full for u in range(nU)]
        tau = min_cover_bruteforce(rows, nV)
        adj_a = [asc[x] for x in rows]
        nu = max_matching(adj_a, nV)
        if nu != tau:  # harness self-test (Koenig): must never happen
            out["oracle_mismatch"] = f"mask {mask} grid {nU}x{nV}: brute-force cover {tau} != harness matching {nu}"
            break
        out["graphs"] += 1
        nedges = mask.bit_count()
        colmask = 0
        for x in rows:
            colmask |= x
        isolated = (0 in rows) or colmask != full
        if nedges >= 2 and (nu < min(nU, nV) or isolated):
            out["nontrivial"] += 1
        if isolated:
            out["classes"]["isolated"] = out["classes"].get("isolated", 0) + 1
        if rows[-1] == 0 or not (colmask >> (nV - 1)) & 1:
            out["classes"]["trailing_isolated"] = out["classes"].get("trailing_isolated", 0) + 1
        for which in (asc, desc):
            adj = [list(which[x]) for x in rows]
            out["calls"] += 1
            out["subchecks"] += 2
            try:
                tabs = bvc([list(x) for x in adj], algo=algo)
            except Exception as e:  # noqa
                sig, in_lib = lib_exception_sig(e)
                if not in_lib:
                    raise
                fail(f"enum.{algo}.{sig}", f"grid {nU}x{nV} mask {mask} adjacency {adj}: {e!r}", adj)
                continue
            bad, msg = cover_verdict(adj, nU, nV, tabs, tau)
            if bad:
                fail(f"enum.{algo}.{bad}", f"grid {nU}x{nV} mask {mask} adjacency {adj}: {msg}", adj)
    return out


def _enum_worker(spec):
    import warnings

    warnings.filterwarnings("ignore")
    return enum_chunk(spec)


# ------------------------------------------------------------------------------------------------
# (iv) tables beyond 65 536 distinct partial terms (index width of the library's uint16 tables / int32 graph arrays)
# ------------------------------------------------------------------------------------------------

BIG_N0, BIG_N1 = 8, 18


def big_specs(tier):
    if tier == "quick":
        return [{"kind": "bigtable", "layout": "right", "algo": "Hopcroft-Karp", "extra": 3, "share": 3}]
    return [{"kind": "bigtable", "layout": lay, "algo": algo, "extra": ex, "share": sh}
            for lay, algo, ex, sh in (("right", "Hopcroft-Karp", 3, 3), ("left", "Hopcroft-Karp", 2, 4),
                                      ("right", "Hungarian", 1, 8), ("left", "Hungarian", 4, 2))]


def big_strings(spec):
    """three sites of matrix units E_ij (BasisMultiElectron, one particle): strings (a, b, c) = E_a x E_b x E_c.
    `extra` low pairs Y_k and `extra` high pairs X_k (lexicographically first / last (b, c)) are each shared by `share`
    left operators; 40 further left operators carry 65536 - extra mutually distinct middle pairs, so the cut between the
    small site and the pair has 65536 + extra distinct partial terms on its large side and minimum cover 40 + 2*extra."""
    n0, n1 = BIG_N0, BIG_N1
    ex, sh = spec["extra"], spec["share"]
    left = [(i, j) for i in range(n0) for j in range(n0)]
    site = [(i, j) for i in range(n1) for j in range(n1)]
    pairs = [(b, c) for b in site for c in site]
    assert 2 * ex * sh + 40 <= len(left)
    ys, xs = pairs[:ex], pairs[-ex:]
    mid = pairs[ex:-ex]
    n_mid = 65536 - ex
    out = []
    k = 0
    for y in ys:
        for _ in range(sh):
            out.append((left[k], y[0], y[1]))
            k += 1
    base = k
    # spread the middle pairs (taken with a stride so that they cover the whole index range) over 40 left operators
    stride = len(mid) / n_mid
    for t in range(n_mid):
        pr = mid[int(t * stride)]
        out.append((left[base + t * 40 // n_mid], pr[0], pr[1]))
    k = base + 40
    for x in xs:
        for _ in range(sh):
            out.append((left[k], x[0], x[1]))
            k += 1
    return out


def big_table(spec):
    """-> dict(fails=[(sig, msg)], classes=[...], subchecks=int, nontrivial=bool)"""
    from renormalizer import Model, Mpo, Op
    from renormalizer.model.basis import BasisMultiElectron

    n0, n1 = BIG_N0, BIG_N1
    algo = spec["algo"]
    strings = big_strings(spec)
    rng = np.random.default_rng(20 + spec["extra"] * 7 + spec["share"])
    factors = rng.uniform(0.5, 1.5, size=len(strings))
    if spec["layout"] == "right":
        dims = [n0, n1, n1]
        strs = strings
    else:
        dims = [n1, n1, n0]
        strs = [(c, b, a) for a, b, c in strings]
    dofs = [[(s, i) for i in range(n)] for s, n in enumerate(dims)]
    model = Model([BasisMultiElectron(d, [0] * len(d)) for d in dofs], [])

    def unit(s, ij):
        return Op(r"a^\dagger a", [dofs[s][ij[0]], dofs[s][ij[1]]])

    terms = [unit(0, p) * unit(1, q) * unit(2, r) * float(f) for (p, q, r), f in zip(strs, factors)]
    # reference: minimum cover per cut with the harness' matching (smaller side as U)
    expected, sides = [1], []
    for cut in (1, 2):
        ids_l, ids_r, edges = {}, {}, []
        for t in strs:
            l = ids_l.setdefault(t[:cut], len(ids_l))
            r = ids_r.setdefault(t[cut:], len(ids_r))
            edges.append((l, r))
        if len(ids_l) > len(ids_r):
            edges = [(r, l) for l, r in edges]
            nU, nV = len(ids_r), len(ids_l)
        else:
            nU, nV = len(ids_l), len(ids_r)
        adj = [[] for _ in range(nU)]
        for u, v in edges:
            adj[u].append(v)
        expected.append(max_matching(adj, nV))
        sides.append(max(nU, nV))
    expected.append(1)
    out = dict(fails=[], classes=[f"bigtable.layout.{spec['layout']}", f"bigtable.algo.{algo}",
                                  f"bigtable.terms={len(strs)}", f"bigtable.max_distinct_partial_terms={max(sides)}"],
               subchecks=0, nontrivial=max(sides) > 65536)
    if 40 + 2 * spec["extra"] not in expected:
        raise AssertionError(f"harness layout: expected covers {expected}")
    try:
        mpo = Mpo(model, terms, algo=algo)
        bonds = [int(b) for b in mpo.bond_dims]
        dense = np.asarray(mpo.todense())
    except Exception as e:  # noqa
        sig, in_lib = lib_exception_sig(e)
        if not in_lib:
            raise
        out["fails"].append((f"bigtable.{algo}.{sig}", f"{spec}: {e!r}"))
        return out
    out["subchecks"] += 2
    if bonds != expected:
        out["fails"].append((f"bigtable.{algo}.bond_not_minimum_cover",
                             f"{spec}: bond_dims {bonds} != minimum vertex cover per cut {expected} "
                             f"({len(strs)} terms, up to {max(sides)} distinct partial terms at a cut)"))
    idx = np.array([[p[0], q[0], r[0], p[1], q[1], r[1]] for p, q, r in strs])
    ref = np.zeros(tuple(dims) * 2)
    np.add.at(ref, tuple(idx.T), factors)
    dim = int(np.prod(dims))
    ref = ref.reshape(dim, dim)
    if dense.shape != ref.shape:
        out["fails"].append((f"bigtable.{algo}.dense_shape", f"{spec}: todense() shape {dense.shape} != {ref.shape}"))
        return out
    err = float(np.abs(dense - ref).max())
    if not err <= 1e-10:
        nmiss = int(np.sum((np.abs(dense) < 1e-12) & (np.abs(ref) > 1e-12)))
        out["fails"].append((f"bigtable.{algo}.operator_wrong",
                             f"{spec}: dense operator differs from the term-by-term reference, max abs error {err:.3g}, "
                             f"{nmiss} of {len(strs)} terms missing (bond_dims {bonds}, minimum covers {expected})"))
    return out


def _big_worker(spec):
    import warnings

    warnings.filterwarnings("ignore")
    os.environ.setdefault("OMP_NUM_THREADS", "1")
    try:
        return big_table(spec)
    except Exception as e:  # harness error: surfaces through run_case (recomputed there)
        return {"harness_error": repr(e)}


# ------------------------------------------------------------------------------------------------
# (ii) random graphs
# ------------------------------------------------------------------------------------------------

GRAPH_STYLES = ["p0.03", "p0.1", "p0.3", "p0.6", "p0.9", "sparse_c/n", "planted", "chain", "blocks", "hub", "matching+noise"]


def make_graph(nU, nV, style, seed, iso, trail, order):
    rng = np.random.default_rng(seed)
    A = np.zeros((nU, nV), dtype=bool)
    if style.startswith("p0."):
        A = rng.random((nU, nV)) < float(style[1:])
    elif style == "sparse_c/n":
        A = rng.random((nU, nV)) < rng.choice([0.7, 1.0, 1.5, 2.5]) / max(nU, nV)
    elif style == "planted":
        k = int(rng.integers(1, max(2, min(nU, nV))))
        ku = int(rng.integers(0, k + 1))
        us = rng.choice(nU, size=min(ku, nU), replace=False)
        vs = rng.choice(nV, size=min(k - ku, nV), replace=False)
        M = rng.random((nU, nV)) < rng.choice([0.3, 0.7])
        A[us, :] = M[us, :]
        A[:, vs] |= M[:, vs]
    elif style == "chain":
        L = min(nU, nV)
        for i in range(L):
            A[i, i] = True
            if i + 1 < nV:
                A[i, i + 1] = True
        A |= rng.random((nU, nV)) < 0.02
    elif style == "blocks":
        u = v = 0
        while u < nU and v < nV:
            a = int(rng.integers(1, 6))
            b = int(rng.integers(1, 6))
            if rng.random() < 0.8:
                A[u:u + a, v:v + b] = True
            u += a
            v += b
    elif style == "hub":
        A[int(rng.integers(nU)), :] = True
        A[:, int(rng.integers(nV))] = True
        A |= rng.random((nU, nV)) < 0.05
    elif style == "matching+noise":
        L = min(nU, nV)
        for i in range(L):
            if rng.random() < 0.8:
                A[i, i] = True
        A |= rng.random((nU, nV)) < 0.03
    A = A[rng.permutation(nU)][:, rng.permutation(nV)]
    for _ in range(iso):
        A[int(rng.integers(nU)), :] = False
        A[:, int(rng.integers(nV))] = False
    if trail:
        tu = int(rng.integers(0, min(3, nU)))
        tv = int(rng.integers(0, min(3, nV)))
        if tu:
            A[nU - tu:, :] = False
        if tv:
            A[:, nV - tv:] = False
    if not A.any():
        A[int(rng.integers(nU)), int(rng.integers(nV))] = True
    adj = []
    for u in range(nU):
        l = [int(v) for v in np.nonzero(A[u])[0]]
        if order == "desc":
            l.reverse()
        elif order == "shuffled":
            l = [int(x) for x in rng.permutation(l)] if l else l
        adj.append(l)
    return adj


@st.composite
def graph_cases(draw, tier):
    size = st.one_of(st.integers(1, 8), st.integers(1, 40), st.integers(20, 40))
    nU = draw(size)
    nV = draw(size)
    style = draw(st.sampled_from(GRAPH_STYLES))
    seed = draw(st.integers(0, 2 ** 31 - 1))
    iso = draw(st.sampled_from([0, 0, 1, 2, 4]))
    trail = draw(st.booleans())
    order = draw(st.sampled_from(["asc", "desc", "shuffled"]))
    return {"kind": "graph", "nU": nU, "nV": nV, "style": style, "order": order,
            "adj": make_graph(nU, nV, style, seed, iso, trail, order),
            "algos": list(ALGOS), "as_numpy": draw(st.booleans())}


# ------------------------------------------------------------------------------------------------
# (iii) term tables
# ------------------------------------------------------------------------------------------------

SPINNY = ["spin"] * 7 + ["elec", "sho", "mvac"]


def _ident_pick(spec, i):
    return [i, "I", [0] if spec["sites"][i]["k"] in ("multi", "mvac") else []]


@st.composite
def pool_alphabets(draw, spec):
    """per site a small alphabet of supported picks (so that partial terms collide often)"""
    out = []
    for i in range(len(spec["sites"])):
        k = draw(st.integers(1, 3))
        picks = []
        for _ in range(k):
            p = draw(gen.site_pick(spec, i, 1))[0]
            if p not in picks and (p[1] != "I" or not picks):
                picks.append(p)
        out.append(picks)
    return out


@st.composite
def pool_term(draw, spec, alph, sites=None, p_ident=2):
    n = len(spec["sites"])
    ops = []
    for i in (range(n) if sites is None else sites):
        j = draw(st.integers(-p_ident, len(alph[i]) - 1))
        if j >= 0:
            ops.append(list(alph[i][j]))
    return ops


@st.composite
def table_cases(draw, tier):
    big = tier == "thorough"
    mode = draw(st.sampled_from(["pool", "pool", "pairs", "prodsum", "gen_spin", "gen_spin", "gen_all"]))
    flags = set()
    maxs = 8 if big else 6
    maxt = 40 if big else 20
    if mode == "gen_all":
        spec = draw(gen.model_specs(2, 6, max_dim=10 ** 9))
        terms, fl = draw(gen.term_tables(spec, 3, maxt))
        flags |= set(fl)
    elif mode == "gen_spin":
        spec = draw(gen.model_specs(2, maxs, qn=0, kinds=SPINNY, max_dim=10 ** 9))
        terms, fl = draw(gen.term_tables(spec, 4, maxt, max_support=3))
        flags |= set(fl)
    else:
        spec = draw(gen.model_specs({"pool": 2, "prodsum": 3, "pairs": 4}[mode], maxs, qn=0, kinds=SPINNY, max_dim=10 ** 9))
        n = len(spec["sites"])
        alph = draw(pool_alphabets(spec))
        terms = []
        if mode == "pool":
            # few-body terms over a small per-site alphabet (typical Hamiltonian shape: identity-prefix/suffix stars)
            body = draw(st.integers(2, 3))
            for _ in range(draw(st.integers(6, maxt))):
                k = draw(st.integers(1, body))
                sites = sorted({draw(st.integers(0, n - 1)) for _ in range(k)})
                terms.append({"f": draw(gen.factors()),
                              "ops": [list(alph[i][draw(st.integers(0, len(alph[i]) - 1))]) for i in sites]})
        elif mode == "pairs":
            keep = draw(st.integers(6, 10))
            second = draw(st.booleans())
            for i in range(n):
                for j in range(i + 1, n):
                    if draw(st.integers(0, 9)) < keep:
                        terms.append({"f": draw(gen.factors()), "ops": [list(alph[i][0]), list(alph[j][0])]})
                    if second and draw(st.integers(0, 9)) < 3:
                        terms.append({"f": draw(gen.factors()), "ops": [list(alph[i][-1]), list(alph[j][-1])]})
                if draw(st.integers(0, 4)) > 0:
                    terms.append({"f": draw(gen.factors()), "ops": [list(alph[i][-1])]})
        else:  # prodsum: sum_k (sum of left partial terms)_k x (sum of right partial terms)_k + noise; the blocks are
            # disjoint unbalanced bicliques of the cut graph (cover = sum_k min(l_k, r_k) < min(sum l_k, sum r_k))
            cut = draw(st.integers(1, n - 1))

            def partial(sites):
                single = [[list(a)] for i in sites for a in alph[i]]
                double = [[list(a), list(b)] for i in sites for j in sites if i < j for a in alph[i] for b in alph[j]]
                return single + double

            cl = draw(st.permutations(partial(range(cut))))
            cr = draw(st.permutations(partial(range(cut, n))))
            for _ in range(draw(st.integers(2, 3))):
                nl, nr = draw(st.sampled_from([(1, 3), (3, 1), (2, 4), (4, 2), (1, 2), (2, 1), (1, 4), (4, 1)]))
                Ls, cl = cl[:nl], cl[nl:]
                Rs, cr = cr[:nr], cr[nr:]
                keep = draw(st.integers(8, 10))
                for l in Ls:
                    for rr in Rs:
                        if draw(st.integers(0, 9)) < keep:
                            terms.append({"f": draw(gen.factors()), "ops": [list(o) for o in l] + [list(o) for o in rr]})
            for _ in range(draw(st.integers(0, 4))):
                terms.append({"f": draw(gen.factors()), "ops": draw(pool_term(spec, alph))})
        for t in terms:
            if not t["ops"]:
                t["ops"] = [_ident_pick(spec, draw(st.integers(0, n - 1)))]
                flags.add("explicit_identity")
        if not terms:
            terms.append({"f": draw(gen.factors()), "ops": [list(alph[0][0])]})
        for _ in range(draw(st.sampled_from([0, 0, 1, 2, 3]))):
            t0 = draw(st.sampled_from(terms))
            knob = draw(st.sampled_from(["duplicate", "cancelling", "exact_cancel"]))
            c = {"duplicate": 1.0, "cancelling": -0.5, "exact_cancel": -1.0}[knob]
            terms.append({"f": [c * t0["f"][0], c * t0["f"][1]], "ops": [list(o) for o in t0["ops"]]})
            flags.add(knob)
    n = len(spec["sites"])
    nsw = draw(st.integers(0, 2))
    return {"kind": "table", "mode": mode, "model": spec, "terms": terms, "flags": sorted(flags),
            "offset": draw(st.sampled_from([0.0, 0.0, 0.0, 1.5, -0.37])),
            "swaps": [draw(st.integers(0, n - 2)) for _ in range(nsw)]}


IDENT = ("I", (0,))


def harness_table(spec, terms, offset, lib_spelling=False):
    """de-duplicated, zero-filtered table as documented in _terms_to_table/_deduplicate_table:
    one row per term (every site, identity where the term does not act), the constant -offset as an
    all-identity row, equal rows summed, rows with |sum| <= 1e-15*max|sum| dropped.
    -> (rows, ambiguous-reason or None)"""
    n = len(spec["sites"])
    acc = {}
    for t in terms:
        f = complex(t["f"][0], t["f"][1])
        if f == 0:
            continue  # Model.check_operator_terms discards them
        g = gen.regroup(t)
        row = tuple((" ".join(g[i][0]), tuple(g[i][1])) if i in g else IDENT for i in range(n))
        if lib_spelling and len(g) == 1:
            # finding F-C20a: Op.split_elementary keeps the spaced spelling r"b^\dagger + b" for a term that consists of
            # this single symbol, but re-spells it r"b^\dagger+b" whenever the term has more than one symbol
            (i, (words, ld)), = g.items()
            if words == [r"b^\dagger+b"]:
                row = row[:i] + ((r"b^\dagger + b", tuple(ld)),) + row[i + 1:]
        a = acc.setdefault(row, [0j, 0.0])
        a[0] += f
        a[1] += abs(f)
    if offset != 0:
        a = acc.setdefault((IDENT,) * n, [0j, 0.0])
        a[0] += -offset
        a[1] += abs(offset)
    if not acc:
        return [], "no terms"
    mx = max(abs(a[0]) for a in acc.values())
    rows = []
    for row, (s, ab) in acc.items():
        if s != 0 and abs(s) <= 1e-12 * ab:
            return [], "rounding-level residue in a duplicate-term sum (outcome of the library's zero filter depends on summation order)"
        if mx > 0 and 1e-16 * mx < abs(s) < 1e-14 * mx:
            return [], "summed factor within a decade of the 1e-15 zero-filter threshold"
        if abs(s) > mx * 1e-15:
            rows.append(row)
    return rows, None


def cut_graph(rows, c):
    L, R = {}, {}
    adj = []
    for row in rows:
        l = L.setdefault(row[:c], len(L))
        rr = R.setdefault(row[c:], len(R))
        if l == len(adj):
            adj.append([])
        adj[l].append(rr)
    return adj, len(L), len(R)


# ------------------------------------------------------------------------------------------------


class C20(Prop):
    id = "C20"
    exhaustive_now = True
    rule = ("finite part: every bipartite graph with >=1 edge on every |U|x|V| grid (quick: grids up to 4x4, thorough: plus 5xb, "
            "bx5 for b<=4), both algorithms, ascending and descending neighbour lists, enumerated completely in chunk specs "
            "(one framework case = one chunk of up to 8192 (quick) / 32768 (thorough) masks; graph-level counts are in the class "
            "histogram, labels 'enum.total.*'); a graph is non-trivial when it has >=2 edges and (nu < min(|U|,|V|) or an isolated "
            "vertex), a chunk when it contains such a graph.  Generated part: random graphs up to 40x40 (11 styles/densities; "
            "same non-trivial rule) and term tables (few-body pool / all-pairs / sum-of-products / C01 generators, spin-heavy; "
            "quick 2-6 sites <=20 terms, thorough 2-8 sites <=40 terms; both graph algorithms on every table, <=2 adjacent swaps "
            "to feed the spy; non-trivial when at some cut the minimum cover is smaller than min(#distinct prefixes, #distinct suffixes), "
            "i.e. complementary operators are needed).  Large tables: 1 (quick) / 4 (thorough) three-site operators of ~65 550 "
            "terms with more than 65 536 distinct partial terms at a cut (non-trivial by that rule)")
    assumptions = ["precondition (DESIGN §3.10): graphs have >=1 edge; neighbour lists contain no repeated vertex",
                   "tables returned by the SciPy path may be shorter than |U|,|V| for trailing isolated vertices: padded with False",
                   "minimum cover of the enumerated graphs computed by definition (min over subsets of U); for larger graphs Koenig "
                   "with the harness' BFS augmenting-path matching, itself validated against the definition on every enumerated graph",
                   "harness table: terms re-grouped per site in written order, identity elsewhere, equal rows summed, rows with "
                   "|sum| <= 1e-15*max dropped (as documented in _deduplicate_table); cases whose sums leave a rounding-level "
                   "residue are rejected as ambiguous",
                   "the sweep-wise construction preserves the cover number of later cuts (row-selected prefixes keep all their "
                   "terms), so the reference is the cover number of the original table at every cut",
                   "integer comparisons only: no numerical tolerance apart from the library's own 1e-15 zero filter"]
    known_matchers = {
        # narrow: only the dedicated signature, which is raised only when the bonds equal the minimum covers of the table in
        # which the two spellings of b^\dagger + b are kept apart, and only if the case really contains that symbol
        "F-C20a": lambda spec, sig, msg: sig.endswith(".bond_inflated_by_symbol_spelling") and spec.get("kind") == "table"
        and any(o[1] == r"b^\dagger + b" for t in spec["terms"] for o in t["ops"]),
    }

    def __init__(self):
        self._cache = {}
        self._totals = None

    def fuzz(self, tier):
        # millisecond cases: libFuzzer mutates the byte stream behind the strategy and keeps inputs reaching new library branches
        return dict(runs=400 if tier == "quick" else 20000, shards=8 if tier == "quick" else 16, include=["renormalizer.mps.symbolic_mpo", "renormalizer.lib"])

    def budget(self, tier):
        return dict(examples=4000, shards=16) if tier == "quick" else dict(examples=60000, shards=16)

    def strategy(self, tier):
        return st.one_of(graph_cases(tier), table_cases(tier))

    # -------------------------------------------------------------------------------------------
    def finite_cases(self, tier):
        fixed = [
            # K_{3,3} minus a perfect matching plus a pendant and isolated vertices (textbook Koenig example)
            {"kind": "graph", "nU": 5, "nV": 5, "style": "fixed", "order": "asc",
             "adj": [[1, 2], [0, 2], [0, 1], [0], []], "algos": list(ALGOS), "as_numpy": False},
            # the worked example of construct_symbolic_mpo's docstring: 2 a_1 a_2^+ + 3 a_2^+ a_3 + 4 a_1^+ a_3
            # (documented outcome: complementary operator at the bond between sites 2 and 3, bonds 1,1,3,2,1)
            {"kind": "table", "mode": "fixed", "flags": [], "offset": 0.0, "swaps": [1],
             "model": {"names": 0, "qnmode": 0, "sites": [{"k": "elec"}] * 4},
             "terms": [{"f": [2.0, 0.0], "ops": [[1, "a", []], [2, r"a^\dagger", []]]},
                       {"f": [3.0, 0.0], "ops": [[2, r"a^\dagger", []], [3, "a", []]]},
                       {"f": [4.0, 0.0], "ops": [[1, r"a^\dagger", []], [3, "a", []]]}]},
            # all-to-all ZZ coupling plus fields on 6 spins: bonds k+2 instead of the number of distinct partial terms
            {"kind": "table", "mode": "fixed", "flags": [], "offset": 0.0, "swaps": [2],
             "model": {"names": 0, "qnmode": 0, "sites": [{"k": "spin"}] * 6},
             "terms": [{"f": [1.0 + 0.1 * i + 0.01 * j, 0.0], "ops": [[i, "Z", []], [j, "Z", []]]}
                       for i in range(6) for j in range(i + 1, 6)] +
                      [{"f": [0.5, 0.0], "ops": [[i, "X", []]]} for i in range(6)]},
        ]
        specs = enum_specs(tier)
        work = sorted(specs, key=lambda s: -(s["hi"] - s["lo"]) * (15 if s["algo"] == "Hopcroft-Karp" else 2))
        nproc = max(1, min(16, os.cpu_count() or 1))
        bigs = big_specs(tier)
        if nproc > 1:
            with mp.get_context("fork").Pool(nproc) as pool:
                big_async = pool.map_async(_big_worker, bigs, chunksize=1)  # the long ones first
                outs = pool.map(_enum_worker, work, chunksize=1)
                big_outs = big_async.get()
        else:
            outs = [_enum_worker(s) for s in work]
            big_outs = [_big_worker(s) for s in bigs]
        self._cache = {canon(s): o for s, o in zip(work, outs)}
        self._cache.update({canon(s): o for s, o in zip(bigs, big_outs) if "harness_error" not in o})
        tot = {}
        for s, o in zip(work, outs):
            k = (s["nU"], s["nV"], s["algo"])
            t = tot.setdefault(k, [0, 0, 0])
            t[0] += o["graphs"]
            t[1] += o["calls"]
            t[2] += o["nontrivial"]
        self._totals = tot
        return fixed + bigs + specs + [{"kind": "enum_summary", "tier": tier}]

    # -------------------------------------------------------------------------------------------
    def run_case(self, spec):
        kind = spec["kind"]
        if kind == "enum":
            return self.run_enum(spec)
        if kind == "enum_summary":
            return self.run_enum_summary(spec)
        if kind == "graph":
            return self.run_graph(spec)
        if kind == "table":
            return self.run_table(spec)
        if kind == "bigtable":
            return self.run_bigtable(spec)
        raise ValueError(kind)

    def run_bigtable(self, spec):
        out = self._cache.get(canon(spec))
        if out is None:  # replay, or the pool worker met a harness error: recompute here so that it surfaces
            out = big_table(spec)
        r = Result()
        r.nontrivial = out["nontrivial"]
        r.classes += out["classes"]
        r.subchecks += out["subchecks"]
        for sig, msg in out["fails"]:
            r.fail(sig, msg)
        return r

    def run_enum(self, spec):
        out = self._cache.get(canon(spec))
        if out is None:
            out = enum_chunk(spec)
        if out["oracle_mismatch"]:
            raise RuntimeError("harness oracle self-test failed: " + out["oracle_mismatch"])
        r = Result()
        r.subchecks = out["subchecks"]
        r.nontrivial = out["nontrivial"] > 0
        r.classes = [f"enum.chunk.grid{spec['nU']}x{spec['nV']}", f"enum.chunk.{spec['algo']}"]
        r.info = {k: out[k] for k in ("graphs", "calls", "nontrivial")}
        r.info.update(out["classes"])
        for sig, (cnt, msg) in out["fails"].items():
            r.fail(sig, f"[{cnt} failing calls in this chunk; first:] {msg}")
        return r

    def run_enum_summary(self, spec):
        r = Result()
        if not self._totals:
            return r
        grids = enum_grids(spec["tier"])
        g = c = nt = 0
        for (a, b) in grids:
            for algo in ALGOS:
                t = self._totals.get((a, b, algo), [0, 0, 0])
                r.check("enum.incomplete", t[0] == (1 << (a * b)) - 1 and t[1] == 2 * t[0],
                        f"grid {a}x{b} {algo}: {t[0]} graphs / {t[1]} calls evaluated, expected {(1 << (a * b)) - 1} / x2")
                g += t[0]
                c += t[1]
                nt += t[2]
            t = self._totals.get((a, b, ALGOS[0]), [0, 0, 0])
            r.classes.append(f"enum.total.grid{a}x{b}: graphs={t[0]} nontrivial={t[2]} (x{len(ALGOS)} algorithms x2 neighbour orders)")
        r.classes.append(f"enum.total: graph-algorithm pairs={g} library calls={c} nontrivial pairs={nt}")
        return r

    # -------------------------------------------------------------------------------------------
    def run_graph(self, spec):
        bvc = _bvc()
        r = Result()
        nU, nV, adj = spec["nU"], spec["nV"], spec["adj"]
        nu = max_matching(adj, nV)
        nedges = sum(len(a) for a in adj)
        usedv = {v for a in adj for v in a}
        isolated = any(len(a) == 0 for a in adj) or len(usedv) < nV
        r.nontrivial = nedges >= 2 and (nu < min(nU, nV) or isolated)
        sz = max(nU, nV)
        r.classes += [f"graph.style.{spec.get('style', '?')}", f"graph.size<={(sz + 9) // 10 * 10}",
                      "graph.nu<min" if nu < min(nU, nV) else "graph.nu=min"]
        if isolated:
            r.classes.append("graph.isolated")
        if not adj[-1] or (nV - 1) not in usedv:
            r.classes.append("graph.trailing_isolated")
        if spec.get("as_numpy"):
            r.classes.append("graph.numpy_adjacency")
        for algo in spec.get("algos", ALGOS):
            arg = [np.array(a, dtype=np.int32) for a in adj] if spec.get("as_numpy") else [list(a) for a in adj]
            r.subchecks += 2
            try:
                tabs = bvc(arg, algo=algo)
            except Exception as e:  # noqa
                sig, in_lib = lib_exception_sig(e)
                if not in_lib:
                    raise
                r.fail(f"graph.{algo}.{sig}", f"{nU}x{nV} graph: {e!r}")
                continue
            bad, msg = cover_verdict(adj, nU, nV, tabs, nu)
            if bad:
                r.fail(f"graph.{algo}.{bad}", f"{nU}x{nV} graph, nu={nu}: {msg}")
        return r

    # -------------------------------------------------------------------------------------------
    def run_table(self, case):
        from renormalizer.mps import Mpo
        from renormalizer.mps import symbolic_mpo as sm
        from renormalizer.model import Model
        from renormalizer.utils import Quantity

        r = Result()
        spec = case["model"]
        terms = case["terms"]
        n = len(spec["sites"])
        rows, amb = harness_table(spec, terms, case["offset"])
        if amb is not None:
            r.rejected = amb
            return r
        if not rows:
            r.rejected = "operator is identically zero (everything cancels)"
            return r
        expected, bound = [], []
        for c in range(n + 1):
            adj, nl, nr = cut_graph(rows, c)
            expected.append(max_matching(adj, nr))
            bound.append(min(nl, nr))
        # the same with the library's two spellings of one SHO symbol kept apart (known finding F-C20a)
        rows_sp, _ = harness_table(spec, terms, case["offset"], lib_spelling=True)
        expected_sp = []
        for c in range(n + 1):
            adj, nl, nr = cut_graph(rows_sp, c)
            expected_sp.append(max_matching(adj, nr))
        if expected_sp != expected:
            r.classes.append("table.two_spellings_of_b^dagger+b_inflate_the_table(F-C20a)")
        r.nontrivial = any(e < b for e, b in zip(expected, bound))
        r.classes += [f"table.mode.{case.get('mode', '?')}", f"table.sites={n}", f"table.rows<={(len(rows) + 4) // 5 * 5}",
                      f"table.maxbond<={(max(expected) + 1) // 2 * 2}"]
        r.classes += [f"table.knob.{f}" for f in case.get("flags", [])]
        if len(rows) < len(terms) + (case["offset"] != 0):
            r.classes.append("table.rows_merged_or_dropped")
        if r.nontrivial:
            r.classes.append("table.complementary_needed")
        if case["offset"] != 0:
            r.classes.append("table.offset")
        need_complex = any(gen.is_complex_local(spec, t) for t in terms)
        bl = gen.build_basis_list(spec)

        def ops():
            out = []
            for t in terms:
                op = gen.build_op(spec, t)
                if need_complex:
                    op = op * complex(1.0, 0.0)
                out.append(op)
            return out

        amb_sym = r"b^\dagger + b"
        for t in terms:
            joined = " ".join(o[1] for o in t["ops"])
            if joined.count(amb_sym) > sum(o[1].count(amb_sym) for o in t["ops"]):
                # Op.product joins the symbols with blanks; r"b^\dagger" "+" "b..." (SHO raising operator, spin "+", SHO
                # symbol) is then read as the single symbol r"b^\dagger + b" and Op.__init__ raises: the term cannot be
                # expressed as an Op at all (symbol ambiguity of the Op class, subject of C15; nothing reaches the builder)
                r.rejected = "Op cannot express the term: 'b^\\dagger' '+' 'b...' is parsed as the single symbol 'b^\\dagger + b'"
                r.nontrivial = False
                return r
        calls = []
        orig = sm.bipartite_vertex_cover

        def spy(bigraph, algo="Hopcroft-Karp"):
            rec = {"adj": [[int(v) for v in a] for a in bigraph], "algo": algo, "phase": phase[0]}
            calls.append(rec)
            res = orig(bigraph, algo=algo)
            rec["tabs"] = ([bool(x) for x in res[0]], [bool(x) for x in res[1]])
            return res

        phase = ["build"]
        for algo in ALGOS + ["qr"]:
            del calls[:]
            phase[0] = "build"
            sm.bipartite_vertex_cover = spy
            try:
                try:
                    mpo = Mpo(Model(list(bl), []), ops(), offset=Quantity(case["offset"]), algo=algo)
                    bd = [int(x) for x in mpo.bond_dims]
                except Exception as e:  # noqa
                    sig, in_lib = lib_exception_sig(e)
                    if not in_lib:
                        raise
                    if algo != "qr":
                        r.fail(f"table.build.{algo}.{sig}", repr(e))
                    self.judge_spy(r, calls)
                    continue
                if algo == "qr":
                    # informative only: QR minimises the numerical rank, not the symbolic cover
                    r.classes.append("table.qr_bond<cover" if any(g < e for g, e in zip(bd, expected)) else
                                     ("table.qr_bond>cover(informative)" if any(g > e for g, e in zip(bd, expected))
                                      else "table.qr_bond=cover"))
                    continue
                r.check(f"table.{algo}.bond_count", len(bd) == n + 1, f"bond_dims {bd} for {n} sites")
                if len(bd) == n + 1 and bd != expected and bd == expected_sp:
                    r.subchecks += 1
                    r.fail(f"table.{algo}.bond_inflated_by_symbol_spelling",
                           f"bond_dims {bd} exceed the minimum covers {expected}: the table holds the same operator under the two "
                           f"spellings 'b^\\dagger + b' (single-symbol term) and 'b^\\dagger+b' (re-spelt by Op.split_elementary "
                           f"in multi-symbol terms) as two different primary operators")
                elif len(bd) == n + 1:
                    r.check(f"table.{algo}.bond_gt_mincover", all(g <= e for g, e in zip(bd, expected)),
                            f"bond_dims {bd} exceed the minimum covers {expected} (min(#prefixes,#suffixes) {bound})")
                    r.check(f"table.{algo}.bond_lt_mincover", all(g >= e for g, e in zip(bd, expected)),
                            f"bond_dims {bd} below the minimum covers {expected} of the harness table")
                    r.check(f"table.{algo}.bond_gt_distinct_partial_terms", all(g <= b for g, b in zip(bd, bound)),
                            f"bond_dims {bd} exceed min(#distinct prefixes, #distinct suffixes) {bound}")
                r.classes.append("spy.build.consulted_once_per_site" if len(calls) == n else f"spy.build.calls={len(calls)}")
                # adjacent-site swaps: only to feed the graphs of the swap path to the spy
                order = list(range(n))
                phase[0] = "swap"
                for pos in case.get("swaps", []):
                    order[pos], order[pos + 1] = order[pos + 1], order[pos]
                    try:
                        mpo.try_swap_site(Model([bl[i] for i in order], []), swap_jw=False, algo=algo)
                        r.classes.append("table.swap")
                    except Exception as e:  # noqa
                        sig, in_lib = lib_exception_sig(e)
                        if not in_lib:
                            raise
                        if "bipartite_matching.py" in sig:
                            r.fail(f"table.swap.{algo}.{sig}", repr(e))
                        else:
                            r.classes.append("table.swap_exception(subject of C01)")
                        break
                self.judge_spy(r, calls)
            finally:
                sm.bipartite_vertex_cover = orig
        return r

    def judge_spy(self, r, calls):
        for rec in calls:
            if "tabs" not in rec:
                continue  # the call raised; reported by the caller's handler
            adj = rec["adj"]
            nU = len(adj)
            nV = max([max(a) + 1 for a in adj if a] + [len(rec["tabs"][1])])
            nu = max_matching(adj, nV)
            r.subchecks += 2
            bad, msg = cover_verdict(adj, nU, nV, rec["tabs"], nu)
            r.classes.append(f"spy.{rec['phase']}.graph")
            if bad:
                r.fail(f"spy.{rec['phase']}.{rec['algo']}.{bad}",
                       f"graph submitted by the builder ({nU}x{nV}, nu={nu}) adjacency {adj}: {msg}")

    # -------------------------------------------------------------------------------------------
    def sample_view(self, spec):
        k = spec.get("kind")
        if k == "graph":
            return {"kind": k, "nU": spec["nU"], "nV": spec["nV"], "style": spec.get("style"),
                    "adj_first_rows": spec["adj"][:6], "as_numpy": spec.get("as_numpy")}
        if k == "table":
            return {"kind": k, "mode": spec.get("mode"), "sites": [s["k"] for s in spec["model"]["sites"]],
                    "n_terms": len(spec["terms"]), "first_terms": spec["terms"][:3], "offset": spec["offset"],
                    "knobs": spec.get("flags"), "swaps": spec.get("swaps")}
        return spec


PROP = C20()

"""C05 — truncation respects the bond limit and the discarded-weight error bounds (chains; trees via vf.tree)."""
import numpy as np
from hypothesis import strategies as st

from vf.core import Prop, Result
from vf import gen, chain
from vf.props.c03 import check_meta
from vf.props.c04 import builder_instr


@st.composite
def trunc_instr(draw):
    crit = draw(st.sampled_from(["threshold", "fixed", "fixed", "both"]))
    ins = {"op": "truncate", "a": draw(st.integers(0, 20)), "crit": crit, "dir": draw(st.integers(0, 1)),
           "thr": draw(st.sampled_from([1e-4, 1e-3, 1e-2, 0.05, 0.1, 0.3, 0.6, 0.8])),
           "M": draw(st.sampled_from([1, 1, 2, 2, 3, 4, 5, 8])), "style": draw(st.sampled_from(["config", "config_list", "temp_int", "temp_list"])),
           "Mlist": draw(st.lists(st.sampled_from([1, 2, 2, 3, 4, 6]), min_size=9, max_size=9)),
           "ret_s": draw(st.booleans()), "via_copy": draw(st.integers(0, 2)) == 0}
    return ins


@st.composite
def tree_cases(draw, tier):
    """the tree half of the property: random / summed TTNS on generated trees, truncated with generated limits; the bounds are
    checked per edge by vf.tree.TInterp.i_truncate (signatures trunc.*)"""
    from vf import tree as T

    ts = draw(T.tree_specs(2, 6, kinds=T.STATE_KINDS, max_dim=128 if tier == "quick" else 256, small_sho=True, allow_single=False))
    prog = []
    qsel = draw(st.integers(0, 50))
    for _ in range(draw(st.integers(1, 3))):
        ins = draw(T.create_instr(("random",)))
        ins["q"] = qsel
        prog.append(ins)
    for _ in range(draw(st.integers(0, 2))):
        prog.append({"op": draw(st.sampled_from(["add", "cadd"])), "a": draw(st.integers(0, 20)), "b": draw(st.integers(0, 20)), "meth": 0})
    for _ in range(draw(st.integers(1, 3))):
        prog.append(draw(T.trunc_instr()))
    return {"part": "tree", "tree": ts, "prog": prog}


@st.composite
def all_cases(draw, tier):
    if draw(st.integers(0, 3)) == 0:
        return draw(tree_cases(tier))
    return draw(cases(tier))


@st.composite
def cases(draw, tier):
    spec = draw(chain.chain_model_specs(3, 7, max_dim=256 if tier == "quick" else 1024))
    has_multi_or_dummy = any(s["k"] in ("multi", "dummy") for s in spec["sites"])
    has_qn = any(np.any(gen.site_sigmaqn(spec, i) != 0) for i in range(len(spec["sites"])))
    allow = ["rand", "rand", "rand"]
    if not has_qn:
        allow.append("dense")
    prog = []
    qsel = draw(st.integers(0, 50))
    for _ in range(draw(st.integers(1, 3))):
        ins = draw(chain.create_instr(spec, tuple(allow)))
        if ins["op"] == "rand":
            if draw(st.integers(0, 3)) > 0:
                ins["q"] = qsel
            ins["m"] = draw(st.sampled_from([4, 6, 8, 16, 16]))
        prog.append(ins)
    if draw(st.integers(0, 2)) == 0:
        # a state with exactly tied non-zero singular values (Bell-pair like), optionally mixed with the others later
        prog.append({"op": "tie", "pair": draw(st.integers(0, 20)), "occ": draw(st.lists(st.integers(0, 3), min_size=1, max_size=7)),
                     "fac": draw(st.sampled_from([1.0, 2.0, -0.5]))})
    if draw(st.booleans()):
        prog.append(draw(chain.mpo_instr(spec)))
    for _ in range(draw(st.integers(0, 3))):
        prog.append(draw(builder_instr()))
    for _ in range(draw(st.integers(1, 3))):
        t = draw(trunc_instr())
        if prog and any(p["op"] == "tie" for p in prog) and draw(st.booleans()):
            t["a"] = -1 if not any(p["op"] not in ("tie", "rand", "dense", "mpo") for p in prog) else t["a"]
        prog.append(t)
    return {"model": spec, "prog": prog}


def cut_spectra(vec, dims):
    out = []
    for c in range(1, len(dims)):
        m = np.asarray(vec).reshape(int(np.prod(dims[:c])), -1)
        out.append(np.linalg.svd(m, compute_uv=False))
    return out


class Interp05(chain.Interp):
    def i_truncate(self, ins):
        from renormalizer.utils import CompressConfig, CompressCriteria

        reg = self.pick(self.S, ins["a"])
        if reg is None or self.n < 2:
            return
        r = self.r
        n = self.n
        ok, x = self.guard("trunc.copy", reg.obj.copy)
        if not ok:
            return
        # "compressing a canonical state": bring it to canonical form first (as every caller does)
        ok, _ = self.guard("trunc.prepare", (x.ensure_left_canonical if ins["dir"] else x.ensure_right_canonical))
        if not ok:
            return
        c = x.coeff
        psi = chain.tensors_dense(x)
        nrm = np.linalg.norm(psi)
        if not nrm > 1e-8:
            return
        spectra = cut_spectra(psi, self.dims)  # spectra[c-1] at bond c
        crit = {"threshold": CompressCriteria.threshold, "fixed": CompressCriteria.fixed, "both": CompressCriteria.both}[ins["crit"]]
        Mlist = [ins["Mlist"][i % len(ins["Mlist"])] for i in range(n + 1)]
        style = ins["style"]
        temp = None
        if style in ("temp_int", "temp_list"):
            # temp_m_trunc overrides the configuration: behaves as `fixed`
            limits = [ins["M"]] * (n + 1) if style == "temp_int" else Mlist
            temp = ins["M"] if style == "temp_int" else list(limits)
            eff_crit = "fixed"
        else:
            cfg = CompressConfig(crit, threshold=ins["thr"], max_bonddim=ins["M"])
            limits = [ins["M"]] * (n + 1)
            if style == "config_list":
                cfg.max_dims = np.array(Mlist, dtype=int)
                limits = Mlist
            x.compress_config = cfg
            eff_crit = ins["crit"]
            if ins.get("via_copy"):
                # the configuration (incl. per-bond limits) travels with copies: configure, copy, compress the copy
                ok, x = self.guard("trunc.copy_configured", x.copy)
                if not ok:
                    return
                r.classes.append("trunc.via_copy")
        to_right = bool(x.to_right)
        if ins["ret_s"]:
            ok, res = self.guard("trunc.compress", lambda: x.compress(temp_m_trunc=temp, ret_s=True))
        else:
            ok, res = self.guard("trunc.compress", lambda: x.compress(temp_m_trunc=temp))
        if not ok:
            return
        s_arr = res[1] if ins["ret_s"] else None
        tr = self.trace[-5:]
        bd = list(x.bond_dims)
        psi_m = chain.tensors_dense(x)
        r.classes.append(f"crit.{eff_crit}")
        r.classes.append(f"style.{style}")
        # (i) limit obeyed
        if eff_crit in ("fixed", "both"):
            r.check("trunc.limit", all(bd[i] <= limits[i] for i in range(1, n)), f"bond dims {bd} limits {limits} trace={tr}")
        r.check("trunc.boundary_bonds", bd[0] == 1 and bd[-1] == 1, f"{bd}")
        r.check("trunc.coeff", x.coeff == c, "prefactor changed by compress")
        # (ii) norm does not grow
        nm = np.linalg.norm(psi_m)
        r.check("trunc.norm", nm <= nrm * (1 + 1e-10), f"norm {nm} > original {nrm} trace={tr}")
        # (iii) distance bounds from the spectra of the ORIGINAL state at every cut
        eps2 = []
        for cbond in range(1, n):
            s = spectra[cbond - 1]
            eps2.append(float(np.sum(s[bd[cbond]:] ** 2)))
        dist = np.linalg.norm(psi - psi_m)
        lower = np.sqrt(max(eps2)) if eps2 else 0.0
        upper = np.sqrt(sum(eps2))
        r.resid("trunc.upper_excess", (dist - upper) / nrm, 1e-8)
        r.resid("trunc.lower_deficit", (lower - dist) / nrm, 1e-8)
        r.check("trunc.upper_bound", dist <= upper * (1 + 1e-8) + 1e-10 * nrm,
                f"|psi-psi_M|={dist:.6e} > sqrt(sum discarded)={upper:.6e} bonds {bd} crit {eff_crit} trace={tr}")
        r.check("trunc.lower_bound", dist >= lower * (1 - 1e-8) - 1e-10 * nrm,
                f"|psi-psi_M|={dist:.6e} < largest single-bond discarded weight {lower:.6e} bonds {bd} trace={tr}")
        truncated = max(eps2) > 1e-12 * nrm ** 2 if eps2 else False
        if truncated:
            r.classes.append("truncated")
            r.info["truncated"] = True
        # (iv) kept counts / (v) singular values: dense replica of the same sweep
        cur = psi.copy()
        order = list(range(1, n)) if to_right else list(range(n - 1, 0, -1))
        pred = {}
        amb = False
        dims = self.dims
        for k, cbond in enumerate(order):
            m = cur.reshape(int(np.prod(dims[:cbond])), -1)
            u, s, vh = np.linalg.svd(m, full_matrices=False)
            snorm = np.linalg.norm(s)
            rank = int(np.sum(s > 1e-12 * max(snorm, 1e-300)))
            ns = s / max(snorm, 1e-300)
            n_thr = max(int(np.sum(ns > ins["thr"])), 1)  # a state is never truncated to nothing
            near_thr = bool(np.any(np.abs(ns - ins["thr"]) < 1e-6 * ins["thr"]))
            if eff_crit == "threshold":
                lo = hi = n_thr
                amb_here = near_thr
            elif eff_crit == "fixed":
                lo, hi = min(limits[cbond], rank), limits[cbond]
                amb_here = False
            else:
                lo, hi = min(n_thr, min(limits[cbond], rank)), min(n_thr, limits[cbond])
                amb_here = near_thr
            keep = bd[cbond]
            # degenerate singular values at the cut make the kept subspace (not the count) ambiguous: stop comparing spectra
            if s_arr is not None and not amb:
                got = np.sort(np.asarray(s_arr[k], dtype=float))[::-1]
                mlen = max(len(got), len(s))
                r.check_close("trunc.ret_s", np.pad(got, (0, mlen - len(got))), np.pad(s, (0, mlen - len(s))),
                              1e-9 * nrm + 1e-13, f"singular values at bond {cbond} (step {k}) trace={tr}")
            if not amb_here and not amb:
                if not r.check("trunc.kept_count", lo <= keep <= hi,
                               f"bond {cbond}: kept {keep}, dense replica predicts [{lo},{hi}] (crit {eff_crit}, thr {ins['thr']}, "
                               f"limit {limits[cbond]}, rank {rank}) trace={tr}"):
                    break
            else:
                amb = True
            kk = min(keep, len(s))
            if kk < len(s) and kk > 0 and abs(s[kk - 1] - s[kk]) < 1e-9 * max(snorm, 1e-300) and s[kk] > 1e-12 * snorm:
                amb = True
            cur = (u[:, :kk] * s[:kk]) @ vh[:kk]
            cur = cur.reshape(-1)
        if not amb:
            # the dense replica and the library performed the same truncation: the results coincide
            r.check_close("trunc.replica_state", psi_m, cur, 1e-8 * nrm, f"compressed state vs dense sequential-SVD replica trace={tr}")
        # (vi) sector preserved, labels valid
        tmp = chain.Reg(x, psi_m * c, reg.q, "S")
        check_meta(self, tmp, "trunc")


class C05(Prop):
    id = "C05"
    rule = ("Hypothesis draws a model (2-7 sites, with/without quantum numbers), states (random with bond up to 16, sums, "
            "operator images, from_dense) and 1-3 truncations: criterion (threshold / fixed / both), threshold in [1e-4,0.8], "
            "limit M in 1..8 given as config, per-bond list, temp_m_trunc int or list, sweep direction, ret_s. Non-trivial = at "
            "least one bond actually truncated (discarded weight > 1e-12 of the norm)")
    assumptions = ["upper bound: sequential projections + singular-value interlacing (theorem for the spectra of the original state)",
                   "lower bound: Eckart-Young at every cut",
                   "the state is brought to canonical form (ensure_*_canonical) before compress, as the statement and callers require",
                   "kept counts compared with a dense replica of the same sweep unless a singular value lies within 1e-6 of the cut"]

    def budget(self, tier):
        return dict(examples=2400, shards=16) if tier == "quick" else dict(examples=60000, shards=16)

    def strategy(self, tier):
        return all_cases(tier)

    def run_tree(self, case):
        from vf import tree as T
        from vf.props.c11 import Hooks as TreeHooks

        r = Result()
        it = T.TInterp(case["tree"], r, TreeHooks())
        it.run(case["prog"])
        cl = set(r.classes)
        r.nontrivial = "trunc.truncated" in cl or any(c.startswith("trunc.cut") for c in cl) or bool(r.info.get("truncated"))
        r.classes = sorted(cl) + ["part.tree"]
        r.info = {}
        return r

    def run_case(self, case):
        if case.get("part") == "tree":
            return self.run_tree(case)
        r = Result()
        it = Interp05(case["model"], r, None)
        it.run(case["prog"])
        cl = set(r.classes)
        r.classes = sorted(cl) + [f"sites={it.n}", f"qn={case['model'].get('qnmode')}"]
        r.nontrivial = bool(r.info.get("truncated"))
        return r

    def sample_view(self, case):
        if case.get("part") == "tree":
            return {"part": "tree", "topo": case["tree"]["topo"], "sites": [s["k"] for s in case["tree"]["model"]["sites"]], "prog": case["prog"]}
        return {"sites": [s["k"] for s in case["model"]["sites"]], "qnmode": case["model"].get("qnmode"),
                "prog": [{k: v for k, v in i.items() if k != "terms"} for i in case["prog"]]}


PROP = C05()

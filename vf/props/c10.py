"""C10 — imaginary-time and thermal propagation yield the Gibbs state (chain part; the tree part lives in C12's module)."""
import numpy as np
from hypothesis import strategies as st

from vf.props.c09 import ps_is_exact as c09_ps_is_exact
from vf.core import Prop, Result, lib_exception_sig
from vf import gen, chain, evo
from vf.props.c08 import scaled_terms, build_ops
from vf.props.c09 import prepare_state, BIG


@st.composite
def holstein_specs(draw, max_mol=3):
    nmol = draw(st.integers(1, max_mol))
    mols = []
    dim = 1
    for _ in range(nmol):
        nph = draw(st.integers(1, 2))
        phs = []
        for _ in range(nph):
            w0 = draw(st.sampled_from([0.5, 1.0, 1.7]))
            phs.append({"w0": w0, "w1": w0 if draw(st.integers(0, 2)) else draw(st.sampled_from([0.8, 1.3])) * w0,
                        "d": draw(st.sampled_from([0.0, 0.5, -0.8, 1.2])), "nbas": draw(st.integers(2, 3))})
            dim *= phs[-1]["nbas"]
        mols.append({"e": draw(st.sampled_from([0.0, 0.3, -0.5, 2.0])), "ph": phs})
        dim *= 2
    while dim > 600 and len(mols) > 1:
        m = mols.pop()
        dim //= 2 * int(np.prod([p["nbas"] for p in m["ph"]]))
    return {"mols": mols, "J": draw(st.sampled_from([0.0, 0.2, -0.7, 1.0])), "scheme": draw(st.sampled_from([1, 2, 3, 4])),
            "periodic": draw(st.booleans())}


def build_holstein(h):
    from renormalizer.model import HolsteinModel, Mol, Phonon
    from renormalizer.utils import Quantity

    mols = []
    for m in h["mols"]:
        phs = [Phonon([Quantity(p["w0"]), Quantity(p["w1"])], [Quantity(0), Quantity(p["d"])], p["nbas"]) for p in m["ph"]]
        mols.append(Mol(Quantity(m["e"]), phs))
    n = len(mols)
    periodic = h["periodic"] and n > 2 and h["J"] != 0
    return HolsteinModel(mols, Quantity(h["J"]), scheme=h["scheme"], periodic=periodic)


def draw_scheme(case):
    """tree purification uses the one-basis-per-degree-of-freedom layouts (schemes 1-3)"""
    return case["holstein"]["scheme"] if case["holstein"]["scheme"] < 4 else 2


def local_h(model, h, space):
    """documented local vibrational Hamiltonian per site (harness ladder matrices); identity on electronic sites.
    returns list of per-site matrices h_i (zero for electronic sites)"""
    out = []
    for b in model.basis:
        d = b.nbas
        if b.is_phonon:
            imol, iph = b.dof
            p = h["mols"][imol]["ph"][iph]
            num = np.diag(np.arange(d, dtype=float))
            m = p["w0"] * num
            if space == "EX":
                lad = np.diag(np.sqrt(np.arange(1, d)), k=1)
                term10 = p["w1"] ** 2 / np.sqrt(2.0 * p["w0"]) * (-p["d"])
                m = m + term10 * (lad + lad.T)
            out.append(m)
        else:
            out.append(np.zeros((d, d)))
    return out


def dense_local_sum(mats):
    dims = [m.shape[0] for m in mats]
    D = int(np.prod(dims))
    tot = np.zeros((D, D))
    for i, m in enumerate(mats):
        if not m.any():
            continue
        ms = [np.eye(d) for d in dims]
        ms[i] = m
        tot += gen.kron_all(ms)
    return tot


def expm_herm(H, z):
    w, u = np.linalg.eigh((H + H.conj().T) / 2)
    return (u * np.exp(z * w)) @ u.conj().T


@st.composite
def cases(draw, tier):
    mode = draw(st.sampled_from(["imag", "imag", "imag_poly", "imag_cmf", "thermal", "thermal_exact", "propagator", "evolve_exact",
                                 "thermal_tree"]))
    c = {"mode": mode, "rng": draw(st.integers(0, 10 ** 6)), "q": draw(st.integers(0, 50)), "cplx": draw(st.booleans()),
         "gauge": draw(st.integers(0, 2)), "coeff": draw(st.sampled_from([[1.0, 0.0], [0.6, 0.8], [2.0, 0.0]])),
         "htau": draw(st.sampled_from([0.03, 0.05, 0.1, 0.3, 0.5, 1.0, 2.0, 3.0])), "normalize": draw(st.integers(0, 3)) > 0,
         "dm": draw(st.integers(0, 3)) == 0, "nstep": draw(st.integers(1, 4))}
    if mode in ("imag", "imag_poly", "imag_cmf"):
        c["model"] = draw(chain.chain_model_specs(2, 5 if tier == "thorough" else 4, max_dim=64))
        c["terms"] = draw(gen.hermitian_hamiltonian(c["model"], max_terms=4))
        fam = {"imag": ("ps", "ps2", "vmf"), "imag_poly": ("pc",), "imag_cmf": ("cmf",)}[mode]
        c["scheme"] = draw(evo.scheme_specs(fam))
        if mode == "imag_cmf":
            c["htau"] = draw(st.sampled_from([0.03, 0.05, 0.1, 0.2, 0.3]))
        c["adaptive"] = mode == "imag_poly" and draw(st.integers(0, 3)) == 0
    else:
        c["holstein"] = draw(holstein_specs())
        c["space"] = draw(st.sampled_from(["GS", "EX"]))
        c["x"] = draw(st.sampled_from([[-0.3, 0.0], [0.0, -0.7], [-0.2, 0.5], [0.4, 0.0], [0.0, 2.0]]))
        c["shift"] = draw(st.sampled_from([0.0, 0.7, -1.3]))
        c["offset"] = draw(st.sampled_from([0.0, 0.9, -2.3]))
        c["offset2"] = draw(st.sampled_from([0.0, 1.7, -0.4]))
        c["dt"] = draw(st.sampled_from([0.1, 0.7, 3.0]))
        c["beta_step"] = draw(st.sampled_from([0.02, 0.05, 0.1, 0.3, 1.0]))
        c["m0"] = draw(st.sampled_from([1, 2, 4]))
        c["taylor"] = draw(st.sampled_from([None, 3, 4, 6]))
        c["tree_ctor"] = draw(st.sampled_from(["linear", "binary", "random"]))
        c["tree_parent"] = draw(st.lists(st.integers(0, 9), min_size=8, max_size=8))
    return c


class C10(Prop):
    id = "C10"
    rule = ("Hypothesis draws one of: imag (PS / PS2 / VMF at full bond dimension, all solvers/options, 1-4 successive calls) vs the "
            "normalised exp(-tau H) psi; imag_poly (Taylor / RK4 / general RK with imaginary guess_dt, optional adaptive) vs the algebraic "
            "replica; imag_cmf vs the exact state within the scheme's bound; thermal (ThermalProp from max_entangled_gs/ex of a Holstein "
            "model, schemes 1-4, P&C) vs a dense replica with the same energy re-centring and vs Gibbs averages; thermal_exact and "
            "propagator (closed-form local propagator, GS/EX, real/imaginary/complex x, shift) vs the dense exponential of the documented "
            "local Hamiltonian; evolve_exact (two offsets: same answer, input untouched). Non-trivial = tau*||H|| >= 0.05 (for "
            "evolve_exact: offset != 0)")
    assumptions = ["reference: eigendecomposition-based exp(-tau H) of the harness dense Hamiltonian; Gibbs averages Tr(e^{-beta H}O)/Z on the sector",
                   "documented local Hamiltonian: GS sum_w w b^dagger b; EX w b^dagger b + w1^2(-d)/sqrt(2 w0) (b^dagger+b) with harness ladder matrices",
                   "complex Hamiltonians are propagated with complex states (a real state cannot hold the result)",
                   "the dense Holstein Hamiltonian is taken from Mpo(model).todense() (C16 checks it against the physics)"]

    def budget(self, tier):
        return dict(examples=480, shards=16) if tier == "quick" else dict(examples=16000, shards=16)

    def strategy(self, tier):
        return cases(tier)

    def run_case(self, case):
        r = Result()
        mode = case["mode"]
        r.classes.append(f"mode.{mode}")
        try:
            if mode in ("imag", "imag_poly", "imag_cmf"):
                self.run_imag(case, r)
            else:
                getattr(self, "run_" + mode)(case, r)
        except Exception as e:  # noqa
            sig, in_lib = lib_exception_sig(e)
            if not in_lib:
                raise
            import traceback
            r.fail(f"{mode}.{sig}", "".join(traceback.format_exception(type(e), e, e.__traceback__))[-1500:])
        return r

    # ---------------------------------------------------------------------------------------------------------
    def run_imag(self, case, r):
        from renormalizer.mps import Mpo, MpDm
        from renormalizer.utils import CompressConfig, CompressCriteria
        from renormalizer.utils.rk import RungeKutta

        spec = case["model"]
        mode = case["mode"]
        terms, H = scaled_terms(spec, case["terms"], 1.0)
        if terms is None:
            r.rejected = "zero Hamiltonian"
            return
        mps, model, q, bl = prepare_state(case, r, full=True)
        if mps is None:
            return
        mpo = Mpo(model, build_ops(spec, terms))
        if mpo.is_complex and not mps.is_complex:
            mps = mps.to_complex()
        v = chain.tensors_dense(mps)
        for k in range(6):
            v = H @ v
            if np.linalg.norm(v) <= 1e-8:
                r.rejected = "H^k psi0 = 0 for some k <= 6 (a Taylor / stage term vanishes exactly, DESIGN §3.4)"
                return
        s = case["scheme"]
        if s["kind"] == "pc_tdrk" and (s["rk"] in evo.EMBEDDED) != bool(case.get("adaptive")):
            s = dict(s, rk="RKF45" if case.get("adaptive") else "C_RK4")
        if case.get("adaptive") and s["kind"] == "pc_taylor":
            s = dict(s, order=max(s["order"], 4))  # adaptive low-order Taylor needs thousands of (recursive) sub-steps
        tau = case["htau"]
        if s["kind"] in ("tdvp_vmf", "tdvp_mu_vmf"):
            # long imaginary times collapse the state onto the ground state: vanishing singular values make the VMF
            # equations stiff (the documented reason for the regularisation); keep the total tau*||H|| <= 1
            tau = min(tau, 0.5)
            case = dict(case, nstep=min(case["nstep"], 2))
        if case.get("adaptive"):
            tau = min(tau, 1.0)  # the adaptive Taylor propagator recurses once per sub-step
        dims = gen.pdims(spec)
        use_dm = case["dm"] and int(np.prod(dims)) <= 16 and mode == "imag_poly"
        if use_dm:
            mps = MpDm.from_mps(mps)
            r.classes.append("mpdm")
        c0 = mps.coeff
        T0 = chain.tensors_dense(mps)
        r.classes += [f"scheme.{s['kind']}" + (f".{s.get('solver')}" if s.get("solver") else "") + (f".{s.get('rk')}" if s.get("rk") else ""),
                      f"htau={tau}"]
        r.nontrivial = tau >= 0.05
        lossless = CompressConfig(CompressCriteria.fixed, max_bonddim=BIG)
        if mode == "imag_poly" and s["kind"] in ("pc_tdrk4", "pc_tdrk"):
            aa = evo.RK4_A if s["kind"] == "pc_tdrk4" else RungeKutta(s["rk"]).tableau[0]
            if evo.rk_stage_min_norm(aa, -tau * H, T0.reshape(H.shape[0], -1) if use_dm else T0) <= 1e-8 * np.linalg.norm(T0):
                r.rejected = "a Runge-Kutta stage vanishes exactly (DESIGN §3.4)"
                return
        adaptive = bool(case.get("adaptive")) and s["kind"] in ("pc_taylor", "pc_tdrk")
        # adaptive runs start from first guesses that are too small as well as far too large (rejected sub-steps must be retried
        # from the last accepted state)
        g0 = [0.1, 1.0, 5.0, 20.0][case["rng"] % 4] if adaptive else 0.1
        cfg = evo.make_evolve_config(s, adaptive=adaptive, guess_dt=-1j * g0, adaptive_rtol=1e-6)
        before = chain.dense_of(mps)
        nstep = case["nstep"] if mode == "imag" else 1
        cur = mps
        T = T0.astype(complex)
        coeff = c0
        for k in range(nstep):
            cur.evolve_config = cfg.copy()
            cur.compress_config = lossless.copy()
            cur = cur.evolve(mpo, -1j * tau, normalize=case["normalize"])
            # reference
            A = -tau * H
            if mode == "imag" or adaptive or mode == "imag_cmf":
                T = evo.expm_apply(H, T, -tau)
            elif s["kind"] == "pc_taylor":
                T = evo.taylor_apply(A, T, s["order"])
            elif s["kind"] == "pc_tdrk4":
                T = evo.rk4_apply(A, T)
            else:
                a, b, c = RungeKutta(s["rk"]).tableau
                T = evo.stability_poly_apply(a, b[0], A, T)
            if mode == "imag_poly" and not adaptive and np.linalg.norm(T) <= 1e-6 * np.linalg.norm(T0):
                # the stability polynomial has a root exactly on the spectrum of this state (e.g. (1 - tau H) psi with H a projector
                # and tau ||H|| = 1): the propagated vector is zero up to rounding and its direction is undefined
                r.rejected = "the propagation polynomial annihilates the state exactly (DESIGN §3.4)"
                return
            if case["normalize"]:
                T = T / np.linalg.norm(T)
                coeff = coeff / abs(coeff)
        got = chain.dense_of(cur)
        ref = T * coeff
        if not case["normalize"]:
            # the statement is about the *normalised* vector: compare directions (the internal half steps of some schemes
            # normalise their intermediate states, which only changes the norm of an un-normalised result)
            r.check("imag.finite_norm", np.isfinite(np.linalg.norm(got)) and np.linalg.norm(got) > 0, "vanishing / non-finite result")
            got = got / max(np.linalg.norm(got), 1e-300)
            ref = ref / np.linalg.norm(ref)
        nrm = np.linalg.norm(ref)
        # imaginary time amplifies a relative perturbation of an intermediate state by up to exp(tau*(Emax-Emin)) <= exp(2 tau ||H||)
        amp = float(np.exp(2.0 * tau * nstep))
        if mode == "imag":
            tol = 1.5e-5 * 4 * len(dims) * max(1.0, tau) * nstep * nrm * amp
            if s.get("solver") in ("RK45", "RK23"):
                tol = 3e-4 * max(1.0, tau) * nstep * nrm * amp
            if s["kind"] in ("tdvp_vmf", "tdvp_mu_vmf"):
                tol = 2e-7 * max(1.0, tau) * nstep * nrm * amp
            if s["kind"] in ("tdvp_ps", "tdvp_ps2") and not c09_ps_is_exact(mps, s["kind"]):
                # second-order splitting error per step (see C09): O((||H||tau)^3), amplified like any perturbation
                tol = tol + 0.5 * nstep * tau ** 3 * nrm * amp
            r.check_close(f"imag.{s['kind']}", got, ref, tol, f"{s} tau={tau} x{nstep} normalize={case['normalize']}")
        elif mode == "imag_poly":
            if adaptive:
                tol = (2000.0 * 1e-6 * max(1.0, tau) + 5e-5) * nrm
                r.check_close(f"imag_adaptive.{s['kind']}", got, ref, tol, f"{s} adaptive tau={tau}")
                g = cur.evolve_config.guess_dt
                r.check("imag_adaptive.guess_dt", np.real(g) == 0 and np.imag(g) < 0, f"guess_dt after imaginary-time evolution: {g}")
            else:
                r.check_close(f"imag_poly.{s['kind']}", got, ref, 1e-8 * nrm * max(1.0, tau) ** 6, f"{s} tau={tau} vs algebraic replica")
        else:
            p = 1 if s["variant"] == "first" else 2
            bound = (6.0 * tau ** (p + 1) + 5e-3) * nrm
            err = np.linalg.norm(got - ref)
            r.resid(f"imag_cmf.{s['variant']}.err_over_bound", err / bound, 1.0)
            r.check(f"imag_cmf.{s['variant']}", err <= bound, f"{s}: error {err:.3e} > bound {bound:.3e} at tau={tau}")
        if case["normalize"]:
            r.check_close("imag.unit_coeff", abs(cur.coeff), 1.0, 1e-12, "prefactor not of unit modulus after imaginary-time normalisation")
            r.check_close("imag.unit_norm", np.linalg.norm(chain.tensors_dense(cur)), 1.0, 1e-8, "tensor part not normalised")
        if not use_dm:
            r.check("imag.sector", chain.sector_leak(spec, got, q) <= 1e-8, "left the sector")
        r.check_close("imag.input_unchanged", chain.dense_of(mps), before, 1e-10 * max(np.linalg.norm(before), 1e-300) + 1e-14,
                      f"input state after imaginary-time evolve ({s['kind']})")

    # ---------------------------------------------------------------------------------------------------------
    def _thermal_setup(self, case, r):
        from renormalizer.mps import Mpo, MpDm
        from renormalizer.utils import CompressConfig, CompressCriteria

        h = case["holstein"]
        model = build_holstein(h)
        H = np.asarray(Mpo(model).todense())
        space = case["space"]
        if space == "EX":
            mpdm = MpDm.max_entangled_ex(model)
        else:
            mpdm = MpDm.max_entangled_gs(model)
        mpdm.compress_config = CompressConfig(CompressCriteria.fixed, max_bonddim=BIG)
        r.classes += [f"scheme{h['scheme']}", f"space.{space}", f"nmol={len(h['mols'])}"]
        return h, model, H, mpdm

    def _observables(self, model):
        from renormalizer.mps import Mpo
        from renormalizer.model import Op

        e_ops = [np.asarray(Mpo(model, Op(r"a^\dagger a", d)).todense()) for d in model.e_dofs]
        ph_ops = [np.asarray(Mpo(model, Op("n", d)).todense()) for d in model.v_dofs]
        return e_ops, ph_ops

    @staticmethod
    def _avg(rho, O):
        return np.real(np.trace(rho.conj().T @ O @ rho) / np.trace(rho.conj().T @ rho))

    def run_thermal(self, case, r):
        from renormalizer.mps import ThermalProp
        from renormalizer.utils import EvolveConfig, EvolveMethod

        h, model, H, mpdm = self._thermal_setup(case, r)
        hn = np.linalg.norm(H, 2)
        nstep = case["nstep"]
        bstep = case["beta_step"] / max(hn, 1e-12) * 2.0  # tau_step*||H|| = beta_step
        tau = bstep / 2
        rho = np.asarray(mpdm.todense()) * mpdm.coeff
        rho0 = rho.copy()
        order = case["taylor"] or 4
        cfg = EvolveConfig(EvolveMethod.prop_and_compress, taylor_order=order)
        if case["rng"] % 2:
            # the Hamiltonian may be given separately (h_mpo_model): the initial density operator then lives on a model with the
            # same basis but ANOTHER Hamiltonian (different couplings and site energies), which must play no role
            import copy
            h2 = copy.deepcopy(h)
            h2["J"] = h["J"] * 0.3 + 0.01
            for k_, m_ in enumerate(h2["mols"]):
                m_["e"] = m_["e"] + 0.02 * (k_ + 1)
                for p_ in m_["ph"]:
                    p_["d"] = p_["d"] * 0.5 + 0.3
            from renormalizer.mps import MpDm
            from renormalizer.utils import CompressConfig, CompressCriteria
            model2 = build_holstein(h2)
            mpdm2 = MpDm.max_entangled_ex(model2) if case["space"] == "EX" else MpDm.max_entangled_gs(model2)
            mpdm2.compress_config = CompressConfig(CompressCriteria.fixed, max_bonddim=BIG)
            same = np.allclose(np.asarray(mpdm2.todense()) * mpdm2.coeff, rho0, atol=1e-13)
            if same:
                r.classes.append("thermal.separate_hamiltonian_model")
                tp = ThermalProp(mpdm2, h_mpo_model=model, evolve_config=cfg)
            else:
                tp = ThermalProp(mpdm, evolve_config=cfg)
        else:
            tp = ThermalProp(mpdm, evolve_config=cfg)
        tp.evolve(evolve_dt=-1j * tau, nsteps=nstep)
        if case["space"] == "EX":
            # with a projector scheme the job first enlarges the bonds of the initial state (auto_expand): that must leave the
            # represented density operator alone (the admixture is documented as 1e-10)
            from renormalizer.utils import CompressConfig, CompressCriteria
            try:
                m3 = mpdm.copy()
                m3.compress_config = CompressConfig(CompressCriteria.fixed, max_bonddim=24)
                tp3 = ThermalProp(m3, h_mpo_model=model, evolve_config=EvolveConfig(EvolveMethod.tdvp_ps))
                d3 = np.asarray(tp3.latest_mps.todense()) * tp3.latest_mps.coeff
                sc3 = max(np.linalg.norm(rho0), 1e-300)
                dev = np.linalg.norm(d3 / np.linalg.norm(d3) - rho0 / sc3)
                r.resid("thermal.auto_expand_deviation", dev, 1e-7)
                r.check("thermal.auto_expand_keeps_state", dev <= 1e-7,
                        f"initial density operator changed by {dev:.2e} (relative) by the automatic bond expansion of ThermalProp "
                        f"(bond dims {list(mpdm.bond_dims)} -> {list(tp3.latest_mps.bond_dims)})")
                r.classes.append("thermal.auto_expand")
            except Exception as e:  # noqa
                sg, in_lib = lib_exception_sig(e)
                if not in_lib:
                    raise
                r.classes.append("thermal.auto_expand.raised")
        e_ops, ph_ops = self._observables(model)
        # dense replica of the job: Taylor step with the energy re-centred at the last energy, then normalisation
        E = [self._avg(rho, H)]
        eo = [[self._avg(rho, O) for O in e_ops]]
        po = [[self._avg(rho, O) for O in ph_ops]]
        D = H.shape[0]
        for k in range(nstep):
            A = -tau * (H - E[-1] * np.eye(D))
            rho = evo.taylor_apply(A, rho.astype(complex), order)
            rho = rho / np.linalg.norm(rho)
            E.append(self._avg(rho, H))
            eo.append([self._avg(rho, O) for O in e_ops])
            po.append([self._avg(rho, O) for O in ph_ops])
        sc = max(hn, 1.0)
        r.check_close("thermal.energies_vs_replica", np.asarray(tp.energies, dtype=float), np.asarray(E), 1e-8 * sc, "ThermalProp energies vs dense replica")
        r.check_close("thermal.e_occ_vs_replica", np.asarray(tp.e_occupations_array, dtype=float), np.asarray(eo), 1e-8, "electron occupations vs replica")
        r.check_close("thermal.ph_occ_vs_replica", np.asarray(tp.ph_occupations_array, dtype=float), np.asarray(po), 1e-7, "phonon occupations vs replica")
        # Gibbs averages: rho(beta/2) = exp(-beta H/2) rho0; Taylor truncation bounds the deviation
        x = case["beta_step"]
        for k in range(nstep + 1):
            beta = 2 * tau * k
            g = expm_herm(H, -beta / 2) @ rho0
            eg = self._avg(g, H)
            from math import factorial
            # per-step relative truncation error of the order-p Taylor polynomial of exp(-tau(H-E)), ||tau(H-E)|| <= 2x
            tol = (k * 4.0 * (2 * x) ** (order + 1) / factorial(order + 1) * np.exp(2 * x) + 1e-8) * sc
            r.resid("thermal.energy_vs_gibbs", abs(tp.energies[k] - eg) / tol if tol else 0.0, 1.0)
            r.check("thermal.energy_vs_gibbs", abs(tp.energies[k] - eg) <= tol, f"step {k} beta={beta:.4f}: energy {tp.energies[k]} vs Gibbs {eg} tol {tol:.2e}")
            occ_g = np.array([self._avg(g, O) for O in e_ops])
            r.check_close("thermal.e_occ_vs_gibbs", np.asarray(tp.e_occupations_array[k], dtype=float), occ_g, tol / sc + 1e-8, f"step {k}: occupations vs Gibbs")
        r.nontrivial = case["beta_step"] * nstep >= 0.05
        r.check_close("thermal.time_series", [-t.imag if k else 0.0 for k, t in enumerate(tp.evolve_times)], [tau * k for k in range(nstep + 1)], 1e-12, "evolve_times")

    def run_thermal_tree(self, case, r):
        """purification on a tree with auxiliary space: max_entangled_ex(tree.add_auxiliary_space()) propagated in imaginary time
        with a TTNO that acts on the physical half only -> canonical (one-exciton) ensemble averages"""
        from renormalizer.mps import Mpo
        from renormalizer.tn import BasisTree, TTNO, TreeNodeBasis
        from renormalizer.tn.utils_eph import max_entangled_ex
        from renormalizer.utils import EvolveConfig, EvolveMethod, CompressConfig, CompressCriteria
        from renormalizer.model import Op

        h = dict(case["holstein"], scheme=draw_scheme(case))
        model = build_holstein(h)
        H = np.asarray(Mpo(model).todense())
        bl = list(model.basis)
        if case["tree_ctor"] == "linear" or len(bl) < 3:
            tree = BasisTree.linear(bl)
        elif case["tree_ctor"] == "binary":
            tree = BasisTree.binary(bl)
        else:
            nodes = [TreeNodeBasis([b]) for b in bl]
            for i in range(1, len(nodes)):
                nodes[case["tree_parent"][i % 8] % i].add_child(nodes[i])
            tree = BasisTree(nodes[0])
        aux = tree.add_auxiliary_space()
        psi = max_entangled_ex(aux)
        ttno = TTNO(aux, model.ham_terms)
        hn = np.linalg.norm(H, 2)
        nstep = case["nstep"]
        tau = case["beta_step"] / max(hn, 1e-12)
        # dense replica on the physical density operator: rho0 = equal weights on all one-exciton basis states
        nexc = np.asarray(sum(np.asarray(Mpo(model, Op(r"a^\dagger a", d)).todense()) for d in model.e_dofs))
        one = np.isclose(np.diag(nexc), 1.0)
        rho = np.diag(one.astype(float))
        rho = rho / np.linalg.norm(rho)
        e_ops = [np.asarray(Mpo(model, Op(r"a^\dagger a", d)).todense()) for d in model.e_dofs]
        e_ttnos = [TTNO(aux, Op(r"a^\dagger a", d)) for d in model.e_dofs]
        psi.evolve_config = EvolveConfig(EvolveMethod.prop_and_compress_tdrk4)
        psi.compress_config = CompressConfig(CompressCriteria.fixed, max_bonddim=BIG)
        E = [self._avg(rho, H)]
        got_E = [psi.expectation(ttno) / psi.ttns_norm ** 2]
        sc = max(hn, 1.0)
        r.check_close("thermal_tree.initial_energy", got_E[0], E[0], 1e-9 * sc, "energy of the maximally entangled one-exciton tree state")
        cur = psi
        D = H.shape[0]
        for k in range(nstep):
            cur.evolve_config = EvolveConfig(EvolveMethod.prop_and_compress_tdrk4)
            cur.compress_config = CompressConfig(CompressCriteria.fixed, max_bonddim=BIG)
            cur = cur.evolve(ttno, -1j * tau)
            rho = evo.taylor_apply(-tau * H, rho.astype(complex), 4)
            rho = rho / np.linalg.norm(rho)
            E.append(self._avg(rho, H))
            got_E.append(cur.expectation(ttno) / cur.ttns_norm ** 2)
        r.check_close("thermal_tree.energies_vs_replica", np.asarray(got_E, dtype=float), np.asarray(E), 1e-8 * sc, "tree purification energies vs dense Taylor-4 replica")
        occ = np.array([cur.expectation(o) / cur.ttns_norm ** 2 for o in e_ttnos], dtype=float)
        r.check_close("thermal_tree.occupations_vs_replica", occ, np.array([self._avg(rho, O) for O in e_ops]), 1e-8, "electronic occupations vs replica")
        beta = 2 * tau * nstep
        g = expm_herm(H, -beta / 2) @ np.diag(one.astype(float))
        from math import factorial
        x = case["beta_step"]
        tol = (nstep * 4.0 * x ** 5 / factorial(5) * np.exp(x) + 1e-8) * sc
        r.check("thermal_tree.energy_vs_gibbs", abs(got_E[-1] - self._avg(g, H)) <= tol, f"beta={beta:.4f}: {got_E[-1]} vs Gibbs {self._avg(g, H)} tol {tol:.2e}")
        r.check_close("thermal_tree.unit_norm", cur.ttns_norm, 1.0, 1e-8, "normalised after imaginary-time step")
        r.classes += [f"tree.{case['tree_ctor']}", f"nmol={len(h['mols'])}"]
        r.nontrivial = case["beta_step"] * nstep >= 0.05 and len(bl) >= 3

    def run_thermal_exact(self, case, r):
        from renormalizer.mps import ThermalProp, Mpo

        h, model, H, mpdm = self._thermal_setup(case, r)
        space = case["space"]
        hl = dense_local_sum(local_h(model, h, space))
        hn = max(np.linalg.norm(hl, 2), 1e-12)
        nstep = case["nstep"]
        tau = case["beta_step"] / hn
        if case["rng"] % 2:
            # an initial density operator that does not commute with the propagator (pure state in density-operator form): tells
            # P rho from rho P, which coincide for the maximally entangled start
            from renormalizer.mps import Mps, MpDm
            from renormalizer.utils import CompressConfig, CompressCriteria
            try:
                np.random.seed(case["rng"])
                psi = Mps.random(model, 1 if space == "EX" else 0, 3, percent=1.0)
                cand = MpDm.from_mps(psi)
                d_ = np.asarray(cand.todense())
                if np.all(np.isfinite(d_)) and np.linalg.norm(d_) > 1e-8:
                    cand.compress_config = CompressConfig(CompressCriteria.fixed, max_bonddim=BIG)
                    mpdm = cand
                    r.classes.append("thermal_exact.pure_state_start")
            except (FloatingPointError, ZeroDivisionError, ValueError, AssertionError, IndexError):
                pass
        rho0 = np.asarray(mpdm.todense()) * mpdm.coeff
        tp = ThermalProp(mpdm, exact=True, space=space)
        tp.evolve(evolve_dt=-1j * tau, nsteps=nstep)
        got = chain.dense_of(tp.latest_mps)
        ref = expm_herm(hl, -tau * nstep) @ rho0
        ref = ref / np.linalg.norm(ref)
        r.check_close("thermal_exact.state", got, ref * np.sign(np.real(tp.latest_mps.coeff)) if False else ref, 1e-9, f"exact thermal state ({space}) vs dense Gibbs operator of h_loc")
        E = []
        for k in range(nstep + 1):
            g = expm_herm(hl, -tau * k) @ rho0
            E.append(self._avg(g, H))
        r.check_close("thermal_exact.energies", np.asarray(tp.energies, dtype=float), np.asarray(E), 1e-9 * max(np.linalg.norm(H, 2), 1.0), "energies along exact thermal propagation")
        r.nontrivial = case["beta_step"] * nstep >= 0.05

    def run_propagator(self, case, r):
        from renormalizer.mps import Mpo

        h = case["holstein"]
        model = build_holstein(h)
        space = case["space"]
        x = complex(*case["x"])
        # a real value is passed as float or as a complex-typed number with zero imaginary part (as -1j*(-1j*tau) is)
        xa = x if (x.imag != 0 or case["rng"] % 2) else x.real
        shift = case["shift"]
        mats = local_h(model, h, space)
        prop = Mpo.exact_propagator(model, xa, space, shift)
        got = np.asarray(prop.todense()) * getattr(prop, "coeff", 1)
        hl = dense_local_sum(mats)
        D = hl.shape[0]
        ref = expm_herm(hl + shift * np.eye(D), x)
        sc = np.linalg.norm(ref, 2)
        r.check_close(f"propagator.{space}", got, ref, 1e-10 * sc, f"exact_propagator(x={xa}, space={space}, shift={shift}) vs dense expm of h_loc+shift")
        r.check("propagator.bond_dims", all(b == 1 for b in prop.bond_dims), f"bond dims {prop.bond_dims}")
        r.check("propagator.dtype", bool(prop.is_complex) == bool(x.imag != 0), f"complex dtype {prop.is_complex} for x={xa!r}")
        r.classes += [f"space.{space}", f"scheme{h['scheme']}", "x.complex" if x.imag != 0 and x.real != 0 else ("x.imag" if x.imag != 0 else "x.real")]
        r.nontrivial = abs(x) * max(np.linalg.norm(hl, 2), 1e-12) >= 0.05

    def run_evolve_exact(self, case, r):
        from renormalizer.mps import Mpo, Mps, MpDm
        from renormalizer.utils import Quantity

        h = case["holstein"]
        model = build_holstein(h)
        space = case["space"]
        nexc = 1 if space == "EX" else 0
        np.random.seed(case["rng"])
        try:
            mps = Mps.random(model, nexc, case["m0"], percent=1.0)
            if not np.all(np.isfinite(mps.todense())):
                raise FloatingPointError
        except (FloatingPointError, ZeroDivisionError, ValueError, AssertionError, IndexError):
            r.rejected = "Mps.random cannot reach the sector"
            return
        mps.coeff = complex(*case["coeff"]) if case["coeff"][1] else case["coeff"][0]
        use_dm = case["dm"] and int(np.prod(model.pbond_list)) <= 64
        if use_dm:
            mps = MpDm.from_mps(mps)
            r.classes.append("mpdm")
        hl = dense_local_sum(local_h(model, h, space))
        dt = case["dt"]
        psi0 = chain.dense_of(mps)
        U = expm_herm(hl, -1j * dt)
        ref = (psi0 @ U) if use_dm else (U @ psi0)  # MpDm.evolve_exact applies the propagator from the right (documented in the code)
        outs = []
        for off in (case["offset"], case["offset2"]):
            hm = Mpo(model, offset=Quantity(off))
            before = chain.dense_of(mps)
            c_before = mps.coeff
            new = mps.evolve_exact(hm, dt, space)
            outs.append(chain.dense_of(new))
            r.check_close("evolve_exact.result", outs[-1], ref, 1e-9 * np.linalg.norm(ref), f"evolve_exact(offset={off}, dt={dt}, {space}) vs exp(-i h_loc dt)")
            r.check_close("evolve_exact.input_unchanged", chain.dense_of(mps), before, 1e-12 * max(np.linalg.norm(before), 1e-300),
                          f"input changed by evolve_exact (offset={off})")
            r.check("evolve_exact.input_coeff", mps.coeff == c_before, f"input prefactor {c_before} -> {mps.coeff}")
            r.check("evolve_exact.new_object", new is not mps, "returned the input object")
        r.check_close("evolve_exact.offset_invariance", outs[0], outs[1], 1e-9 * np.linalg.norm(ref), "results for two offsets differ")
        r.classes += [f"space.{space}", f"scheme{h['scheme']}"]
        r.nontrivial = (case["offset"] != 0 or case["offset2"] != 0)

    def sample_view(self, case):
        return {k: v for k, v in case.items() if k not in ("terms", "model")} | (
            {"sites": [s["k"] for s in case["model"]["sites"]], "n_terms": len(case["terms"])} if "model" in case else {})


PROP = C10()

"""C13, tree half — TTNS / TTNO histories with the all-live-objects invariant.

Every register of the tree interpreter (vf/tree.py) carries the dense model of the object it holds; the interpreter updates the
model only for the documented in-place target of an instruction.  After EVERY instruction the represented object of EVERY live
register (states: independent contraction of the raw node tensors times the prefactor; operators: dense matrix) is compared with
its model, so an instruction that disturbs any other object (shared node arrays, a prefactor written to the wrong object, an
operator canonicalised in place by contract, ...) is reported with the name of the instruction that did it."""
import numpy as np
from hypothesis import strategies as st

from vf.core import lib_exception_sig
from vf import tree as T

TMUT = ["tensor_inplace", "tensor_assign", "coeff", "normalize", "scale_inplace", "to_complex_inplace", "canonicalise", "compress", "qn_inplace"]
TKINDS = ["tdvp_ps", "tdvp_ps2", "tdvp_vmf", "prop_and_compress_tdrk4"]


@st.composite
def tree_cases(draw, tier):
    ts = draw(T.tree_specs(2, 5, kinds=T.STATE_KINDS, max_dim=64, small_sho=True, allow_single=False))
    m = ts["model"]
    prog = []
    qsel = draw(st.integers(0, 50))
    for _ in range(draw(st.integers(2, 3))):
        ins = draw(T.create_instr())
        if ins["op"] == "random" and draw(st.integers(0, 3)) > 0:
            ins["q"] = qsel
        prog.append(ins)
    for _ in range(draw(st.integers(1, 2))):
        prog.append(draw(T.ttno_instr(m)))
    prog.append({"op": "ham", "terms": draw(T.gen.hermitian_hamiltonian(m, max_terms=3, real_only=True))})
    for _ in range(draw(st.integers(5, 14 if tier == "quick" else 24))):
        k = draw(st.integers(0, 11))
        if k <= 3:
            ins = draw(T.arith_instr())
            prog.append(ins)
            if draw(st.booleans()):
                # derive, then mutate one side at once: the newest register (-1) or the operand
                prog.append({"op": "tmutate", "a": draw(st.sampled_from([-1, -1, ins.get("a", 0)])),
                             "what": draw(st.sampled_from(["tensor_inplace", "tensor_inplace", "scale_inplace", "canonicalise", "qn_inplace", "normalize"])),
                             "node": draw(st.integers(0, 8)), "val": draw(st.sampled_from(T.SCALARS)), "kind": draw(st.integers(0, 2))})
        elif k <= 5:
            prog.append({"op": "tmutate", "a": draw(st.integers(0, 20)), "what": draw(st.sampled_from(TMUT)), "node": draw(st.integers(0, 8)),
                         "val": draw(st.sampled_from(T.SCALARS)), "kind": draw(st.integers(0, 2))})
        elif k <= 7:
            prog.append(draw(T.observe_instr()))
        elif k == 8:
            prog.append(draw(T.gauge_instr()))
        elif k == 9:
            prog.append({"op": "tevolve", "a": draw(st.integers(0, 20)), "kind": draw(st.sampled_from(TKINDS)), "imag": draw(st.integers(0, 3)) == 0,
                         "dt": draw(st.sampled_from([0.05, 0.2])), "normalize": draw(st.booleans())})
        elif k == 10:
            prog.append(draw(T.trunc_instr()))
        elif draw(st.integers(0, 2)) == 0:
            prog.append({"op": "from_mps13", "q": draw(st.integers(0, 50)), "rng": draw(st.integers(0, 10 ** 6)), "m": draw(st.sampled_from([1, 2, 4])),
                         "cplx": draw(st.booleans()), "gauge": draw(st.integers(0, 2)), "side": draw(st.integers(0, 1)), "how": draw(st.integers(0, 2))})
        elif draw(st.booleans()):
            prog.append(draw(T.twin_instr()))
        else:
            # aliasing probe: make the operand complex (or not), derive with an operation that could return its input or share
            # its buffers (copy / to_complex of an already complex state / scale by exactly one / add), mutate one side at once
            a = draw(st.integers(0, 20))
            if draw(st.booleans()):
                prog.append({"op": "to_complex", "a": a, "inplace": True})
            prog.append(draw(st.sampled_from([{"op": "to_complex", "a": a, "inplace": False}, {"op": "copy", "a": a},
                                              {"op": "scale", "a": a, "val": [1.0, 0.0], "inplace": False},
                                              {"op": "scale", "a": a, "val": [-1.0, 0.0], "inplace": False}])))
            prog.append({"op": "tmutate", "a": draw(st.sampled_from([-1, a])),
                         "what": draw(st.sampled_from(["tensor_inplace", "scale_inplace", "normalize", "canonicalise", "coeff"])),
                         "node": draw(st.integers(0, 8)), "val": draw(st.sampled_from(T.SCALARS)), "kind": draw(st.integers(0, 2))})
    return {"kind": "tree", "tree": ts, "prog": prog}


class TInterp13(T.TInterp):
    def __init__(self, *a, **k):
        super().__init__(*a, **k)
        self.ham = None
        self.max_regs = 8

    # ---- the invariant --------------------------------------------------------------------------------------------
    def represented(self, reg):
        if reg.kind == "S":
            return np.asarray(T.contract_raw(reg.ctx if reg.ctx is not None else self.sctx, reg.obj)).reshape(-1) * reg.obj.coeff
        return np.asarray(T.ttno_dense(reg.ctx, reg.obj))

    def check_all(self, opname, old_ids=None):
        for regs in (self.S, self.O):
            for reg in list(regs):
                if old_ids is not None and id(reg) not in old_ids:
                    # created by this instruction: whether the RESULT is right is C11's subject (e.g. TTNS.add ignores prefactors by
                    # design); from now on the register must keep representing what it represents now
                    try:
                        reg.model = np.array(self.represented(reg))
                        if reg.kind == "O" and reg.partial:
                            reg.model = T.embed_partial(self.sctx, reg.model)
                    except Exception as e:  # noqa
                        s, in_lib = lib_exception_sig(e)
                        if not in_lib:
                            raise
                        regs.remove(reg)
                    continue
                try:
                    got = self.represented(reg)
                except Exception as e:  # noqa
                    s, in_lib = lib_exception_sig(e)
                    if not in_lib:
                        raise
                    self.r.fail(f"tree.unreadable.after.{opname}.{s}", f"{e!r} trace={self.trace[-6:]}")
                    regs.remove(reg)
                    continue
                model = reg.model
                if reg.kind == "O" and reg.partial:
                    got = T.embed_partial(self.sctx, got)
                sc = max(np.linalg.norm(model), 1e-300)
                ok = self.r.check_close(f"tree.disturbed.by.{opname}", got.reshape(model.shape), model, 1e-10 * sc + 1e-13,
                                        f"{'TTNS' if reg.kind == 'S' else 'TTNO'} register ({reg.tag}) no longer represents its object after "
                                        f"'{opname}' trace={self.trace[-6:]}")
                if not ok:
                    regs.remove(reg)
                    continue
                if reg.kind == "S":
                    # the bond labels belong to the object as well: they must stay valid for its own tensors
                    try:
                        lv, where = T.label_violation(reg.ctx if reg.ctx is not None else self.sctx, reg.obj)
                    except Exception as e:  # noqa
                        s, in_lib = lib_exception_sig(e)
                        if not in_lib:
                            raise
                        lv, where = 1.0, repr(e)
                    if not self.r.check(f"tree.labels_disturbed.by.{opname}", lv <= 1e-10,
                                        f"stored labels of a live TTNS ({reg.tag}) no longer fit its tensors ({lv:.2e} at {where}) after "
                                        f"'{opname}' trace={self.trace[-6:]}"):
                        regs.remove(reg)

    def check_sharing(self, opname):
        """no two live states hold the same array object (tensor or labels) or overlapping memory"""
        objs = [(reg, list(reg.obj.node_list)) for reg in self.S]
        for i in range(len(objs)):
            for j in range(i + 1, len(objs)):
                if objs[i][0].obj is objs[j][0].obj:
                    continue
                for n1, n2 in zip(objs[i][1], objs[j][1]):
                    if np.shares_memory(n1.tensor, n2.tensor) or (isinstance(n1.qn, np.ndarray) and isinstance(n2.qn, np.ndarray)
                                                                    and n1.qn.size and np.shares_memory(n1.qn, n2.qn)):
                        what = "tensor" if np.shares_memory(n1.tensor, n2.tensor) else "label"
                        self.r.fail(f"tree.shared_arrays.{what}.after.{opname}",
                                    f"two live TTNS ({objs[i][0].tag}, {objs[j][0].tag}) share a node {what} array after '{opname}' "
                                    f"trace={self.trace[-6:]}")
                        return

    def run(self, prog):
        for ins in prog:
            name = ins.get("op") + ("." + str(ins.get("what")) if ins.get("op") == "tmutate" else "")
            self.trace.append(name)
            old_ids = {id(reg) for reg in self.S + self.O}
            getattr(self, "i_" + ins["op"])(ins)
            self.check_all(name, old_ids)
            self.check_sharing(name)
            if len(self.r.failures) >= self.max_fail:
                break

    # ---- extra instructions --------------------------------------------------------------------------------------
    def i_ham(self, ins):
        from renormalizer.tn import TTNO

        terms = ins.get("terms") or []
        if not terms:
            return
        ref, scale = T.ref_operator(self.mspec, terms, self.ctx.bl)
        nrm = np.linalg.norm(ref, 2)
        if nrm <= 1e-12 * scale:
            return
        terms = [{"f": [t["f"][0] / nrm, t["f"][1] / nrm], "ops": t["ops"]} for t in terms]
        if T.ambiguous_join(self.ctx, terms):
            return
        ok, o = self.guard("create.ham", lambda: TTNO(self.ctx.tree, T.build_ops(self.mspec, terms)))
        if not ok:
            return
        reg = T.Reg(o, np.asarray(T.ttno_dense(self.ctx, o)), self.zero_q, "O", "ham", self.ctx)
        reg.terms = terms
        self.O.append(reg)
        self.ham = reg

    def i_from_mps13(self, ins):
        """chain -> tree conversion, then in-place changes on one side: the other side must not move (self-contained)"""
        from renormalizer.model import Model
        from renormalizer.mps import Mps
        from renormalizer.tn.tree import from_mps

        c = self.ctx
        if self.aux or c.n < 2 or self.ham is None or not self.ham.terms:
            return
        model = Model(list(c.bl), T.build_ops(self.mspec, self.ham.terms))  # from_mps also converts the model's Hamiltonian
        secs = c.sectors()
        q = secs[ins["q"] % len(secs)]
        np.random.seed(ins["rng"])
        try:
            mps = Mps.random(model, self.qarg(q), ins["m"], percent=1.0)
            d = np.asarray(mps.todense())
            if not np.all(np.isfinite(d)) or np.linalg.norm(d) == 0:
                raise FloatingPointError
            if ins.get("cplx"):
                mps = mps.to_complex().scale(np.exp(0.4j))
            g = ins.get("gauge", 0)
            if g == 1:
                mps.ensure_right_canonical()
            elif g == 2:
                mps.ensure_left_canonical()
            basis, ttns, ttno = from_mps(mps)
        except (FloatingPointError, ZeroDivisionError, ValueError, AssertionError, IndexError):
            self.r.classes.append("from_mps13.rejected")
            return
        lctx = T.TreeCtx(self.mspec, c.bl, basis)
        d_chain = np.asarray(mps.todense()).reshape(-1) * mps.coeff
        d_tree = np.asarray(T.contract_raw(lctx, ttns)).reshape(-1) * ttns.coeff
        sc = max(np.linalg.norm(d_chain), 1e-300)
        self.r.classes.append("from_mps13")
        self.r.info["derived"] = self.r.info.get("derived", 0) + 1
        v = 2.5
        try:
            if ins["side"] == 0:
                # change the tree in place
                if ins["how"] == 0:
                    ttns.scale(v, inplace=True)
                elif ins["how"] == 1:
                    ttns.normalize("mps_and_coeff")
                else:
                    ttns.root.tensor *= v
                after = np.asarray(mps.todense()).reshape(-1) * mps.coeff
                self.r.check_close("tree.from_mps.chain_disturbed_by_tree", after, d_chain, 1e-11 * sc,
                                   f"the chain state changed when the tree state derived from it was modified in place (how={ins['how']}, gauge={ins.get('gauge')})")
            else:
                if ins["how"] == 0:
                    mps.scale(v, inplace=True)
                elif ins["how"] == 1:
                    mps.normalize("mps_and_coeff")
                else:
                    mps[len(mps) - 1].array[...] *= v
                after = np.asarray(T.contract_raw(lctx, ttns)).reshape(-1) * ttns.coeff
                self.r.check_close("tree.from_mps.tree_disturbed_by_chain", after, d_tree, 1e-11 * sc,
                                   f"the tree state changed when the chain state it was derived from was modified in place (how={ins['how']}, gauge={ins.get('gauge')})")
            self.r.info["mutations"] = self.r.info.get("mutations", 0) + 1
        except Exception as e:  # noqa
            sg, in_lib = lib_exception_sig(e)
            if not in_lib:
                raise
            self.r.classes.append("from_mps13.mutation_raised")

    def i_tmutate(self, ins):
        """documented in-place operations on ONE register; its model is recomputed from the raw tensors afterwards"""
        reg = self.pick(self.S, ins["a"])
        if reg is None:
            return
        x = reg.obj
        what = ins["what"]
        nodes = list(x.node_list)
        nd = nodes[ins["node"] % len(nodes)]
        v = complex(*ins["val"])
        if v.imag == 0:
            v = v.real
        try:
            if what == "tensor_inplace":
                if abs(v.imag if isinstance(v, complex) else 0) > 0 and not np.iscomplexobj(nd.tensor):
                    v = abs(v)
                nd.tensor *= v  # writes into the array held by this node: any object sharing it is disturbed
            elif what == "tensor_assign":
                nd.tensor = nd.tensor * (abs(v) + 0.5)
            elif what == "coeff":
                x.coeff = x.coeff * v
            elif what == "normalize":
                kind = ["mps_only", "mps_norm_to_coeff", "mps_and_coeff"][ins["kind"] % 3]
                nrm = np.linalg.norm(reg.model)
                if not nrm > 1e-8:
                    return
                x.normalize(kind)
            elif what == "scale_inplace":
                if not 1e-4 < np.linalg.norm(reg.model) * abs(v) < 1e4:
                    return
                x.scale(v, inplace=True)
            elif what == "to_complex_inplace":
                x.to_complex(inplace=True)
            elif what == "canonicalise":
                x.canonicalise()
            elif what == "compress":
                x.canonicalise()
                x.compress(temp_m_trunc=1 + ins["kind"])
            elif what == "qn_inplace":
                # the label arrays are per object too: rewrite them in place with their own values shifted and restored
                q0 = np.array(nd.qn, copy=True)
                nd.qn += 1
                nd.qn -= 1
                assert np.array_equal(nd.qn, q0)
                nd.qn = nd.qn.copy()
        except Exception as e:  # noqa
            s, in_lib = lib_exception_sig(e)
            if not in_lib:
                raise
            # failures of the operations themselves are C11's subject; the register is dropped, the others must still be intact
            self.r.classes.append(f"tmutate.{what}.raised")
            self.S.remove(reg)
            return
        self.r.classes.append(f"tmutate.{what}")
        self.r.info["mutations"] = self.r.info.get("mutations", 0) + 1
        new_model = np.asarray(T.contract_raw(self.sctx, x)).reshape(-1) * x.coeff
        if not np.all(np.isfinite(new_model)):
            self.S.remove(reg)
            return
        reg.model = new_model

    def i_tevolve(self, ins):
        from renormalizer.utils import EvolveConfig, EvolveMethod, CompressConfig, CompressCriteria

        reg = self.pick(self.S, ins["a"])
        if reg is None or self.ham is None or self.aux or len(self.S) >= self.max_regs:
            return
        x = reg.obj
        if not np.linalg.norm(reg.model) > 1e-8:
            return
        kind = ins["kind"]
        x.evolve_config = EvolveConfig(getattr(EvolveMethod, kind), ivp_rtol=1e-7, ivp_atol=1e-9, force_ovlp=False)
        x.compress_config = CompressConfig(CompressCriteria.fixed, max_bonddim=16)
        tau = -1j * ins["dt"] if ins["imag"] else ins["dt"]
        if kind == "tdvp_vmf":
            # the variational equations of motion are stiff for redundant or nearly singular bonds (C12 starts VMF from verified
            # bonds): bring the register itself to a non-redundant form (same represented state) and skip nearly singular ones
            try:
                x.canonicalise()
                _, s_arr = x.compress(temp_m_trunc=T.BIG, ret_s=True)
            except Exception as e:  # noqa
                sg, in_lib = lib_exception_sig(e)
                if not in_lib:
                    raise
                self.S.remove(reg)
                return
            sv = np.asarray(s_arr, dtype=float)[1:]
            rows = [row[row > 0] for row in sv]
            if any(len(row) and row.min() < 1e-4 * row.max() for row in rows):
                self.r.classes.append("tevolve.vmf.singular_bonds_skipped")
                return
            for nd_, row in zip(list(x.node_list)[1:], rows):
                if nd_.tensor.shape[-1] != len(row):
                    self.r.classes.append("tevolve.vmf.redundant_bonds_skipped")
                    return
        before = self.represented(reg)
        try:
            y = x.evolve(self.ham.obj, tau, normalize=bool(ins["normalize"]))
        except Exception as e:  # noqa
            s, in_lib = lib_exception_sig(e)
            if not in_lib:
                raise
            self.r.classes.append(f"tevolve.{kind}.raised")  # correctness / applicability of the schemes: C12
            after = self.represented(reg)
            if np.linalg.norm(after - before) > 1e-10 * max(np.linalg.norm(before), 1e-300):
                self.S.remove(reg)  # a failed in-place sweep leaves a half-evolved object: not a live register any more
            return
        self.r.classes.append(f"tevolve.{kind}.{'imag' if ins['imag'] else 'real'}")
        self.r.info["derived"] = self.r.info.get("derived", 0) + 1
        if ins["imag"]:
            after = self.represented(reg)
            sc = max(np.linalg.norm(before), 1e-300)
            if y is x or np.linalg.norm(after - before) > 1e-10 * sc:
                # finding F4 (imaginary-time TTNS.evolve works on its input): own signature, the register follows the object
                self.r.fail(f"tree.input_evolved_in_place.imag.{kind}", f"TTNS.evolve(imaginary time, {kind}) changed its input "
                            f"(returned object is input: {y is x}) trace={self.trace[-6:]}")
                reg.model = after
                if y is x:
                    return
        d = np.asarray(T.contract_raw(self.sctx, y)).reshape(-1) * y.coeff
        if not np.all(np.isfinite(d)) or not np.linalg.norm(d) > 1e-8:
            return
        new = T.Reg(y, d, reg.q, "S", f"evolve.{kind}", self.sctx)
        self.S.append(new)


def f4_matcher(spec, sig, msg):
    return spec.get("kind") == "tree" and sig.startswith("tree.input_evolved_in_place.imag.") and \
        any(i.get("op") == "tevolve" and i.get("imag") for i in spec.get("prog", []))


def run_tree_case(case, r):
    it = TInterp13(case["tree"], r, None)
    it.run(case["prog"])
    # the interpreter's own result checks (C11's subject; several assume a unit prefactor and untouched tensors) are not part of
    # this property: only the all-live-objects invariant counts here. It subsumes the interpreter's operand comparisons.
    r.failures = [(s, m) for s, m in r.failures if s.startswith("tree.")]
    derived = r.info.get("derived", 0) + sum(c.startswith("arith.") for c in r.classes)
    r.nontrivial = it.ctx.nontrivial() and derived >= 1 and r.info.get("mutations", 0) >= 1
    r.classes = sorted(set(r.classes) | {"tree", "ctor=" + case["tree"]["topo"].get("ctor", "random")})
    r.info = {}
    return r

"""C16 — built-in basis sets and model builders realise their documented physics.

Part (a): every basis class x every supported symbol, for generated sizes / frequencies / origins / grids, compared
with reference matrices computed by the harness from the defining relations (vf/c16_util.py).
Part (b): HolsteinModel / SpinBosonModel / TI1DModel dense Hamiltonians (Mpo(model).todense()) compared with a
Hamiltonian assembled independently from the physics; Quantity / Phonon / Mol arithmetic.
"""
import itertools
import math

import numpy as np
from hypothesis import strategies as st

from vf.core import Prop, Result, lib_exception_sig
from vf import c16_util as U
from vf.c16_models import MODEL_KINDS, model_strategy, run_model, model_finite_cases, model_view, MODEL_MATCHERS

# ------------------------------------------------------------------------------------------------
# symbol menus
# ------------------------------------------------------------------------------------------------
SHO_LADDER = ["b", r"b^\dagger", "b b", r"b^\dagger b^\dagger", r"b^\dagger b", r"b b^\dagger", r"b^\dagger + b",
              r"b^\dagger+b", r"b^\dagger-b", "n", "I"]
SHO_XP = (["x", "x^1"] + [f"x^{k}" for k in range(2, 7)] + ["p", "p^1"] + [f"p^{k}" for k in range(2, 7)] +
          ["x x", "x x x", "x x x x", "x x x x x", "p p", "p p p", "p p p p", "dx", "dx^2", "dx dx", "partialx",
           "partialx^2"])
SHO_F6 = ["x p", "p x", "x dx", "dx x"]  # pre-identified suspect F6
F6_TAG = {"x p": "x_p", "p x": "p_x", "x dx": "x_dx", "dx x": "dx_x"}
F6_SIGS = {f"sho.order.{t}.{v}" for t in F6_TAG.values() for v in ("plain", "x0", "dvr")} | {"sho.order.commutator_symbols"}

OMEGAS = [0.1, 0.37, 1.0, 2.3, 0.004556]  # the last one: 1000 cm^-1 in a.u.
X0S = [0.0, 0.0, 0.7, -1.3, 10.0]


def _dofname(style):
    return [0, "v_1", ("m", 2), None][style % 4]


@st.composite
def basis_cases(draw, tier):
    kind = draw(st.sampled_from(["sho", "sho", "sho", "sine", "sine", "spin", "multi", "mvac", "hops", "elec"]))
    nmax = 8 if tier == "quick" else 10
    fac = draw(st.sampled_from([[1.0, 0.0], [1.0, 0.0], [-2.5, 0.0], [0.3, -0.4], [0.0, 1.0]]))
    spec = {"kind": kind, "factor": fac, "use_op": draw(st.booleans()), "name": draw(st.integers(0, 3))}
    if kind == "sho":
        om = draw(st.sampled_from(OMEGAS)) if draw(st.booleans()) else round(draw(st.floats(0.05, 5.0)), 4)
        x0 = draw(st.sampled_from(X0S)) if draw(st.booleans()) else round(draw(st.floats(-3.0, 3.0)), 3)
        spec.update(nbas=draw(st.sampled_from(list(range(1, nmax + 1)))), omega=om, x0=x0, dvr=draw(st.booleans()),
                    general=draw(st.booleans()))
    elif kind == "sine":
        xi = draw(st.sampled_from([0.0, 1.0, -1.5])) if draw(st.booleans()) else round(draw(st.floats(-4.0, 4.0)), 3)
        L = draw(st.sampled_from([1.0, 6.0, 3.14159])) if draw(st.booleans()) else round(draw(st.floats(0.3, 8.0)), 3)
        endpoint = draw(st.booleans())
        spec.update(nbas=draw(st.sampled_from(list(range(2 if endpoint else 1, nmax + 1)))), xi=xi, xf=round(xi + L, 6), endpoint=endpoint,
                    dvr=draw(st.integers(0, 3)) == 0)
    elif kind == "spin":
        nw = draw(st.sampled_from([1, 2, 2, 3, 4, 5]))
        spec.update(words=[draw(st.sampled_from(U.SPIN_NAMES)) for _ in range(nw)],
                    qn=draw(st.sampled_from([None, [0, 0], [1, -1], [[0, 1], [1, 0]]])))
    elif kind in ("multi", "mvac"):
        n = draw(st.sampled_from([1, 2, 3, 4, 5, 6]))
        spec.update(n=n, style=draw(st.integers(0, 2)), qn=[draw(st.integers(0, 1)) for _ in range(n)])
    elif kind == "hops":
        spec.update(nbas=draw(st.sampled_from(list(range(1, nmax + 1)))))
    return spec


def _finite_basis_cases(tier):
    out = []
    for n in range(1, 9):
        for dvr in (False, True):
            for general in (False, True):
                out.append({"kind": "sho", "factor": [1.0, 0.0], "use_op": False, "name": 3, "nbas": n, "omega": 0.1,
                            "x0": 10.0 if (n + dvr) % 2 else 0.0, "dvr": dvr, "general": general})
    for n in range(1, 9):
        for endpoint in (False, True):
            if endpoint and n < 2:
                continue
            out.append({"kind": "sine", "factor": [1.0, 0.0], "use_op": False, "name": 3, "nbas": n, "xi": 1.0, "xf": 7.0,
                        "endpoint": endpoint, "dvr": n % 3 == 0})
    out.append({"kind": "spin_all"})
    out.append({"kind": "elec", "factor": [1.0, 0.0], "use_op": False, "name": 0})
    out.append({"kind": "dummy"})
    for n in range(1, 5):
        out.append({"kind": "hops", "factor": [1.0, 0.0], "use_op": False, "name": 3, "nbas": n})
        for k in ("multi", "mvac"):
            out.append({"kind": k, "factor": [1.0, 0.0], "use_op": True, "name": 0, "n": n, "style": n % 3, "qn": [1] * n})
    return out


# ------------------------------------------------------------------------------------------------


def _call(r, sig, fn):
    """library call; an exception from library frames becomes a failure"""
    try:
        return fn(), True
    except Exception as e:  # noqa
        s, in_lib = lib_exception_sig(e)
        if not in_lib:
            raise
        r.fail(f"{sig}.{s}", repr(e))
        return None, False


def _f54_ti1d(spec, sig):
    """string-grammar ambiguity (F54) reached through TI1DModel: a term that writes b^\dagger, the spin symbol '+', and a symbol
    starting with 'b' in this order"""
    if spec.get("kind") != "ti1d" or sig != "ti1d.construct.exc.AssertionError@op.py:__init__":
        return False
    for t in list(spec.get("local", [])) + list(spec.get("nonlocal", [])):
        syms = [o[2] for o in t["ops"]]
        for i in range(len(syms) - 2):
            if syms[i] == "b^\\dagger" and syms[i + 1] == "+" and syms[i + 2].startswith("b"):
                return True
    return False


class C16(Prop):
    id = "C16"
    rule = ("basis cases: Hypothesis draws a basis configuration (class, size 1-8, frequency, origin, grid range, endpoint, "
            "dvr, general_xp_power, prefactor, str/Op calling form) and EVERY supported symbol of the class is compared "
            "with the harness reference (a completely enumerated grid of sizes x dvr x general is run first); non-trivial = "
            "size>=2 (and for spins a product of >=2 symbols). model cases: Holstein (1-4 molecules, 1-2 modes, w_e!=w_g, "
            "J matrix or Quantity+periodic, all four schemes each case), spin-boson baths, TI1D unit cells with "
            "wrap-around offsets, Quantity/Phonon/Mol arithmetic; non-trivial = >=2 molecules / >=1 bath mode / "
            ">=2 cells or a wrap-around / non-a.u. unit")
    assumptions = [
        "SHO reference: ladder matrix at size N+k, x = x0+(b+b^T)/sqrt(2w), p = i sqrt(w/2)(b^T-b), products in the written "
        "order then truncated to N (the library's own comment for x^2 states this convention)",
        "DVR variant: the library's dvr_v is verified to be orthogonal and to diagonalise the harness x; x-powers must equal "
        "diag(dvr_x^k) and rotate back to the exact matrix for i+j<2N-k; p/dx symbols must equal V^T M V; ladder symbols "
        "(b, b^dagger, n ...) are NOT asserted in DVR mode (undocumented)",
        "product symbols 'x p','p x','x dx','dx x' in DVR mode are only required to rotate back to the ordered product on "
        "the first N-1 levels (either truncation convention passes)",
        "sine-DVR reference: 320-point Gauss-Legendre quadrature of the documented box functions; undocumented flags: "
        "dvr=True is required to be the rotation by the documented grid transformation, quadrature=True (sympy path, "
        "'not fully tested' by its own warning) is not exercised",
        "MultiElectron(Vac) 'a a^dagger' with two different DoFs = a^dagger_j a_i (commuting sites, as the scheme "
        "equivalence of HolsteinModel requires); for equal DoFs nothing is asserted (undocumented)",
        "Holstein physics: V_g = w_g^2 x^2/2, V_e = elocalex + w_e^2 (x-d)^2/2, J diagonal zero (every caller), w_e either "
        "== w_g or different by >=1e-3 relative (the builder switches on np.allclose)",
        "SpinBosonModel: |c_i| = w_i^2 |d_i| with one global sign (docstring does not fix it)",
        "model parameters with units are converted by Quantity.as_au(); Quantity itself is checked against CODATA ratios "
        "held in the harness (rel 1e-6)",
        "dense Hamiltonians are observed through Mpo(model, algo='Hopcroft-Karp').todense() (C01's subject)",
    ]

    known_matchers = dict(MODEL_MATCHERS)
    known_matchers["F6"] = lambda spec, sig, msg: spec.get("kind") == "sho" and sig in F6_SIGS
    known_matchers["F54"] = lambda spec, sig, msg: _f54_ti1d(spec, sig)

    def budget(self, tier):
        return dict(examples=1400, shards=16) if tier == "quick" else dict(examples=40000, shards=16)

    def strategy(self, tier):
        return st.integers(0, 9).flatmap(lambda k: basis_cases(tier) if k < 7 else model_strategy(tier))

    def finite_cases(self, tier):
        return _finite_basis_cases(tier) + model_finite_cases(tier)

    def sample_view(self, spec):
        if spec.get("kind") in MODEL_KINDS:
            return model_view(spec)
        return spec

    # --------------------------------------------------------------------------------------------
    def run_case(self, spec):
        r = Result()
        kind = spec["kind"]
        r.classes.append(f"kind.{kind}")
        if kind in MODEL_KINDS:
            return run_model(spec, r)
        return getattr(self, "run_" + kind)(spec, r)

    # ---- helpers ---------------------------------------------------------------------------------
    @staticmethod
    def _opmat(basis, spec, symbol, dof=None):
        """op_mat through the drawn calling form; returns the matrix divided by nothing (factor included)"""
        from renormalizer.model import Op

        if spec.get("use_op"):
            f = complex(*spec["factor"])
            if f.imag == 0:
                f = f.real
            return np.asarray(basis.op_mat(Op(symbol, basis.dof if dof is None else dof, f)))
        return np.asarray(basis.op_mat(symbol))

    @staticmethod
    def _factor(spec):
        return complex(*spec["factor"]) if spec.get("use_op") else 1.0

    # ---- harmonic oscillator -----------------------------------------------------------------------
    def run_sho(self, spec, r):
        from renormalizer.model import basis as B

        N, om, x0 = spec["nbas"], spec["omega"], spec["x0"]
        dvr, general = spec["dvr"], spec["general"]
        name = _dofname(spec["name"])
        r.nontrivial = N >= 2
        r.classes += [f"sho.n{N}", f"sho.dvr{int(dvr)}", f"sho.general{int(general)}", "sho.x0" if x0 else "sho.x0=0"]
        bas, ok = _call(r, "sho.construct", lambda: B.BasisSHO(name, om, N, x0=x0, dvr=dvr, general_xp_power=general))
        if not ok:
            return r
        ref = U.ShoRef(N, om, x0, extra=8)
        fac = self._factor(spec)
        TOL = 1e-11
        r.check("sho.attrs", bas.nbas == N and bas.sigmaqn.shape == (N, 1) and not bas.sigmaqn.any() and bas.dofs == (name,)
                and bas.is_phonon, f"nbas={bas.nbas} sigmaqn={bas.sigmaqn.tolist()} dofs={bas.dofs}")
        V = None
        if dvr:
            V = np.asarray(bas.dvr_v)
            xs = np.asarray(bas.dvr_x)
            xN, sx = ref.symbol("x")
            okv = r.check_close("sho.dvr.orthogonal", V.T @ V, np.eye(N), 1e-12 * N, "dvr_v^T dvr_v")
            okv &= r.check_close("sho.dvr.diagonalises_x", V.T @ xN.real @ V, np.diag(xs), 1e-11 * sx, "dvr_v^T x dvr_v = diag(dvr_x)")
            if not okv:
                return r

        def lib(sym):
            return _call(r, f"sho.op_mat[{sym}]", lambda: self._opmat(bas, spec, sym))

        got_cache = {}
        # --- x / p powers and their product spellings -----------------------------------------------
        for sym in SHO_XP + ["I"]:
            got, ok = lib(sym)
            if not ok:
                continue
            got_cache[sym] = got
            exact, scale = ref.symbol(sym)
            words = U.split_words(sym)
            k = U.sho_total_power(sym)
            is_x = words[0].split("^")[0] == "x"
            if not dvr:
                r.check_close("sho.xp" + (".general" if general else ""), got, fac * exact, TOL * scale * abs(fac), f"op_mat('{sym}') N={N}")
                base = words[0].split("^")[0]
                if not spec.get("use_op") and (base != "p" or k % 2 == 0):
                    # x powers, even p powers and dx are real operators; callers combine them with real factors
                    r.check("sho.real_dtype", not np.iscomplexobj(got), f"op_mat('{sym}') is complex-typed")
            elif sym == "I":
                r.check_close("sho.dvr.I", got, fac * np.eye(N), 1e-14 * abs(fac), "I")
            elif is_x:
                r.check_close("sho.dvr.xpower_diag", got, fac * np.diag(np.asarray(bas.dvr_x) ** k), TOL * scale * abs(fac),
                              f"dvr op_mat('{sym}') = diag(dvr_x^{k})")
                back = V @ (got / fac) @ V.T
                i, j = np.indices((N, N))
                mask = (i + j) < 2 * N - k
                r.check_close("sho.dvr.xpower_consistent", np.where(mask, back, 0), np.where(mask, exact, 0), 1e-10 * scale,
                              f"V op_mat('{sym}') V^T vs exact on i+j<2N-{k}")
            else:
                r.check_close("sho.dvr.rotated", got, fac * (V.T @ exact @ V), TOL * scale * abs(fac) * N,
                              f"dvr op_mat('{sym}') = V^T M V")
        # --- ladder symbols ---------------------------------------------------------------------------
        for sym in SHO_LADDER:
            if sym == "I":
                continue
            got, ok = lib(sym)
            if not ok:
                continue
            if dvr:
                r.classes.append("sho.dvr.ladder_unasserted")
                continue
            exact, scale = ref.symbol(sym)
            r.check_close("sho.ladder", got, fac * exact, TOL * scale * abs(fac), f"op_mat('{sym}') N={N}")
        # --- canonical commutator from the single-symbol matrices -----------------------------------------
        if "x" in got_cache and "p" in got_cache and N >= 2:
            X, P = got_cache["x"] / fac, got_cache["p"] / fac
            if dvr:  # back to the oscillator eigenbasis, where "the first N-1 levels" is meaningful
                X, P = V @ X @ V.T, V @ P @ V.T
            c = (X @ P - P @ X)[: N - 1, : N - 1]
            sc = (abs(x0) + ref.ynorm) * ref.pnorm
            r.check_close("sho.commutator", c, 1j * np.eye(N - 1), 1e-11 * max(sc, 1.0), "[x,p] on the first N-1 levels")
        # --- ordered mixed products: F6 region, own signatures ---------------------------------------------
        f6 = {}
        for sym in SHO_F6:
            got, ok = lib(sym)
            if not ok:
                continue
            f6[sym] = got / fac
            exact, scale = ref.symbol(sym)
            tag = F6_TAG[sym]
            if dvr:
                back = V @ (got / fac) @ V.T
                r.check_close(f"sho.order.{tag}.dvr", back[: N - 1, : N - 1], exact[: N - 1, : N - 1], 1e-10 * scale * N,
                              f"dvr: V op_mat('{sym}') V^T vs ordered product on the first N-1 levels")
            else:
                r.check_close(f"sho.order.{tag}." + ("x0" if x0 else "plain"), got, fac * exact, TOL * scale * abs(fac),
                              f"op_mat('{sym}') vs truncated ordered product, x0={x0}")
        if not dvr and "x p" in f6 and "p x" in f6:
            r.check_close("sho.order.commutator_symbols", f6["x p"] - f6["p x"], 1j * np.eye(N), 1e-11 * max(1.0, ref.pnorm * (abs(x0) + ref.ynorm)),
                          "op_mat('x p') - op_mat('p x') = i")
        # --- general_xp_power flag changes nothing; shifted origin = binomial shift --------------------
        twin, ok = _call(r, "sho.construct_twin", lambda: B.BasisSHO(name, om, N, x0=x0, dvr=dvr, general_xp_power=not general))
        if ok:
            for sym in ("x", "x^2", "p", "p^2"):
                a, ok1 = _call(r, "sho.twin", lambda: np.asarray(twin.op_mat(sym)))
                if ok1 and sym in got_cache:
                    _, scale = ref.symbol(sym)
                    b = got_cache[sym] / fac
                    if dvr:  # the sign of each DVR eigenvector is a free convention: compare in the oscillator eigenbasis
                        Vt = np.asarray(twin.dvr_v)
                        a, b = Vt @ a @ Vt.T, V @ b @ V.T
                    r.check_close("sho.general_flag", a, b, 1e-10 * scale * N, f"general_xp_power on/off '{sym}'")
        if x0 != 0 and not dvr:
            zero, ok = _call(r, "sho.construct_zero", lambda: B.BasisSHO(name, om, N, x0=0.0, general_xp_power=general))
            if ok:
                for k in (1, 2, 3, 5):
                    acc = np.zeros((N, N))
                    for i in range(k + 1):
                        m = np.eye(N) if i == 0 else np.asarray(zero.op_mat(f"x^{i}"))
                        acc = acc + math.comb(k, i) * x0 ** (k - i) * m
                    sym = f"x^{k}"
                    if sym in got_cache:
                        r.check_close("sho.shift", got_cache[sym] / fac, acc, 1e-10 * (abs(x0) + ref.ynorm) ** k,
                                      f"x^{k} with origin x0 vs binomial shift of the x0=0 matrices")
        return r

    # ---- sine DVR ------------------------------------------------------------------------------------
    def run_sine(self, spec, r):
        from renormalizer.model import basis as B

        N, xi, xf, endpoint, dvr = spec["nbas"], spec["xi"], spec["xf"], spec["endpoint"], spec["dvr"]
        name = _dofname(spec["name"])
        r.nontrivial = N >= 2
        r.classes += [f"sine.n{N}", f"sine.endpoint{int(endpoint)}", f"sine.dvr{int(dvr)}"]
        kw = {"dvr": True} if dvr else {}
        bas, ok = _call(r, "sine.construct", lambda: B.BasisSineDVR(name, N, xi, xf, endpoint=endpoint, **kw))
        if not ok:
            return r
        ref = U.SineRef(N, xi, xf, endpoint)
        fac = self._factor(spec)
        r.check_close("sine.grid", bas.dvr_x, ref.grid, 1e-12 * max(1.0, ref.xmax), "grid points x_a = x_0 + a L/(N+1)")
        if endpoint:
            r.check_close("sine.endpoint", [bas.dvr_x[0], bas.dvr_x[-1]], [xi, xf], 1e-12 * max(1.0, ref.xmax), "x_1=xi, x_N=xf")
        r.check_close("sine.dvr_v", bas.dvr_v, ref.V, 1e-13, "grid transformation matrix")
        r.check("sine.attrs", bas.nbas == N and not bas.sigmaqn.any() and bas.dofs == (name,), "nbas/sigmaqn/dofs")
        # copy(new_dof): the same basis under another name (the translation-invariant builder and add_auxiliary_space copy basis sets)
        cp, okc = _call(r, "sine.copy", lambda: bas.copy("copied_dof"))
        if okc:
            r.check("sine.copy.attrs", cp.nbas == N and cp.dofs == ("copied_dof",) and type(cp) is type(bas), "nbas / dofs / type of the copy")
            r.check_close("sine.copy.grid", cp.dvr_x, bas.dvr_x, 1e-12 * max(1.0, ref.xmax), "grid of the copy")
            for sym in ("x", "dx^2", "x dx"):
                a_, ok1 = _call(r, f"sine.copy.op_mat[{sym}]", lambda: cp.op_mat(sym))
                b_, ok2 = _call(r, f"sine.op_mat[{sym}]", lambda: bas.op_mat(sym))
                if ok1 and ok2:
                    r.check_close("sine.copy.op_mat", a_, b_, 1e-12 * ref.scale(2, 2), f"op_mat('{sym}') of the copy vs the original (dvr={dvr}, endpoint={endpoint})")
        for sym, (m, n, pre) in U.SINE_SYMBOLS.items():
            got, ok = _call(r, f"sine.op_mat[{sym}]", lambda: self._opmat(bas, spec, sym))
            if not ok:
                continue
            exact = pre * ref.xmdn(m, n)
            scale = ref.scale(m, n)
            if dvr:
                r.check_close("sine.dvr_rotated", got, fac * (ref.V.T @ exact @ ref.V), 1e-10 * scale * abs(fac) * N,
                              f"dvr op_mat('{sym}') = V^T (integral matrix) V")
            else:
                r.check_close(f"sine.integral.m{m}n{n}", got, fac * exact, 1e-10 * scale * abs(fac),
                              f"op_mat('{sym}') vs quadrature of psi_j x^{m} d^{n} psi_k")
        if dvr:
            for sym, k in U.SINE_DVR_POTENTIAL.items():
                got, ok = _call(r, f"sine.op_mat[{sym}]", lambda: self._opmat(bas, spec, sym))
                if ok:
                    r.check_close("sine.dvr_potential", got, fac * np.diag(ref.grid ** k), 1e-10 * max(1.0, ref.xmax ** k) * abs(fac) * N,
                                  f"dvr potential '{sym}' = diag(x_a^{k})")
        return r

    # ---- spins -------------------------------------------------------------------------------------------
    def run_spin(self, spec, r):
        from renormalizer.model import basis as B

        words = spec["words"]
        name = _dofname(spec["name"])
        qn = spec.get("qn")
        bas, ok = _call(r, "spin.construct", lambda: B.BasisHalfSpin(name) if qn is None else B.BasisHalfSpin(name, qn))
        if not ok:
            return r
        r.nontrivial = len(words) >= 2
        r.classes.append(f"spin.words{len(words)}")
        fac = self._factor(spec)
        sym = " ".join(words)
        got, ok = _call(r, "spin.op_mat", lambda: self._opmat(bas, spec, sym))
        if ok:
            exact = np.eye(2, dtype=complex)
            for w in words:
                exact = exact @ U.SPIN[w]
            r.check_close("spin.product", got, fac * exact, 1e-14 * abs(fac), f"op_mat('{sym}') = product of Pauli matrices in the written order")
        if qn is not None:
            want = np.array([np.atleast_1d(q) for q in qn])
            r.check("spin.sigmaqn", bas.sigmaqn.tolist() == want.tolist(), f"sigmaqn {bas.sigmaqn.tolist()} != {want.tolist()}")
        else:
            r.check("spin.sigmaqn", bas.sigmaqn.tolist() == [[0], [0]], f"default sigmaqn {bas.sigmaqn.tolist()}")
        return r

    def run_spin_all(self, spec, r):
        from renormalizer.model import basis as B

        bas = B.BasisHalfSpin("s")
        r.nontrivial = True
        mats = {}
        for w in U.SPIN_NAMES:
            got, ok = _call(r, f"spin.op_mat[{w}]", lambda: np.asarray(bas.op_mat(w)))
            if ok:
                mats[w] = got
                r.check_close("spin.single", got, U.SPIN[w], 0.0, f"op_mat('{w}')")
        for a, b in itertools.product(U.SPIN_NAMES, repeat=2):
            got, ok = _call(r, "spin.op_mat.pair", lambda: np.asarray(bas.op_mat(f"{a} {b}")))
            if ok and a in mats and b in mats:
                r.check_close("spin.pair", got, mats[a] @ mats[b], 1e-15, f"op_mat('{a} {b}') = op_mat('{a}') @ op_mat('{b}')")
        if all(k in mats for k in ("X", "Y", "Z", "+", "-", "iY", "I")):
            X, Y, Z, I2 = mats["X"], mats["Y"], mats["Z"], mats["I"]
            for (p, q, s) in ((X, Y, Z), (Y, Z, X), (Z, X, Y)):
                r.check_close("spin.algebra", p @ q, 1j * s, 1e-15, "sigma_a sigma_b = i eps sigma_c")
                r.check_close("spin.algebra", q @ p, -1j * s, 1e-15, "sigma_b sigma_a = -i eps sigma_c")
                r.check_close("spin.algebra", p @ p, I2, 1e-15, "sigma_a^2 = 1")
            r.check_close("spin.ladder", mats["+"], (X + 1j * Y) / 2, 1e-15, "sigma_+ = (sigma_x + i sigma_y)/2")
            r.check_close("spin.ladder", mats["-"], (X - 1j * Y) / 2, 1e-15, "sigma_- = (sigma_x - i sigma_y)/2")
            r.check("spin.iY_real", not np.iscomplexobj(mats["iY"]), "iY must be real-typed")
            r.check_close("spin.iY", mats["iY"], (1j * Y).real, 0.0, "iY = i*sigma_y")
        return r

    # ---- electrons ------------------------------------------------------------------------------------------
    def run_elec(self, spec, r):
        from renormalizer.model import basis as B

        name = _dofname(spec["name"])
        bas, ok = _call(r, "elec.construct", lambda: B.BasisSimpleElectron(name))
        if not ok:
            return r
        r.nontrivial = True
        fac = self._factor(spec)
        for sym, exact in U.ELEC.items():
            got, ok = _call(r, f"elec.op_mat[{sym}]", lambda: self._opmat(bas, spec, sym))
            if ok:
                r.check_close("elec.matrix", got, fac * exact, 1e-15 * abs(fac), f"op_mat('{sym}') (0: unoccupied, 1: occupied)")
        r.check("elec.sigmaqn", bas.sigmaqn.tolist() == [[0], [1]] and bas.nbas == 2 and bas.is_electron, f"sigmaqn {bas.sigmaqn.tolist()}")
        return r

    def _names(self, spec):
        n, style = spec["n"], spec["style"]
        return [[j, f"e{j}", ("el", j)][style] for j in range(n)]

    def run_multi(self, spec, r):
        from renormalizer.model import basis as B, Op

        names = self._names(spec)
        n = spec["n"]
        qn = spec["qn"]
        bas, ok = _call(r, "multi.construct", lambda: B.BasisMultiElectron(names, qn))
        if not ok:
            return r
        r.nontrivial = n >= 2
        r.classes.append(f"multi.n{n}")
        f = complex(*spec["factor"]) if spec.get("use_op") else 1.0
        ff = f.real if isinstance(f, complex) and f.imag == 0 else f
        r.check("multi.attrs", bas.nbas == n and bas.sigmaqn.tolist() == [[q] for q in qn] and bas.dofs == tuple(names), "nbas/sigmaqn/dofs")
        for i, j in itertools.product(range(n), repeat=2):
            got, ok = _call(r, "multi.op_mat", lambda: np.asarray(bas.op_mat(Op(r"a^\dagger a", [names[i], names[j]], ff))))
            if ok:
                r.check_close("multi.adag_a", got, f * U.unit(n, i, j), 1e-15 * abs(f), f"a^dagger_{i} a_{j} -> single 1 at ({i},{j})")
            got, ok = _call(r, "multi.op_mat", lambda: np.asarray(bas.op_mat(Op(r"a a^\dagger", [names[i], names[j]], ff))))
            if ok and i != j:
                r.check_close("multi.a_adag", got, f * U.unit(n, j, i), 1e-15 * abs(f), f"a_{i} a^dagger_{j} (i!=j) -> single 1 at ({j},{i})")
        got, ok = _call(r, "multi.op_mat", lambda: np.asarray(bas.op_mat(Op("I", names[0], ff))))
        if ok:
            r.check_close("multi.I", got, f * np.eye(n), 1e-15 * abs(f), "I")
        return r

    def run_mvac(self, spec, r):
        from renormalizer.model import basis as B, Op

        names = self._names(spec)
        n = spec["n"]
        bas, ok = _call(r, "mvac.construct", lambda: B.BasisMultiElectronVac(names))
        if not ok:
            return r
        r.nontrivial = n >= 2
        r.classes.append(f"mvac.n{n}")
        f = complex(*spec["factor"]) if spec.get("use_op") else 1.0
        ff = f.real if isinstance(f, complex) and f.imag == 0 else f
        r.check("mvac.attrs", bas.nbas == n + 1 and bas.sigmaqn.tolist() == [[0]] + [[1]] * n and bas.dofs == tuple(names),
                f"nbas {bas.nbas} sigmaqn {bas.sigmaqn.tolist()}")
        for i in range(n):
            got, ok = _call(r, "mvac.op_mat", lambda: np.asarray(bas.op_mat(Op(r"a^\dagger", names[i], ff))))
            if ok:
                r.check_close("mvac.adag", got, f * U.unit(n + 1, i + 1, 0), 1e-15 * abs(f), f"a^dagger_{i} = |{i}><vac|, vacuum at index 0")
            got, ok = _call(r, "mvac.op_mat", lambda: np.asarray(bas.op_mat(Op("a", names[i], ff))))
            if ok:
                r.check_close("mvac.a", got, f * U.unit(n + 1, 0, i + 1), 1e-15 * abs(f), f"a_{i} = |vac><{i}|")
        for i, j in itertools.product(range(n), repeat=2):
            got, ok = _call(r, "mvac.op_mat", lambda: np.asarray(bas.op_mat(Op(r"a^\dagger a", [names[i], names[j]], ff))))
            if ok:
                r.check_close("mvac.adag_a", got, f * U.unit(n + 1, i + 1, j + 1), 1e-15 * abs(f), f"a^dagger_{i} a_{j} -> ({i + 1},{j + 1})")
            got, ok = _call(r, "mvac.op_mat", lambda: np.asarray(bas.op_mat(Op(r"a a^\dagger", [names[i], names[j]], ff))))
            if ok and i != j:
                r.check_close("mvac.a_adag", got, f * U.unit(n + 1, j + 1, i + 1), 1e-15 * abs(f), f"a_{i} a^dagger_{j} (i!=j) -> ({j + 1},{i + 1})")
        got, ok = _call(r, "mvac.op_mat", lambda: np.asarray(bas.op_mat(Op("I", names[0], ff))))
        if ok:
            r.check_close("mvac.I", got, f * np.eye(n + 1), 1e-15 * abs(f), "I")
        return r

    # ---- HOPS boson / dummy ------------------------------------------------------------------------------------
    def run_hops(self, spec, r):
        from renormalizer.model import basis as B

        N = spec["nbas"]
        name = _dofname(spec["name"])
        bas, ok = _call(r, "hops.construct", lambda: B.BasisHopsBoson(name, N))
        if not ok:
            return r
        r.nontrivial = N >= 2
        r.classes.append(f"hops.n{N}")
        fac = self._factor(spec)
        up = np.zeros((N, N))
        dn = np.zeros((N, N))
        for n in range(N - 1):
            up[n + 1, n] = n + 1  # b~^dagger |n> = (n+1)|n+1>
            dn[n, n + 1] = 1.0    # b~ |n+1> = |n>
        for sym, exact in ((r"\tilde{b}^\dagger", up), (r"\tilde{b}", dn), (r"b^\dagger b", np.diag(np.arange(N) * 1.0)), ("I", np.eye(N))):
            got, ok = _call(r, f"hops.op_mat[{sym}]", lambda: self._opmat(bas, spec, sym))
            if ok:
                r.check_close("hops.matrix", got, fac * exact, 1e-15 * abs(fac) * N, f"op_mat('{sym}')")
        r.check("hops.attrs", bas.nbas == N and not bas.sigmaqn.any() and bas.is_phonon, "nbas/sigmaqn")
        return r

    def run_dummy(self, spec, r):
        from renormalizer.model import basis as B, Op

        r.nontrivial = True
        for name in (0, "d", ("dummy", 1)):
            bas, ok = _call(r, "dummy.construct", lambda: B.BasisDummy(name))
            if not ok:
                continue
            got, ok = _call(r, "dummy.op_mat", lambda: np.asarray(bas.op_mat("I")))
            if ok:
                r.check_close("dummy.I", got, np.eye(1), 0.0, "1x1 identity")
            got, ok = _call(r, "dummy.op_mat", lambda: np.asarray(bas.op_mat(Op("I", name, -2.5))))
            if ok:
                r.check_close("dummy.I", got, -2.5 * np.eye(1), 0.0, "factor included")
            r.check("dummy.attrs", bas.nbas == 1 and bas.sigmaqn.tolist() == [[0]], "nbas/sigmaqn")
        return r


PROP = C16()

"""C12 — tree tensor network time evolution matches the exact propagator (also: tree DMRG bound of C08, tree purification of C10)."""
import numpy as np
from hypothesis import strategies as st

from vf.core import Prop, Result, lib_exception_sig
from vf import gen, evo
from vf import tree as T
from vf.props.c08 import scaled_terms, sector_mask

BIG = 10 ** 4
SCHEMES = ["tdvp_vmf", "prop_and_compress_tdrk4", "tdvp_ps", "tdvp_ps2"]


@st.composite
def cases(draw, tier):
    big = tier == "thorough"
    mode = draw(st.sampled_from(["exact", "exact", "exact", "poly", "conserve", "chain", "gs", "gs", "limit", "limit"]))
    tspec = draw(T.tree_specs(min_sites=2, max_sites=5 if big else 4, qn=draw(st.sampled_from([0, 1, 1, 2])), max_dim=64 if not big else 128,
                              max_nodes=6, small_sho=True, allow_single=False))
    if mode == "chain":
        tspec["topo"] = {"ctor": "linear"}
    terms = draw(gen.hermitian_hamiltonian(tspec["model"], max_terms=4, real_only=True))
    sched = draw(st.lists(st.tuples(st.sampled_from([2, 4, 8, 64]), st.sampled_from([0, 0.2, 0.5])), min_size=1, max_size=4))
    if mode == "gs" and draw(st.booleans()):
        sched = list(sched) + [(64, 0)]  # last sweep untruncated and unperturbed: its energy is the energy of the returned state
    return {"mode": mode, "tree": tspec, "terms": terms, "q": draw(st.integers(0, 50)), "rng": draw(st.integers(0, 10 ** 6)),
            "scheme": draw(st.sampled_from(SCHEMES if mode != "limit" else SCHEMES + ["tdvp_ps2", "tdvp_ps2"])), "imag": draw(st.booleans()), "normalize": draw(st.booleans()),
            "hdt": draw(st.sampled_from([0.03, 0.05, 0.1, 0.2, 0.3, 0.5, 1.0, 2.0])), "nstep": draw(st.integers(1, 4)),
            "m0": draw(st.sampled_from([1, 2, 3])), "cplx": draw(st.booleans()), "coeff": draw(st.sampled_from([[1.0, 0.0], [0.6, 0.8], [2.0, 0.0]])),
            "ttno_algo": draw(st.sampled_from(["qr", "Hopcroft-Karp"])), "M": draw(st.integers(1, 4)),
            "sched": sched,
            "algo": draw(st.sampled_from(["davidson", "direct"]))}


def make_config(kind):
    from renormalizer.utils import EvolveConfig, EvolveMethod

    return EvolveConfig(getattr(EvolveMethod, kind), ivp_rtol=1e-9, ivp_atol=1e-11, force_ovlp=False)


class C12(Prop):
    id = "C12"
    # the variational (VMF) equations of motion occasionally become stiff on trees with dummy nodes and one case can then take
    # minutes inside scipy's integrator: such a case is abandoned after 25 s and counted as inconclusive (never as a violation)
    case_timeout = 25
    rule = ("Hypothesis draws a tree (2-6 nodes: constructors and random topologies with multi-basis and dummy nodes; no / one / two "
            "quantum numbers), a real Hermitian Hamiltonian scaled to ||H||=1, a random TTNS (real/complex, prefactor) and a mode: "
            "exact (VMF / one-site PS / two-site PS at full bond dimension, real and imaginary time, 1-4 successive calls) vs dense expm; "
            "poly (P&C RK4) vs the Taylor-4 replica; conserve (one-site PS at bond 1-3: norm and energy); chain (linear tree from "
            "from_mps vs Mps.evolve with the same scheme); limit (bond limit obeyed); gs (optimize_ttns: variational bound vs exact "
            "diagonalisation in the sector). Non-trivial = ||H||t >= 0.05 and the tree is not a chain of single-basis nodes")
    assumptions = ["reference: dense exp(-iHt) / exp(-tau H) from numpy eigh of the harness Hamiltonian (site order of the model)",
                   "TTNO operators are real (the library asserts it)",
                   "projector-splitting schemes are second-order: the full-bond oracle carries O((||H||dt)^3) per step (exact only when "
                   "all complementary bases are complete), VMF is exact to solver tolerance",
                   "imaginary time: the normalised direction is compared; tolerances scaled by exp(2 tau ||H||)"]

    known_matchers = {
        "F4": lambda spec, sig, msg: sig.startswith("input_evolved_in_place.imag.") and spec.get("imag") and
        spec.get("scheme") in ("tdvp_ps", "tdvp_ps2", "prop_and_compress_tdrk4"),
    }

    def budget(self, tier):
        return dict(examples=480, shards=16) if tier == "quick" else dict(examples=6000, shards=16)

    def strategy(self, tier):
        return cases(tier)

    # ---------------------------------------------------------------------------------------------
    def run_case(self, case):
        r = Result()
        try:
            self._run(case, r)
        except Exception as e:  # noqa
            sig, in_lib = lib_exception_sig(e)
            if not in_lib:
                raise
            import traceback
            r.fail(f"{case['mode']}.{case['scheme']}.{sig}", "".join(traceback.format_exception(type(e), e, e.__traceback__))[-1500:])
        return r

    def _state(self, case, ctx, q, full, r):
        from renormalizer.utils import CompressConfig, CompressCriteria

        x = T.random_ttns(ctx, q, 64 if full else case["m0"], case["rng"])
        if x is None:
            r.rejected = "TTNS.random cannot reach the sector"
            return None
        if case["cplx"]:
            y = T.random_ttns(ctx, q, 64 if full else case["m0"], case["rng"] + 7)
            if y is not None:
                x = x.add(y.scale(1j))
        x.canonicalise()
        x.compress_config = CompressConfig(CompressCriteria.fixed, max_bonddim=BIG if full else case["m0"])
        x.compress()
        nrm = x.ttns_norm
        if not nrm > 1e-8:
            r.rejected = "vanishing start state"
            return None
        x.scale(1.0 / nrm, inplace=True)
        x.coeff = complex(*case["coeff"]) if case["coeff"][1] else case["coeff"][0]
        return x

    def _run(self, case, r):
        from renormalizer.utils import CompressConfig, CompressCriteria

        mode = case["mode"]
        tspec = case["tree"]
        mspec = tspec["model"]
        ctx = T.build(tspec)
        if ctx.N < 2:
            r.rejected = "single-node tree (the property quantifies over trees with >= 2 nodes)"
            return
        terms, H = scaled_terms(mspec, case["terms"], 1.0)
        if terms is None:
            r.rejected = "zero Hamiltonian"
            return
        H = np.real_if_close(H)
        secs = ctx.sectors()
        q = None
        for k in range(len(secs)):
            cand = secs[(case["q"] + k) % len(secs)]
            if int(sector_mask(mspec, cand).sum()) >= 2:
                q = cand
                break
        if q is None:
            q = secs[case["q"] % len(secs)]
        r.classes += [f"mode.{mode}", f"nodes={ctx.N}"] + list(ctx.shape_classes())
        if mode == "gs":
            return self.mode_gs(case, r, ctx, terms, H, q)
        kind = case["scheme"]
        if mode == "poly":
            kind = "prop_and_compress_tdrk4"
        elif mode == "conserve":
            kind = "tdvp_ps"
        elif mode in ("exact", "chain") and kind == "prop_and_compress_tdrk4":
            kind = "tdvp_ps"
        full = mode in ("exact", "poly", "chain")
        x = self._state(case, ctx, q, full, r)
        if x is None:
            return
        if full:
            # "bond dimensions sufficient to hold the result" is established, not assumed: at every edge the state's bond
            # dimension must reach the Schmidt rank of a generic vector of the sector (TTNS.random drops reachable blocks when
            # quantum numbers of both signs occur, and then its "full" state is not full)
            rng = np.random.default_rng(case["rng"])
            mask = sector_mask(mspec, q)
            g = np.zeros(mask.shape[0])
            g[mask] = rng.standard_normal(int(mask.sum()))
            for (i, sub, rest) in ctx.edges():
                sv = ctx.edge_spectrum(g, i)
                rank = int(np.sum(sv > 1e-10 * max(np.linalg.norm(g), 1e-300)))
                if x.node_list[i].tensor.shape[-1] < rank:
                    r.rejected = "start state does not have the full bond dimension of its sector (insufficient for an exactness statement)"
                    r.classes.append("insufficient_bond")
                    return
        ttno = T.make_ttno(ctx, terms, case["ttno_algo"])
        psi0 = T.dense_of(ctx, x)
        v = T.ttns_dense(ctx, x).astype(complex)
        for k in range(5):
            v = H @ v
            if np.linalg.norm(v) <= 1e-8:
                r.rejected = "H^k psi0 = 0 (exactly vanishing vector, DESIGN §3.4)"
                return
        t = case["hdt"]
        imag = bool(case["imag"]) and mode != "conserve"
        if imag and kind == "tdvp_vmf":
            t = min(t, 0.5)
        r.classes += [f"scheme.{kind}.{'imag' if imag else 'real'}"]
        r.nontrivial = t >= 0.05 and ctx.nontrivial()
        lossless = CompressConfig(CompressCriteria.fixed, max_bonddim=BIG)
        before = psi0.copy()
        c0 = x.coeff
        nstep = case["nstep"] if mode in ("exact", "conserve", "limit") else 1
        if kind == "tdvp_vmf":
            nstep = min(nstep, 2)
        tau = -1j * t if imag else t
        if not imag and kind != "tdvp_vmf" and case["rng"] % 3 == 0:
            # a real step given as a complex-typed number (e.g. a total time divided by a complex step count): still real time
            tau = complex(t, 0.0) if case["rng"] % 2 else np.complex128(t)
            r.classes.append("real_step_complex_typed")

        def step(cur, normalize, cc=None):
            cur.evolve_config = make_config(kind)
            cur.compress_config = (cc or lossless).copy()
            return cur.evolve(ttno, tau, normalize=normalize)

        if mode in ("exact", "poly", "chain"):
            cur = x
            Tref = T.ttns_dense(ctx, x).astype(complex)
            coeff = c0
            for k in range(nstep):
                new = step(cur, case["normalize"])
                if k == 0:
                    self.check_input(case, r, ctx, x, before, kind, imag)
                    if r.failures and any(s.startswith("input_evolved_in_place") for s, _ in r.failures):
                        # the input was evolved in place (finding F4): continue from the returned object only
                        pass
                r.check(f"evolve.{kind}.returns_object", new is not None, "evolve returned None")
                cur = new
                z = -t if imag else -1j * t
                if mode == "poly":
                    Tref = evo.taylor_apply(z * H, Tref, 4)
                else:
                    Tref = evo.expm_apply(H, Tref, z)
                if case["normalize"]:
                    Tref = Tref / np.linalg.norm(Tref)
                    if imag:
                        coeff = coeff / abs(coeff)
            got = T.dense_of(ctx, cur)
            ref = Tref * coeff
            if imag and not case["normalize"]:
                got = got / max(np.linalg.norm(got), 1e-300)
                ref = ref / np.linalg.norm(ref)
            nrm = np.linalg.norm(ref)
            amp = float(np.exp(2.0 * t * nstep)) if imag else 1.0
            if mode == "poly":
                tol = 1e-8 * nrm * max(1.0, t) ** 5 * amp
            elif kind == "tdvp_vmf":
                tol = 2e-7 * max(1.0, t) * nstep * nrm * amp
            else:
                tol = 1.5e-5 * 6 * ctx.N * max(1.0, t) * nstep * nrm * amp
                # no splitting error only for two single-basis nodes whose bond carries a COMPLETE basis of the smaller side (one-site
                # scheme; see C09 ps_is_exact: with symmetry blocks the generic Schmidt rank can be smaller than that), or two-site scheme
                two_exact = ctx.N == 2 and not any(len([s for s in n.sets if s is not None]) > 1 for n in ctx.nodes) and \
                    (kind == "tdvp_ps2" or int(list(x.bond_dims)[1]) >= min(ctx.sub_dim(1), ctx.D // ctx.sub_dim(1)))
                if not two_exact:
                    tol += 0.5 * nstep * t ** 3 * nrm * amp
            r.check_close(f"{mode}.{kind}.{'imag' if imag else 'real'}", got, ref, tol, f"{kind} t={t} x{nstep} normalize={case['normalize']} vs "
                          f"{'Taylor-4 replica' if mode == 'poly' else 'dense propagator'}")
            r.check("evolve.sector", T.sector_leak(ctx, got, q) <= 1e-8, "left the sector")
            lv, where = T.label_violation(ctx, cur)
            r.check("evolve.labels", lv <= 1e-10, f"labels invalid after evolve ({lv:.2e}) at {where}")
            if mode == "chain":
                self.compare_chain(case, r, ctx, x, before, terms, H, kind, imag, t, tol)
        elif mode == "conserve":
            cur = x
            n0 = np.linalg.norm(psi0)
            e0 = float(np.real(psi0.conj() @ (H @ psi0)))
            bd0 = list(x.bond_dims)
            r.classes.append(f"bond_dims={max(bd0)}")
            for k in range(nstep):
                cur = step(cur, False)
                if k == 0:
                    self.check_input(case, r, ctx, x, before, kind, False)
                vv = T.dense_of(ctx, cur)
                nk = np.linalg.norm(vv)
                ek = float(np.real(vv.conj() @ (H @ vv)))
                tol = 1e-6 * (k + 1) * max(1.0, t)
                r.resid("conserve.norm_drift", abs(nk - n0) / n0, tol)
                r.resid("conserve.energy_drift", abs(ek - e0) / n0 ** 2, tol)
                if not r.check("conserve.norm", abs(nk - n0) <= tol * n0, f"step {k}: norm {nk} vs {n0}"):
                    break
                if not r.check("conserve.energy", abs(ek - e0) <= tol * n0 ** 2, f"step {k}: energy {ek} vs {e0}"):
                    break
                r.check("conserve.bond_dims", list(cur.bond_dims) == bd0, f"bond dims changed {bd0} -> {list(cur.bond_dims)}")
                r.check("conserve.sector", T.sector_leak(ctx, vv, q) <= 1e-8, "left the sector")
        elif mode == "limit":
            M = max(case["M"], max(x.bond_dims))
            cur = x
            per_node = None
            if (case["rng"] % 4 or kind == "tdvp_ps2") and kind in ("tdvp_ps2", "prop_and_compress_tdrk4"):
                # a limit per bond (compress_config.max_dims, indexed by the pre-order number of the node below the bond), none
                # smaller than the bond the state already has
                g = np.random.default_rng(case["rng"])
                bd0 = list(x.bond_dims)
                per_node = [max(int(b), int(g.integers(1, 5))) for b in bd0] + [1]
                per_node[0] = 1
                r.classes.append("limit.per_bond")
            for k in range(nstep):
                cc = CompressConfig(CompressCriteria.fixed, max_bonddim=M)
                if per_node is not None:
                    cc.max_dims = np.array(per_node, dtype=int)
                cur = step(cur, False, cc)
                if per_node is not None:
                    if not r.check(f"limit.per_bond.{kind}", all(int(b) <= per_node[i] for i, b in enumerate(cur.bond_dims)),
                                   f"step {k}: bond dims {list(cur.bond_dims)} exceed the per-bond limits {per_node[:-1]}"):
                        break
                elif not r.check(f"limit.{kind}", max(cur.bond_dims) <= M, f"step {k}: bond dims {cur.bond_dims} exceed {M}"):
                    break
                vv = T.dense_of(ctx, cur)
                r.check("limit.finite", bool(np.all(np.isfinite(vv))), "non-finite state")
                r.check("limit.sector", T.sector_leak(ctx, vv, q) <= 1e-8, "left the sector")

    def check_input(self, case, r, ctx, x, before, kind, imag):
        after = T.dense_of(ctx, x)
        tol = 1e-10 * max(np.linalg.norm(before), 1e-300) + 1e-14
        if imag:
            # own signature: TTNS.evolve passes `self` to the in-place sweeps in imaginary time (finding F4)
            r.check_close(f"input_evolved_in_place.imag.{kind}", after, before, tol, f"input TTNS changed by imaginary-time evolve ({kind})")
        else:
            r.check_close(f"input_changed.real.{kind}", after, before, tol, f"input TTNS changed by real-time evolve ({kind})")

    def compare_chain(self, case, r, ctx, x, before, terms, H, kind, imag, t, tol):
        """the same evolution with the chain implementation (linear tree = chain in site order)"""
        from renormalizer.model import Model
        from renormalizer.mps import Mps, Mpo
        from renormalizer.utils import CompressConfig, CompressCriteria, EvolveConfig, EvolveMethod
        from vf.props.c08 import build_ops

        model = Model(list(ctx.bl), [])
        psi = before
        if not np.all(np.isfinite(psi)):
            return
        qn_free = not any(np.any(gen.site_sigmaqn(ctx.mspec, i) != 0) for i in range(len(ctx.mspec["sites"])))
        if not qn_free:
            return  # Mps.from_dense builds states without quantum numbers only
        mps = Mps.from_dense(model, psi / (x.coeff if False else 1))
        mps.ensure_left_canonical()
        mps.ensure_right_canonical()
        mpo = Mpo(model, build_ops(ctx.mspec, terms))
        cfg = EvolveConfig(getattr(EvolveMethod, kind), ivp_rtol=1e-9, ivp_atol=1e-11, force_ovlp=False)
        mps.evolve_config = cfg
        mps.compress_config = CompressConfig(CompressCriteria.fixed, max_bonddim=BIG)
        new = mps.evolve(mpo, -1j * t if imag else t, normalize=False)
        got = np.asarray(new.todense()) * new.coeff
        ref = evo.expm_apply(H, psi.astype(complex), -t if imag else -1j * t)
        if imag:
            got = got / np.linalg.norm(got)
            ref = ref / np.linalg.norm(ref)
        r.classes.append("chain_vs_tree")
        r.check_close(f"chain.{kind}.mps_side", got, ref, tol * (1.0 / max(np.linalg.norm(before), 1e-300) if imag else 1.0) + 1e-12,
                      "chain implementation vs dense propagator (same tolerance as the tree side)")

    def mode_gs(self, case, r, ctx, terms, H, q):
        from renormalizer.tn.gs import optimize_ttns

        mspec = ctx.mspec
        mask = sector_mask(mspec, q)
        Hs = H[np.ix_(mask, mask)]
        evals = np.linalg.eigvalsh((Hs + Hs.conj().T) / 2)
        x = T.random_ttns(ctx, q, max(case["m0"], 2), case["rng"])
        if x is None:
            r.rejected = "TTNS.random cannot reach the sector"
            return
        ttno = T.make_ttno(ctx, terms, case["ttno_algo"])
        if case["ttno_algo"] == "qr":
            # the bound is about the operator handed to the optimiser; the QR construction reproduces the term list only to ~1e-7
            # relative (C02's subject), which would appear here as a violation of the same size
            Hlib = np.asarray(T.ttno_dense(ctx, ttno))
            if Hlib.shape == H.shape and np.linalg.norm(Hlib - H) <= 1e-6 * max(np.linalg.norm(H), 1e-300):
                H = Hlib
                Hs = H[np.ix_(mask, mask)]
                evals = np.linalg.eigvalsh((Hs + Hs.conj().T) / 2)
        x.optimize_config.algo = case["algo"]
        proc = [[int(m), float(p)] for m, p in case["sched"]]
        x.canonicalise()
        np.random.seed(case["rng"] + 1)
        energies = optimize_ttns(x, ttno, proc)
        # direct solver: rounding.  Davidson (vendored PySCF routine, lindep 1e-14): its Ritz values are variational only up to
        # the loss of orthogonality it tolerates, ~sqrt(lindep) = 1e-7 (observed: -1.0000000104 for an exact -1, thorough seed 2)
        tol = 1e-8
        r.classes += [f"gs.algo.{case['algo']}"]
        r.nontrivial = int(mask.sum()) >= 4 and ctx.nontrivial()
        for k, e in enumerate(energies):
            r.resid("gs.variational_violation", evals[0] - float(e), tol)
            if not r.check("gs.variational_bound", float(e) >= evals[0] - tol, f"sweep {k}: reported {e} below exact {evals[0]} (sector {q})"):
                break
        v = T.ttns_dense(ctx, x)
        nv = np.linalg.norm(v)
        r.check("gs.finite", np.isfinite(nv) and nv > 0, "vanishing state")
        r.check("gs.sector", T.sector_leak(ctx, v, q) <= 1e-8, "optimised state left the sector")
        lv, where = T.label_violation(ctx, x)
        r.check("gs.labels", lv <= 1e-10, f"labels invalid after optimisation ({lv:.2e}) at {where}")
        ev = float(np.real(v.conj() @ (H @ v)) / nv ** 2)
        r.check("gs.state_energy_variational", ev >= evals[0] - tol, f"<H>={ev} below exact {evals[0]}")
        if all(m >= 64 for m, p in proc[-1:]) and proc[-1][1] == 0:
            # last sweep untruncated and unperturbed: the last reported energy is the energy of the current state
            r.check_close("gs.last_energy_is_state_energy", float(energies[-1]), ev, 1e-6 * max(1.0, abs(ev)), "last reported energy vs <H> of the state")
        if ctx.N == 2:
            # two nodes: the two-site problem is the whole sector problem
            r.check_close("gs.equality_two_nodes", float(min(energies)), evals[0], 1e-6 * max(1.0, abs(evals[0])) + 1e-8, "two-node tree vs exact diagonalisation")

    def sample_view(self, case):
        return {k: v for k, v in case.items() if k not in ("terms", "tree")} | {
            "topo": case["tree"]["topo"], "sites": [s["k"] for s in case["tree"]["model"]["sites"]], "n_terms": len(case["terms"])}


PROP = C12()

"""C03 — state / operator arithmetic agrees with dense linear algebra in any gauge (model-based, histories)."""
import numpy as np
from hypothesis import strategies as st

from vf.core import Prop, Result
from vf import gen, chain


@st.composite
def arith_instr(draw):
    op = draw(st.sampled_from(["add", "add", "sub", "cadd", "scale", "scale", "conj", "to_complex", "copy", "apply", "apply",
                               "contract", "opmul", "conj_trans", "dm_apply", "coeff",
                               "dot", "distance", "norm", "expect", "op_add", "op_scale", "dm_add", "dm_scale",
                               "mpdm_from"]))
    a, b, o = draw(st.integers(0, 20)), draw(st.integers(0, 20)), draw(st.integers(0, 20))
    if op in ("add", "sub"):
        return {"op": op, "a": a, "b": b, "on": "S", "meth": draw(st.integers(0, 1))}
    if op == "cadd":
        return {"op": op, "a": a, "b": b, "on": "S"}
    if op == "op_add":
        return {"op": draw(st.sampled_from(["add", "sub"])), "a": a, "b": b, "on": "O"}
    if op == "dm_add":
        return {"op": "add", "a": a, "b": b, "on": "M"}
    if op == "scale":
        return {"op": "scale", "a": a, "on": "S", "val": draw(st.sampled_from(chain.SCALARS)),
                "inplace": draw(st.integers(0, 3)) == 0}
    if op == "op_scale":
        return {"op": "scale", "a": a, "on": "O", "val": draw(st.sampled_from(chain.SCALARS)), "inplace": False}
    if op == "dm_scale":
        return {"op": "scale", "a": a, "on": "M", "val": draw(st.sampled_from(chain.SCALARS)), "inplace": False}
    if op == "coeff":
        return {"op": "coeff", "a": a, "on": "S", "val": draw(st.sampled_from(chain.SCALARS))}
    if op in ("conj", "to_complex", "copy"):
        return {"op": op, "a": a, "on": draw(st.sampled_from(["S", "S", "O", "M"]))}
    if op in ("apply", "contract"):
        return {"op": op, "o": o, "a": a, "meth": draw(st.integers(0, 1))}
    if op == "opmul":
        return {"op": "opmul", "a": a, "b": b}
    if op == "conj_trans":
        return {"op": "conj_trans", "a": a}
    if op == "dm_apply":
        return {"op": "dm_apply", "o": o, "a": a, "side": draw(st.integers(0, 1))}
    if op in ("dot", "distance"):
        return {"op": op, "a": a, "b": b, "on": draw(st.sampled_from(["S", "S", "O"]))}
    if op == "norm":
        return {"op": "norm", "a": a, "on": draw(st.sampled_from(["S", "O", "M"]))}
    if op == "expect":
        return {"op": "expect", "o": o, "a": a}
    return {"op": "mpdm_from", "a": a}


@st.composite
def cases(draw, tier):
    spec = draw(chain.chain_model_specs(1 if draw(st.integers(0, 9)) == 0 else 2, 6, max_dim=128 if tier == "quick" else 256))
    has_multi_or_dummy = any(s["k"] in ("multi", "dummy") for s in spec["sites"])
    has_qn = any(np.any(gen.site_sigmaqn(spec, i) != 0) for i in range(len(spec["sites"])))
    allow = ["rand", "rand", "prod"]
    if not has_multi_or_dummy:
        allow.append("gs")
    if not has_qn:
        allow.append("dense")
    prog = []
    # a common sector for the random states so that binary operations find partners
    qsel = draw(st.integers(0, 50))
    for _ in range(draw(st.integers(2, 4))):
        ins = draw(chain.create_instr(spec, tuple(allow)))
        if ins["op"] == "rand" and draw(st.integers(0, 3)) > 0:
            ins["q"] = qsel
        prog.append(ins)
    for _ in range(draw(st.integers(1, 2))):
        prog.append(draw(chain.mpo_instr(spec)))
    nsteps = draw(st.integers(3, 10 if tier == "quick" else 20))
    for _ in range(nsteps):
        if draw(st.integers(0, 3)) == 0:
            prog.append(draw(chain.gauge_instr(draw(st.sampled_from(["S", "S", "S", "O", "M"])))))
        elif draw(st.integers(0, 9)) == 0:
            # density-operator form of a state, an operator from either side, then a gauge move (labels of the result matter there)
            a = draw(st.integers(0, 20))
            prog.append({"op": "mpdm_from", "a": a})
            prog.append({"op": "dm_apply", "o": draw(st.integers(0, 20)), "a": -1, "side": draw(st.integers(0, 1))})
            g = draw(chain.gauge_instr("M"))
            g["a"] = -1
            prog.append(g)
        elif draw(st.integers(0, 11)) == 0:
            a = draw(st.integers(0, 20))
            if draw(st.booleans()):
                prog.append({"op": "coeff", "a": a, "on": "S", "val": draw(st.sampled_from(chain.SCALARS))})
            prog.append({"op": "normalize", "a": a, "on": draw(st.sampled_from(["S", "S", "M"])), "kind": draw(st.integers(0, 2))})
        elif draw(st.integers(0, 11)) == 0:
            # a complex prefactor, then operations that have to carry it (conj, sums, overlaps)
            a = draw(st.integers(0, 20))
            prog.append({"op": "coeff", "a": a, "on": "S", "val": draw(st.sampled_from([[0.3, 0.4], [0.0, 1.0], [40.0, -9.0]]))})
            prog.append(draw(st.sampled_from([{"op": "conj", "a": a, "on": "S"}, {"op": "add", "a": a, "b": draw(st.integers(0, 20)), "on": "S", "meth": 0},
                                              {"op": "dot", "a": a, "b": draw(st.integers(0, 20)), "on": "S"}, {"op": "copy", "a": a, "on": "S"}])))
        else:
            ins = draw(arith_instr())
            if ins["op"] in ("add", "sub", "cadd", "dot", "distance") and draw(st.integers(0, 2)) > 0:
                # a gauge move on one operand only, so that the two operands differ in centre / direction
                g = draw(chain.gauge_instr(ins.get("on", "S")))
                g["a"] = ins["a"]
                prog.append(g)
            prog.append(ins)
    return {"model": spec, "prog": prog}


class Hooks:
    def after_create(self, it, reg):
        check_meta(it, reg, "create")

    def after_gauge(self, it, reg, before, ins, name):
        check_meta(it, reg, f"gauge.{name}")

    def after_arith(self, it, reg, ins, sig):
        check_meta(it, reg, sig)
        x = reg.obj
        # the result must stay correct when it is subsequently canonicalised / compressed without truncation
        ok, c = it.guard(f"{sig}.then_copy", x.copy)
        if not ok:
            return
        tmp = chain.Reg(c, reg.model, reg.q, reg.kind)
        for name, fn in (("then_ensure_left", lambda y: y.ensure_left_canonical()),
                         ("then_ensure_right", lambda y: y.ensure_right_canonical()),
                         ("then_compress", lambda y: y.compress(temp_m_trunc=chain.BIG))):
            ok, _ = it.guard(f"{sig}.{name}", fn, c)
            if not ok:
                return
            if not it.compare(f"{sig}.{name}", tmp, name):
                return
            check_meta(it, tmp, f"{sig}.{name}")
        # the original result object is untouched by operations on its copy
        it.compare(f"{sig}.copy_independent", reg, "result after its copy was canonicalised")


def check_meta(it, reg, sig):
    x = reg.obj
    r = it.r
    qn = x.qn
    n = len(x)
    if not r.check(f"{sig}.meta.qn_shape", len(qn) == n + 1 and len(qn[0]) == 1 and len(qn[-1]) == 1 and
                   all(len(qn[i]) == x.bond_dims[i] for i in range(n + 1)),
                   f"qn lengths {[len(q) for q in qn]} vs bond dims {x.bond_dims} trace={it.trace[-6:]}"):
        return
    r.check(f"{sig}.meta.qntot", tuple(int(v) for v in np.atleast_1d(x.qntot)) == reg.q,
            f"qntot {x.qntot} expected sector {reg.q} trace={it.trace[-6:]}")
    v, where = chain.label_violation(x)
    r.resid(f"meta.label_violation", v, 1e-10)
    r.check(f"{sig}.meta.labels", v <= 1e-10, f"entry {v:.2e} (relative) in a block forbidden by the stored labels at {where} "
            f"trace={it.trace[-6:]}")
    if reg.kind == "S":
        leak = chain.sector_leak(it.spec, reg.model, reg.q)
        r.check(f"{sig}.meta.sector", leak <= 1e-9, f"dense weight {leak:.2e} outside sector {reg.q}")


class C03(Prop):
    id = "C03"
    rule = ("Hypothesis draws a model (2-6 sites, no / one / two quantum numbers) and a program: 2-4 state constructors "
            "(random, product, ground, from_dense), 1-2 operators (charged or neutral), then 3-20 instructions mixing "
            "arithmetic (add, sub, scale, conj, to_complex, copy, apply, contract, operator product, conj_trans, MpDm), "
            "observers (dot, distance, norms, angle, expectation) and gauge moves on single registers; a dense model runs in "
            "lock step and every arithmetic result is re-checked after canonicalising/compressing a copy. Non-trivial = the "
            "program contains a binary operation whose operands differ in qn-centre, direction or dtype, or an operator "
            "with non-zero charge, or an operand with prefactor != 1")
    assumptions = ["dense model: numpy vectors/matrices, todense()*coeff is the represented object",
                   "binary operations are drawn between operands of the same symmetry sector (library asserts it)",
                   "operators in models with quantum numbers have one definite charge (DESIGN §3.8)",
                   "sums whose dense model vanishes (norm < 1e-6 of operands) are not formed (DESIGN §3.4)",
                   "tolerance 1e-9*norm (1e-7 for distance, which the library computes as a difference of squares)"]

    def budget(self, tier):
        return dict(examples=3000, shards=16) if tier == "quick" else dict(examples=80000, shards=16)

    def strategy(self, tier):
        return cases(tier)

    known_matchers = {"F27": lambda spec, sig, msg: sig == "observe.distance.common_prefactor_ignored"}

    def run_case(self, case):
        r = Result()
        it = chain.Interp(case["model"], r, Hooks())
        it.run(case["prog"])
        cl = set(r.classes)
        r.classes = sorted(cl) + [f"sites={it.n}", f"qn={case['model'].get('qnmode')}"]
        r.nontrivial = bool(cl & {"binary.centres_differ", "binary.directions_differ", "binary.dtypes_differ",
                                  "binary.coeff_ne_1", "apply.charged"})
        return r

    def sample_view(self, case):
        return {"sites": [s["k"] for s in case["model"]["sites"]], "qnmode": case["model"].get("qnmode"),
                "prog": [{k: v for k, v in i.items() if k != "terms"} for i in case["prog"]]}


PROP = C03()

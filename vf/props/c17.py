"""C17 — fermionic Hamiltonians and site reordering keep the physics unchanged.

Four kinds of generated cases (drawn by one strategy):

* ``qc``   : ``qc_model(int_to_h(h, eri))`` (flat / stacked, with / without quantum numbers) against fermions written by the
             harness as signed maps on occupation bit strings.
* ``swap`` : sequences of ``Mpo.try_swap_site`` on such an operator, ``swap_jw`` off (leg permutation) and on (fermionic
             swap gate F), for the short symbols ``+ - Z`` that ``qc_model`` emits and for the same terms spelt
             ``sigma_+ sigma_- sigma_z``.
* ``gs``   : on-the-fly swapping inside ``optimize_mps`` (2site) with every OFS criterion on spin / vibronic / qc models.
* ``evo``  : on-the-fly swapping inside ``tdvp_ps2`` evolution.

plus one finite case (both tiers): the repository's own H6 integral file and stored FCI energy, which pins the index
convention of the harness fermions to the reference the authors used.

Known findings (own signature prefixes, narrow matchers): F12 (``f12.``: short symbols are invisible to the JW-aware swap),
FC17a (``fc17a.``: QR-built MPO + graph swap leaves an identically cancelling bond operator -> AssertionError in swap_site),
FC17b (``fc17b.``: JW-created operators carry a one-component qn in a two-component model -> duplicate table rows),
FC17c (``fc17c.``: QR bond operators mixing symmetry sectors at rounding level give a wrong bond label).
In the F12 zone (short symbols and swap_jw) everything that does not depend on the sign convention is still asserted under
the ordinary signatures (permutation, spectrum, plain-permutation fallback, labels, sector, variational bound).
"""
import os

import numpy as np
from hypothesis import strategies as st

from vf.core import Prop, Result, lib_exception_sig
from vf import gen, chain, evo
from vf.props.c08 import scaled_terms, build_ops

BIG = 10 ** 4
ALGOS = ["qr", "Hopcroft-Karp", "Hungarian"]
OFS_NAMES = ["ofs_s", "ofs_ds", "ofs_d", "ofs_debug"]
LONG = {"+": "sigma_+", "-": "sigma_-", "Z": "sigma_z", "I": "I"}
INT_MODES = ["dense", "dense", "sparse", "sparse", "blocks", "hubbard", "one_body", "two_body", "const"]


# ------------------------------------------------------------------------------------------------
# harness-side fermions: signed maps on occupation bit strings
# ------------------------------------------------------------------------------------------------

def _popcount(a):
    a = np.asarray(a).copy()
    c = np.zeros_like(a)
    while np.any(a):
        c += a & 1
        a >>= 1
    return c


class Fock:
    """n spin orbitals; tensor position p (0 = most significant bit) holds orbital order[p]; bit 1 = occupied.
    An elementary operator acts on all 2^n basis states at once: (index array, sign array), sign 0 = annihilated."""

    def __init__(self, n, order=None):
        self.n = n
        self.D = 2 ** n
        order = list(range(n)) if order is None else list(order)
        pos = {o: p for p, o in enumerate(order)}
        idx = np.arange(self.D)
        self.idx = idx
        self.bit = [1 << (n - 1 - pos[o]) for o in range(n)]
        # (-1)^(number of occupied orbitals standing before the orbital in the current order)
        self.phase = [1 - 2 * (_popcount(idx >> (n - pos[o])) & 1) for o in range(n)]

    def apply(self, s, sg, o, create):
        occ = (s & self.bit[o]) != 0
        ok = ~occ if create else occ
        return s ^ self.bit[o], sg * ok * self.phase[o][s]

    def string(self, cre, ann):
        """c+_{cre[0]} ... c+_{cre[-1]} c_{ann[0]} ... c_{ann[-1]} on every basis state (rightmost factor acts first)"""
        s = self.idx.copy()
        sg = np.ones(self.D)
        for o in reversed(ann):
            s, sg = self.apply(s, sg, o, False)
        for o in reversed(cre):
            s, sg = self.apply(s, sg, o, True)
        return s, sg

    def add(self, H, coef, cre, ann):
        s, sg = self.string(cre, ann)
        m = sg != 0
        np.add.at(H, (s[m], self.idx[m]), coef * sg[m])

    def hamiltonian(self, h, eri):
        """H = sum_PQ,s h[P,Q] c+_Ps c_Qs + 1/2 sum_PQRS,s,t (PQ|RS) c+_Ps c+_Rt c_St c_Qs ; spin orbital = 2*P + s"""
        K = len(h)
        H = np.zeros((self.D, self.D))
        for P, Q in np.argwhere(h != 0):
            for s in (0, 1):
                self.add(H, h[P, Q], [2 * P + s], [2 * Q + s])
        for P, Q, R, S in np.argwhere(eri != 0):
            v = 0.5 * eri[P, Q, R, S]
            for s in (0, 1):
                for t in (0, 1):
                    self.add(H, v, [2 * P + s, 2 * R + t], [2 * S + t, 2 * Q + s])
        return H

    def numbers(self):
        """diagonals of N_alpha (even orbitals) and N_beta (odd orbitals)"""
        na = sum(((self.idx & self.bit[o]) != 0).astype(int) for o in range(0, self.n, 2))
        nb = sum(((self.idx & self.bit[o]) != 0).astype(int) for o in range(1, self.n, 2))
        return na, nb


def transform(dims, perm, fermi):
    """site reordering as a signed index map: new position p holds original site perm[p];
    v_new = sign * v_old[src].  fermi: every adjacent exchange carries -1 on the doubly occupied pair (fermionic swap
    gate); the product over any sequence of exchanges depends on the final order only: (-1)^(inversions among occupied)."""
    dims = list(dims)
    n = len(dims)
    D = int(np.prod(dims))
    src = np.arange(D).reshape(dims).transpose(list(perm)).reshape(-1)
    sign = np.ones(D)
    if fermi:
        assert all(d == 2 for d in dims)
        t = np.arange(D)
        nb = [(t >> (n - 1 - p)) & 1 for p in range(n)]
        inv = np.zeros(D, dtype=int)
        for a in range(n):
            for b in range(a + 1, n):
                if perm[a] > perm[b]:
                    inv += nb[a] * nb[b]
        sign = 1.0 - 2.0 * (inv & 1)
    return src, sign


def op_forward(X, tr):
    src, sign = tr
    return sign[:, None] * X[np.ix_(src, src)] * sign[None, :]


def vec_back(v, tr):
    """state given in the new order -> original order (works for a density-operator-like matrix as well)"""
    src, sign = tr
    v = np.asarray(v)
    if v.ndim == 1:
        out = np.zeros_like(v)
        out[src] = sign * v
        return out
    out = np.zeros_like(v)
    out[np.ix_(src, src)] = sign[:, None] * v * sign[None, :]
    return out


# ------------------------------------------------------------------------------------------------
# integrals
# ------------------------------------------------------------------------------------------------

def _sym8(e, f=np.add):
    e = f(e, e.transpose(1, 0, 2, 3))
    e = f(e, e.transpose(0, 1, 3, 2))
    e = f(e, e.transpose(2, 3, 0, 1))
    return e


def make_integrals(ispec):
    """symmetric h[P,Q] and 8-fold symmetric (PQ|RS) from a plain-data description"""
    K = ispec["K"]
    rng = np.random.default_rng(ispec["rng"])
    mode = ispec["mode"]
    h = rng.standard_normal((K, K))
    h = (h + h.T) / 2
    e = _sym8(rng.standard_normal((K,) * 4)) / 4
    if mode == "sparse":
        u = rng.random((K, K))
        h = h * (np.minimum(u, u.T) < ispec["dens"])
        w = _sym8(rng.random((K,) * 4), np.minimum)
        e = e * (w < ispec["dens"] / 2)
    elif mode == "blocks" and K >= 2:
        g = np.array([(ispec["grp"] >> k) & 1 for k in range(K)])
        if g.min() == g.max():
            g[0] = 1 - g[0]
        same2 = g[:, None] == g[None, :]
        h = h * same2
        e = e * (same2[:, :, None, None] & same2[None, None, :, :] & same2[:, None, :, None])
    elif mode == "hubbard":
        h = np.triu(np.tril(h, 1), -1)
        e2 = np.zeros_like(e)
        for P in range(K):
            e2[P, P, P, P] = abs(e[P, P, P, P]) + 0.5
        e = e2
    elif mode == "one_body":
        e = e * 0
    elif mode == "two_body":
        h = h * 0
    elif mode == "const":
        e = np.full_like(e, 0.5)  # direct and exchange parts cancel exactly for equal spins
        h = np.round(h)
    h = h * ispec["hscale"]
    e = e * ispec["escale"]
    if not h.any() and not e.any():
        h[0, 0] = 1.0
    if ispec.get("h_int"):
        # a hand-typed integer hopping matrix (integer dtype) next to floating-point two-electron integrals
        h = np.round(h * 2).astype(np.int64)
        if not h.any() and not e.any():
            h[0, 0] = 1
    return h, e


@st.composite
def integral_specs(draw, kmin, kmax):
    K = draw(st.sampled_from([k for k in (1, 2, 2, 3, 3, 3, 4, 4) if kmin <= k <= kmax]))
    return {"K": K, "mode": draw(st.sampled_from(INT_MODES)), "rng": draw(st.integers(0, 10 ** 6)),
            "dens": draw(st.sampled_from([0.2, 0.4, 0.7])), "grp": draw(st.integers(1, 14)),
            "hscale": draw(st.sampled_from([1.0, 1.0, 1.0, 0.01, 30.0, 1e-9])),
            "escale": draw(st.sampled_from([1.0, 1.0, 1.0, 0.01, 30.0, 1e-9, 1e-10])),
            "h_int": draw(st.integers(0, 7)) == 0}


def to_long(op):
    from renormalizer.model import Op

    return Op(" ".join(LONG[s] for s in op.split_symbol), op.dofs, op.factor, op.qn_list)


def qc_terms(h, eri, stacked=False, conserve_qn=True, symbols="short"):
    """what the callers do: spatial integrals -> int_to_h -> qc_model ; optionally re-spelt with the long symbols"""
    from renormalizer.model import h_qc

    sh, aseri = h_qc.int_to_h(h, eri)
    basis, terms = h_qc.qc_model(sh, aseri, stacked=stacked, conserve_qn=conserve_qn)
    if symbols == "long":
        terms = [[to_long(t) for t in g] for g in terms] if stacked else [to_long(t) for t in terms]
    return basis, terms, sh, aseri


def int_scale(sh, aseri):
    return float(np.abs(sh).sum() + np.abs(aseri).sum()) + 1e-300


def ladder_pairs(sh, aseri):
    """pairs[a, b]: some term carries an odd number of ladder operators on spin orbital a and on spin orbital b
    (the terms whose sign depends on the relative order of a and b)"""
    n = len(sh)
    pairs = np.zeros((n, n), dtype=bool)
    for p, q in np.argwhere(sh != 0):
        if p != q:
            pairs[p, q] = pairs[q, p] = True
    for idx in np.argwhere(aseri != 0):
        odd = [o for o in set(idx.tolist()) if list(idx).count(o) % 2 == 1]
        for a in odd:
            for b in odd:
                if a != b:
                    pairs[a, b] = True
    return pairs


def qn_width_defect(mpo):
    """F12b: table_row_swapped_jw creates 'sigma_z ...' / identity operators with a ONE-component zero quantum number also
    when the model has two components (qc_model(conserve_qn=True)); they compare unequal to the regular operators of the
    same symbol, and after a later swap two table rows coincide (AssertionError in _construct_symbolic_mpo)."""
    try:
        width = int(mpo.model.qn_size)
        for op in mpo.primary_ops:
            for q in getattr(op, "qn_list", []):
                if len(np.atleast_1d(q)) != width:
                    return True
    except Exception:  # noqa
        return False
    return False


def is_dup_rows_assert(e):
    sig, in_lib = lib_exception_sig(e)
    return in_lib and isinstance(e, AssertionError) and sig.endswith("symbolic_mpo.py:_construct_symbolic_mpo")


def cancelling_bond_operator(mpo, rel=1e-10):
    """(bond, index) of a bond operator of the symbolic MPO whose two-site expansion (through the previous bond, grouped by
    (operator two bonds to the left, symbol on site 1, symbol on site 2)) cancels identically - the precondition of FC17a;
    None if there is none.  Own expansion, not the library's."""
    try:
        lists = mpo.symbolic_out_ops_list
        for b in range(2, len(lists)):
            o2, o3 = lists[b - 1], lists[b]
            sums = []
            for lst in o3:
                g = {}
                for op in lst:
                    for op1 in o2[op.symbol[0]]:
                        key = (op1.symbol[0], op1.symbol[1], op.symbol[1])
                        g[key] = g.get(key, 0.0) + op1.factor * op.factor
                sums.append(max(abs(v) for v in g.values()) if g else 0.0)
            top = max(sums) if sums else 0.0
            for j, v in enumerate(sums):
                if v <= rel * top:
                    return b, j
    except Exception:  # noqa
        return None
    return None


def mixed_sector_bond_operator(mpo):
    """FC17c: (bond, index, factors) of a bond operator of the symbolic MPO that is a linear combination of operators with
    DIFFERENT quantum numbers.  The QR decomposition works on the whole coefficient matrix; when the coefficients span many
    decades, normalising a small column amplifies rounding noise of other symmetry blocks above the 1e-10 entry cut, and the
    bond label is taken from the first member of the sum (possibly the noise member)."""
    try:
        width = int(mpo.model.qn_size)
        for b, lst in enumerate(mpo.symbolic_out_ops_list):
            for j, opsum in enumerate(lst):
                qns = set()
                for op in opsum:
                    q = np.atleast_1d(np.asarray(op.qn)).astype(int)
                    if len(q) != width:
                        q = np.resize(q, width)
                    qns.add(tuple(q.tolist()))
                if len(qns) > 1:
                    return b, j, [float(abs(op.factor)) for op in opsum][:6]
    except Exception:  # noqa
        return None
    return None


def check_operator_labels(r, mpo, sig, tol, tag, what=""):
    """bond labels of an operator describe its tensors; a violation caused by a mixed-sector QR bond operator is FC17c"""
    lv, where = chain.label_violation(mpo)
    r.resid(sig + (".qr" if tol > 1e-9 else ".graph"), lv, tol)
    r.subchecks += 1
    if lv <= tol:
        return True
    mixed = mixed_sector_bond_operator(mpo)
    if mixed is not None:
        r.fail(f"fc17c.{tag}.qr_mixed_sector_label", f"bond labels invalid ({lv:.2e}) at {where}; bond operator {mixed[1]} of bond {mixed[0]} mixes "
                                                     f"quantum-number sectors (|factors| {mixed[2]}) {what}")
        r.classes.append("fc17c")
    else:
        r.fail(sig, f"bond labels invalid ({lv:.2e}) at {where} {what}")
    return False


def classify_swap_assert(e, case, mpo, kind):
    """signature of the two known ways try_swap_site dies with an AssertionError (None = something else).
    FC17a: an MPO built with the QR algorithm has bond operators that are linear combinations; a graph-algorithm swap treats
           them as opaque symbols and can leave a bond operator whose expansion cancels identically; the next swap to its left
           drops the all-zero rows and trips an assertion of swap_site (empty bond operator) or the row-count assertion of its
           self-check (default build = qr, default swap = Hopcroft-Karp, i.e. exactly what the OFS drivers use); with the
           self-check bypassed the swap would have been correct.
    FC17b: see qn_width_defect."""
    import traceback

    if not isinstance(e, AssertionError):
        return None
    last = traceback.extract_tb(e.__traceback__)[-1]
    # call site (not message text): an assertion of swap_site itself, or the row-count assertion of its self-check (innermost
    # frame check_swap_consistency; the rounding-level mismatch of C01's F15 is raised from numpy.testing frames instead),
    # with the precondition verified by the harness
    if last.filename.endswith("symbolic_mpo.py") and last.name in ("swap_site", "check_swap_consistency") \
            and cancelling_bond_operator(mpo) is not None:
        return f"fc17a.{kind}." + ("empty_bond_operator" if last.name == "swap_site" else "selfcheck_count_mismatch")
    if case.get("swap_jw") and is_dup_rows_assert(e) and qn_width_defect(mpo):
        return f"fc17b.{kind}.duplicate_primary_ops"
    return None


def f12_zone(case):
    return case.get("symbols") == "short" and bool(case.get("swap_jw"))


# ------------------------------------------------------------------------------------------------
# systems for the OFS runs
# ------------------------------------------------------------------------------------------------

@st.composite
def system_specs(draw, tier, evo_run=False):
    big = tier == "thorough"
    typ = draw(st.sampled_from(["qc", "qc", "qc", "spin", "vib"]))
    if typ == "qc":
        ints = draw(integral_specs(1 if evo_run else 2, 3))
        ints["hscale"] = 1.0
        ints["escale"] = draw(st.sampled_from([1.0, 0.3]))
        if ints["mode"] == "const":
            ints["mode"] = "dense"
        return {"type": "qc", "ints": ints, "conserve_qn": draw(st.booleans())}
    if typ == "spin":
        spec = draw(gen.model_specs(2 if evo_run else 3, 6, qn=draw(st.sampled_from([0, 1, 1])), kinds=["spin"], max_dim=64))
    else:
        spec = draw(gen.model_specs(3, 5 if big else 4, qn=1, kinds=["elec", "sho", "sho", "spin"], max_dim=128))
        for s in spec["sites"]:
            if s["k"] == "sho":
                s["nbas"] = min(max(s["nbas"], 2), 3)
                s["dvr"] = False
        if not any(s["k"] == "elec" for s in spec["sites"]):
            spec["sites"][draw(st.integers(0, len(spec["sites"]) - 1))] = {"k": "elec"}
    terms = draw(gen.hermitian_hamiltonian(spec, max_terms=5, real_only=draw(st.booleans())))
    return {"type": typ, "model": spec, "terms": terms}


class System:
    """library objects + dense reference of one OFS run"""

    def __init__(self, sysd, case, hnorm):
        self.ok = True
        self.fermi = False
        self.typ = sysd["type"]
        if self.typ == "qc":
            h, eri = make_integrals(sysd["ints"])
            K = len(h)
            n = 2 * K
            fock = Fock(n)
            H = fock.hamiltonian(h, eri)
            nrm = np.linalg.norm(H, 2)
            if nrm < 1e-12:
                self.ok = False
                return
            f = hnorm / nrm
            self.H = H * f
            self.basis, self.ops, _, _ = qc_terms(h * f, eri * f, False, sysd["conserve_qn"], case["symbols"])
            self.dims = [2] * n
            na, nb = fock.numbers()
            if sysd["conserve_qn"]:
                self.bq = np.stack([na, nb], axis=1)
            else:
                self.bq = np.zeros((2 ** n, 1), dtype=int)
            self.fermi = bool(case["swap_jw"])
            self.dofs = list(range(n))
            self.spec = None
        else:
            spec = sysd["model"]
            terms, H = scaled_terms(spec, sysd["terms"], hnorm)
            if terms is None:
                self.ok = False
                return
            self.H = H
            self.basis = gen.build_basis_list(spec)
            self.ops = build_ops(spec, terms)
            self.dims = gen.pdims(spec)
            self.bq = gen.basis_state_qn(spec)
            self.dofs = [gen.site_dofs(spec, i)[0] for i in range(len(spec["sites"]))]
            self.spec = spec
        self.n = len(self.dims)
        self.D = int(np.prod(self.dims))
        self.H = (self.H + self.H.conj().T) / 2
        self.dof_index = {d: i for i, d in enumerate(self.dofs)}
        secs = sorted({tuple(int(x) for x in row) for row in self.bq})
        # sectors in order of preference: first those with something to optimise / evolve, rotated by the drawn index
        rot = [secs[(case["q"] + k) % len(secs)] for k in range(len(secs))]
        self.sector_order = [s for s in rot if int(self.mask(s).sum()) >= 3] + [s for s in rot if int(self.mask(s).sum()) < 3]
        self.q = self.sector_order[0]

    def mask(self, q):
        return np.all(self.bq == np.asarray(q).reshape(1, -1), axis=1)

    def model(self):
        from renormalizer.model import Model

        return Model(list(self.basis), self.ops)

    def order_of(self, model):
        """permutation realised by a model: position p holds original site order[p]; None if it is not a permutation of the
        original basis sets"""
        try:
            order = [self.dof_index[b.dofs[0]] for b in model.basis]
        except (KeyError, IndexError):
            return None
        if sorted(order) != list(range(self.n)):
            return None
        if any(model.basis[p].nbas != self.dims[o] for p, o in enumerate(order)):
            return None
        return order

    def qarg(self):
        return np.array(self.q) if len(self.q) > 1 else int(self.q[0])

    def leak(self, v):
        v = np.asarray(v).reshape(-1)
        nrm = np.linalg.norm(v)
        return float(np.linalg.norm(v[~self.mask(self.q)]) / nrm) if nrm else 0.0


def ofs_config(case, M):
    from renormalizer.utils import CompressConfig, CompressCriteria, OFS

    ofs = getattr(OFS, case["ofs"]) if case["ofs"] is not None else None
    return CompressConfig(CompressCriteria.fixed, max_bonddim=M, ofs=ofs, ofs_swap_jw=bool(case["swap_jw"]) and ofs is not None)


def spy_swaps(mpo, sysm, log):
    """count the exchanges the library really performs on the operator (harness-side wrapper of the bound method)"""
    orig = mpo.try_swap_site

    def wrapped(new_model, swap_jw, *a, **k):
        before = [b.dofs for b in mpo.model.basis]
        out = orig(new_model, swap_jw, *a, **k)
        after = [b.dofs for b in mpo.model.basis]
        if before != after:
            log.append([i for i, (x, y) in enumerate(zip(before, after)) if x != y][0])
        return out

    mpo.try_swap_site = wrapped


# ------------------------------------------------------------------------------------------------
# strategy
# ------------------------------------------------------------------------------------------------

@st.composite
def cases(draw, tier):
    big = tier == "thorough"
    kind = draw(st.sampled_from(["qc", "qc", "qc", "swap", "swap", "swap", "gs", "gs", "gs", "evo", "evo", "evo"]))
    if kind == "qc":
        ints = draw(integral_specs(1, 4))
        return {"kind": "qc", "ints": ints, "stacked": draw(st.booleans()), "conserve_qn": draw(st.booleans()),
                "algo": draw(st.sampled_from(ALGOS)), "symbols": "short", "swap_jw": False}
    symbols = draw(st.sampled_from(["long", "long", "short"]))
    if kind == "swap":
        ints = draw(integral_specs(1, 4 if big else 3))
        n = 2 * ints["K"]
        nsw = draw(st.integers(1, 8))
        return {"kind": "swap", "ints": ints, "conserve_qn": draw(st.booleans()), "symbols": symbols,
                "swap_jw": draw(st.sampled_from([True, True, False])), "algo": draw(st.sampled_from(ALGOS)),
                "swap_algo": draw(st.sampled_from(ALGOS)), "swaps": [draw(st.integers(0, n - 2)) for _ in range(nsw)]}
    sysd = draw(system_specs(tier, evo_run=kind == "evo"))
    jw = sysd["type"] == "qc" and draw(st.integers(0, 3)) > 0
    if not jw:
        symbols = draw(st.sampled_from(["long", "short"]))
    c = {"kind": kind, "sys": sysd, "symbols": symbols if sysd["type"] == "qc" else "n/a", "swap_jw": jw,
         "ofs": draw(st.sampled_from(["ofs_s"] * 4 + ["ofs_ds"] * 3 + ["ofs_d"] * 2 + ["ofs_debug"])), "q": draw(st.integers(0, 50)),
         "rng": draw(st.integers(0, 10 ** 6)), "m0": draw(st.sampled_from([2, 3, 4, 8]))}
    if kind == "gs":
        lossless = draw(st.integers(0, 2)) > 0 and c["ofs"] != "ofs_d"
        nsw = draw(st.integers(2, 5))
        sched = []
        for k in range(nsw):
            M = BIG if lossless else draw(st.sampled_from([1, 2, 2, 3, 4, 6]))
            pct = 0 if k >= nsw - 2 else draw(st.sampled_from([0, 0.2, 0.5]))
            sched.append([M, pct])
        c.update(sched=sched, hnorm=draw(st.sampled_from([0.5, 1.0, 4.0])), algo=draw(st.sampled_from(["direct", "davidson"])),
                 lossless=lossless)
    else:
        lossless = c["ofs"] != "ofs_d" and draw(st.integers(0, 5)) > 0
        c.update(M=BIG if lossless else draw(st.sampled_from([2, 3, 4, 6])), lossless=lossless,
                 hdt=draw(st.sampled_from([1e-6, 0.03, 0.1, 0.2, 0.3])), nstep=draw(st.integers(1, 3)),
                 cplx=draw(st.booleans()), solver=draw(st.sampled_from(["krylov", "krylov", "RK45"])),
                 dm=(not jw) and draw(st.integers(0, 2)) == 0)
        if c["dm"]:
            c["hdt"] = 1e-6
            if c["ofs"] != "ofs_d":
                c.update(lossless=True, M=BIG)
    return c


# ------------------------------------------------------------------------------------------------
# the property
# ------------------------------------------------------------------------------------------------

class C17(Prop):
    id = "C17"
    rule = ("Hypothesis draws one of four case kinds. qc: symmetric h / 8-fold symmetric (pq|rs) on 1-4 spatial orbitals (dense, "
            "sparse masks, decoupled blocks, Hubbard, one-body only, two-body only, constant) -> int_to_h -> qc_model(stacked, "
            "conserve_qn) vs harness fermions (signed maps on bit strings); swap: 1-8 try_swap_site calls (swap_jw off/on, short "
            "and long symbols, 3 build x 3 swap algorithms); gs: optimize_mps(2site) with an OFS criterion in CompressConfig "
            "schedule entries on spin / vibronic(Model) / qc systems; evo: tdvp_ps2 steps with OFS. Non-trivial = qc: >=2 spatial "
            "orbitals with a non-zero two-electron part; swap: some exchanged pair carries ladder operators on both sites; "
            "gs/evo: at least one exchange was really performed")
    assumptions = ["fermion reference: c_j = (-1)^(occupied orbitals before j) on bit strings, site 0 most significant, bit 1 = "
                   "index 1 of BasisHalfSpin; H = sum h c+c + 1/2 sum (pq|rs) c+_ps c+_rt c_st c_qs; the convention reproduces "
                   "the repository's H6 FCI energy to 1e-9 (finite case, both tiers)",
                   "a sequence of fermionic swap gates depends on the final order only (sign = parity of the inversions among "
                   "occupied orbitals)",
                   "OFS runs put CompressConfig objects into the schedule (integer entries replace the config and disable OFS, "
                   "DESIGN par. 3.6); generic Model, never HolsteinModel; ofs_swap_jw only for qc models and pure states",
                   "StackedMpo has no try_swap_site: OFS is exercised with a flat Mpo only",
                   "tdvp_ps2 with OFS vs without OFS (same step) vs exact propagator: pure states start with full bonds and a lossless "
                   "limit (otherwise the two-site projection error O(dt) of long-range terms depends on the site order); allowance "
                   "0.5*steps*dt^3 for the second-order splitting when > 2 sites (C09's constant; measured residual here <= 1e-10, i.e. "
                   "the scheme is exact to solver accuracy with complete bond bases) + local solver (krylov 1e-6/site/step, IVP 3e-4/step); "
                   "density operators (MpDm.from_mps, small bonds) only with dt=1e-6 against the rigorous bound 2*n*||H||*t; truncating "
                   "runs: operator, permutation, sector, labels, bond limit only",
                   "optimize_mps: the returned state keeps the site order it had when it was captured, which may differ from the final "
                   "order of the in-place operator; each is un-permuted with its own order.  Lossless schedules: energies[-1] <= <H> of "
                   "the un-permuted returned state <= energies[-2]",
                   "known findings F12 / FC17a / FC17b / FC17c (see module docstring); C01's F15 (QR self-check refuses a correct swap) is "
                   "counted as rejected here"]

    known_matchers = {
        "F12": lambda spec, sig, msg: sig.startswith("f12.") and spec.get("symbols") == "short" and bool(spec.get("swap_jw")),
        "FC17a": lambda spec, sig, msg: sig.startswith("fc17a.") and sig.endswith(("empty_bond_operator", "selfcheck_count_mismatch"))
        and (spec.get("kind") in ("gs", "evo") or (spec.get("algo") == "qr" and spec.get("swap_algo") in ("Hopcroft-Karp", "Hungarian"))),
        "FC17c": lambda spec, sig, msg: sig.startswith("fc17c.") and sig.endswith("qr_mixed_sector_label")
        and (spec.get("kind") in ("gs", "evo") or "qr" in (spec.get("algo"), spec.get("swap_algo")))
        and bool(spec.get("conserve_qn", spec.get("sys", {}).get("conserve_qn", spec.get("sys", {}).get("type") != "qc"))),
        # F58 (C01): swaps mixing QR and a graph algorithm when physical factors are far from 1 (here: integrals scaled by <= 1e-9)
        "F58": lambda spec, sig, msg: spec.get("kind") == "swap" and (("qr" == spec.get("algo")) != ("qr" == spec.get("swap_algo")))
        and min(spec.get("ints", {}).get("hscale", 1.0), spec.get("ints", {}).get("escale", 1.0)) <= 1e-9
        and (sig.endswith(("empty_bond_operator", "selfcheck_count_mismatch")) or sig.startswith("swap.")),
        "FC17b": lambda spec, sig, msg: sig.startswith("fc17b.") and sig.endswith("duplicate_primary_ops") and bool(spec.get("swap_jw"))
        and bool(spec.get("conserve_qn", spec.get("sys", {}).get("conserve_qn"))),
    }

    def budget(self, tier):
        return dict(examples=2000, shards=16) if tier == "quick" else dict(examples=40000, shards=16)

    def strategy(self, tier):
        return cases(tier)

    def finite_cases(self, tier):
        return [{"kind": "h6", "symbols": "short", "swap_jw": False}]

    # ---------------------------------------------------------------------------------------------
    def run_case(self, case):
        r = Result()
        r.classes.append("kind." + case["kind"])
        try:
            getattr(self, "run_" + case["kind"])(case, r)
        except Exception as e:  # noqa
            sig, in_lib = lib_exception_sig(e)
            if not in_lib:
                raise
            import traceback

            r.fail(f"{case['kind']}.{sig}", "".join(traceback.format_exception(type(e), e, e.__traceback__))[-1500:])
        return r

    # ---- (a) qc_model vs independent fermions ----------------------------------------------------------
    def run_qc(self, case, r):
        from renormalizer.model import Model
        from renormalizer.mps import Mpo

        h, eri = make_integrals(case["ints"])
        K = len(h)
        n = 2 * K
        stacked, cq = case["stacked"], case["conserve_qn"]
        basis, terms, sh, aseri = qc_terms(h, eri, stacked, cq)
        fock = Fock(n)
        ref = fock.hamiltonian(h, eri)
        scale = int_scale(sh, aseri)
        tol = (1e-7 if case["algo"] == "qr" else 1e-10) * scale
        r.nontrivial = K >= 2 and bool(aseri.any())
        r.classes += [f"qc.K={K}", f"qc.mode.{case['ints']['mode']}", "qc.stacked" if stacked else "qc.flat",
                      "qc.qn" if cq else "qc.noqn", "qc.two_body" if aseri.any() else "qc.no_two_body"]
        groups = terms if stacked else [terms]
        if any(len(g) == 0 for g in groups) or not groups:
            r.rejected = "empty term list"
            return
        mpos = [Mpo(Model(list(basis), g), algo=case["algo"]) for g in groups]
        d = sum(np.asarray(m.todense()) for m in mpos)
        r.check_close("qc.dense", d, ref, tol, f"JW operator vs fermions (K={K}, stacked={stacked}, qn={cq}, {case['algo']})")
        r.check_close("qc.hermitian", d, d.conj().T, tol, "JW operator not Hermitian for symmetric integrals")
        na, nb = fock.numbers()
        for name, nd in (("N_alpha", na), ("N_beta", nb)):
            comm = d * nd[None, :] - nd[:, None] * d
            r.check_close(f"qc.commutes.{name}", comm, np.zeros_like(comm), tol * n, f"[H, {name}] != 0")
        # basis sets: two states, index 1 carries one electron of the orbital's spin
        for j, b in enumerate(basis):
            want = ([[0, 0], [1, 0]] if j % 2 == 0 else [[0, 0], [0, 1]]) if cq else [[0], [0]]
            r.check("qc.sigmaqn", b.nbas == 2 and np.array_equal(np.asarray(b.sigmaqn), np.array(want)),
                    f"orbital {j}: sigmaqn {np.asarray(b.sigmaqn).tolist()}")
        # QR construction: linear combinations with a relative rank cut of 1e-10 leave rounding-level entries (observed 2.5e-8
        # of the largest entry when the integrals span several decades) in positions the labels forbid; graph algorithms: exact
        lab_tol = 1e-6 if case["algo"] == "qr" else 1e-12
        for m in mpos:
            check_operator_labels(r, m, "qc.labels", lab_tol, "qc")
            r.check("qc.qntot", not np.any(np.asarray(m.qntot)), f"operator charge {m.qntot}")
        if cq and not stacked:
            # the labels are (N_alpha, N_beta): the left block of bond b changes the electron numbers by -label
            m = mpos[0]
            r.check("qc.label_width", all(np.asarray(q).shape[1] == 2 for q in m.qn), "labels are not (N_alpha, N_beta) pairs")

    # ---- (b) swap sequences --------------------------------------------------------------------------------
    def run_swap(self, case, r):
        from renormalizer.model import Model
        from renormalizer.mps import Mpo

        h, eri = make_integrals(case["ints"])
        K = len(h)
        n = 2 * K
        jw = bool(case["swap_jw"])
        basis, terms, sh, aseri = qc_terms(h, eri, False, case["conserve_qn"], case["symbols"])
        H0 = Fock(n).hamiltonian(h, eri)
        scale = int_scale(sh, aseri)
        qr = "qr" in (case["algo"], case["swap_algo"])
        tol = (1e-7 if qr else 1e-10) * scale
        lab_tol = 1e-6 if qr else 1e-12  # see run_qc
        zone = f12_zone(case)
        r.classes += [f"swap.K={K}", "swap.jw" if jw else "swap.nojw", f"swap.symbols.{case['symbols']}",
                      f"swap.algo.{case['swap_algo']}"] + (["swap.f12_zone"] if zone else [])
        mpo = Mpo(Model(list(basis), terms), algo=case["algo"])
        if not r.check_close("swap.initial", mpo.todense(), H0, tol, "operator before any swap"):
            return
        order = list(range(n))
        dims = [2] * n
        pairs = ladder_pairs(sh, aseri)
        for k, pos in enumerate(case["swaps"]):
            a, b = order[pos], order[pos + 1]
            order[pos], order[pos + 1] = b, a
            both = bool(pairs[a, b])
            if both:
                r.nontrivial = True
                r.classes.append("swap.both_ladder")
            new_model = Model([basis[o] for o in order], terms)
            try:
                mpo.try_swap_site(new_model, swap_jw=jw, algo=case["swap_algo"])
                d = np.asarray(mpo.todense())
            except AssertionError as e:
                import traceback

                known = classify_swap_assert(e, case, mpo, "swap")
                sig, in_lib = lib_exception_sig(e)
                if not known and in_lib and sig.endswith("check_swap_consistency") and qr:
                    # C01's known finding F15: the library's own self-check (assert_allclose rtol 1e-8 / rows above 1e-10 of the
                    # largest) is stricter than the QR cuts (QR swap, or graph swap of a QR-built operator whose bond operators
                    # carry rounding-level members); nothing was modified.  As in C01: repeat with the self-check disabled; if the
                    # operator is right the refusal is F15 (counted as rejected), otherwise it is a failure.
                    from renormalizer.mps import symbolic_mpo as _sm

                    saved = _sm.check_swap_consistency
                    _sm.check_swap_consistency = lambda *a, **k: None
                    try:
                        mpo.try_swap_site(new_model, swap_jw=jw, algo=case["swap_algo"])
                        d = np.asarray(mpo.todense())
                    finally:
                        _sm.check_swap_consistency = saved
                    if r.check_close("swap.refused_and_wrong", d, op_forward(H0, transform(dims, order, False)), tol,
                                     f"self-check refused swap {k} at {pos} and the operator is wrong without it"):
                        r.rejected = "check_swap_consistency refused a correct swap with QR involved (C01/F15)"
                    return
                if known:
                    r.fail(known, f"try_swap_site died at swap {k} (position {pos}) of {case['swaps']} (build {case['algo']}, swap "
                                  f"{case['swap_algo']}, swap_jw={jw}, symbols={case['symbols']}, qn_size={mpo.model.qn_size}): {e!r}")
                    r.classes.append(known.split(".")[0])
                    return
                raise
            want_p = op_forward(H0, transform(dims, order, False))
            want_f = op_forward(H0, transform(dims, order, True))
            want = want_f if jw else want_p
            what = f"after swap {k} at {pos} (order {order}, swap_jw={jw}, symbols={case['symbols']}, algo={case['swap_algo']})"
            if zone:
                err_f = float(np.max(np.abs(d - want_f)))
                if err_f > tol:
                    if r.check_close("swap.jw_short.neither_permuted_nor_jw", d, want_p, tol, "short symbols: " + what):
                        r.fail("f12.swap.short_symbols_only_permuted",
                               f"swap_jw=True on a qc_model operator ('+ - Z'): result is the plain leg permutation, |d - F H F+| = "
                               f"{err_f:.3e} (tol {tol:.1e}) " + what)
                    check_operator_labels(r, mpo, "swap.labels", lab_tol, "swap", what)
                    break
                r.resid("swap.jw", err_f, tol)
            elif not r.check_close("swap.jw" if jw else "swap.permutation", d, want, tol, what):
                break
            if jw and np.max(np.abs(want_f - want_p)) > tol:
                r.classes.append("swap.sign_matters")
            if not check_operator_labels(r, mpo, "swap.labels", lab_tol, "swap", what):
                break
            r.check("swap.model", [bb.dofs[0] for bb in mpo.model.basis] == order, "mpo.model is not the new model")

    # ---- (c1) OFS inside optimize_mps ------------------------------------------------------------------------
    def _prepare(self, case, r, hnorm):
        from renormalizer.mps import Mps, Mpo

        sysm = System(case["sys"], case, hnorm)
        if not sysm.ok:
            r.rejected = "zero Hamiltonian"
            return None
        model = sysm.model()
        # Mps.random divides by a zero norm when the bond limit is too small for the sector (DESIGN par. 3.2): take the next
        # larger limit instead of rejecting the case
        m_first = 64 if case["kind"] == "evo" and case["lossless"] else case["m0"]
        mps = None
        for q_try in sysm.sector_order[:4]:
            sysm.q = q_try
            for m_try in [m_first] + [m for m in (8, 16, 64) if m > m_first]:
                np.random.seed(case["rng"])
                try:
                    cand = Mps.random(model, sysm.qarg(), m_try, percent=1.0)
                    d0 = cand.todense()
                    if not np.all(np.isfinite(d0)) or np.linalg.norm(d0) == 0:
                        raise FloatingPointError
                    mps = cand
                    break
                except (FloatingPointError, ZeroDivisionError, ValueError, AssertionError, IndexError):
                    continue
            if mps is not None:
                break
        if mps is None:
            r.rejected = "Mps.random cannot reach any of the first four sectors with any bond limit"
            return None
        self._m_used = m_try
        mpo = Mpo(model)
        err0 = float(np.max(np.abs(np.asarray(mpo.todense()) - sysm.H)))
        if not r.check("ofs.initial_mpo", err0 <= 1e-7 * hnorm, f"operator before the run differs from the dense reference by {err0:.2e}"):
            return None
        r.classes += [f"sys.{sysm.typ}", f"ofs.{case['ofs']}", "ofs.jw" if case["swap_jw"] else "ofs.nojw", f"sites={sysm.n}"]
        if sysm.typ == "qc":
            r.classes.append(f"ofs.symbols.{case['symbols']}")
        if f12_zone(case):
            r.classes.append("ofs.f12_zone")
        return sysm, model, mps, mpo

    def _check_mpo(self, case, r, sysm, mpo, tag, tol):
        """in-place re-ordered operator == original operator in the new order (F for JW).  Returns the order or None."""
        order = sysm.order_of(mpo.model)
        if not r.check(f"{tag}.mpo_model_permutation", order is not None,
                       f"mpo.model is not a permutation of the sites: {[b.dofs for b in mpo.model.basis]}"):
            return None
        d = np.asarray(mpo.todense())
        want = op_forward(sysm.H, transform(sysm.dims, order, sysm.fermi))
        r.check_close(f"{tag}.mpo_spectrum", np.linalg.eigvalsh((d + d.conj().T) / 2), np.linalg.eigvalsh(sysm.H), tol,
                              f"spectrum of the re-ordered operator (order {order})")
        if f12_zone(case):
            err = float(np.max(np.abs(d - want)))
            if err > tol:
                want_p = op_forward(sysm.H, transform(sysm.dims, order, False))
                if r.check_close(f"{tag}.jw_short.mpo_neither_permuted_nor_jw", d, want_p, tol, f"order {order}"):
                    r.fail(f"f12.{tag}.mpo_only_permuted", f"ofs_swap_jw=True on a qc_model operator: in-place MPO is the plain permutation, "
                                                           f"|d - F H F+| = {err:.3e} (order {order})")
        else:
            r.check_close(f"{tag}.mpo_reordered", d, want, tol, f"in-place operator vs original in order {order} (jw={sysm.fermi})")
        # the operator of an OFS run is built with the default algorithm (qr): see run_qc
        check_operator_labels(r, mpo, f"{tag}.mpo_labels", 1e-6, tag, f"(order {order})")
        return order

    def run_gs(self, case, r):
        from renormalizer.mps.gs import optimize_mps

        hn = case["hnorm"]
        prep = self._prepare(case, r, hn)
        if prep is None:
            return
        sysm, model, mps, mpo = prep
        zone = f12_zone(case)
        pre = "f12." if zone else ""
        if mpo.is_complex:
            mps = mps.to_complex()
        mps.optimize_config.procedure = [[ofs_config(case, M), pct] for M, pct in case["sched"]]
        mps.optimize_config.method = "2site"
        mps.optimize_config.algo = case["algo"]
        mps.optimize_config.nroots = 1
        log = []
        spy_swaps(mpo, sysm, log)
        np.random.seed(case["rng"] + 1)
        try:
            energies, res = optimize_mps(mps, mpo)
        except AssertionError as e:
            known = classify_swap_assert(e, case, mpo, "gs")
            if known:
                r.fail(known, f"optimize_mps with OFS ({case['ofs']}, swap_jw={case['swap_jw']}) died in try_swap_site after swaps {log}: {e!r}")
                r.classes.append(known.split(".")[0])
                return
            raise
        nsw = len(log)
        r.classes.append("gs.swapped" if nsw else "gs.no_swap")
        r.classes.append("gs.lossless" if case["lossless"] else "gs.truncating")
        if nsw:
            r.classes.append(f"gs.swapped.{case['ofs']}.{sysm.typ}")
        r.nontrivial = nsw > 0
        r.check("gs.debug_never_swaps", not (case["ofs"] == "ofs_debug" and nsw), f"OFS-Debug performed {nsw} exchanges")
        tol = 1e-8 * max(hn, 1.0)
        order_mpo = self._check_mpo(case, r, sysm, mpo, "gs", 1e-7 * hn)
        order_st = sysm.order_of(res.model)
        if not r.check("gs.state_model_permutation", order_st is not None,
                       f"returned model is not a permutation of the sites: {[b.dofs for b in res.model.basis]}"):
            return
        if order_mpo is not None and order_st != order_mpo:
            r.classes.append("gs.state_order_differs_from_mpo")
        # variational bound of every reported energy (the re-ordered operator is isospectral)
        mask = sysm.mask(sysm.q)
        Hs = sysm.H[np.ix_(mask, mask)]
        exact = np.linalg.eigvalsh((Hs + Hs.conj().T) / 2)
        ev = np.array([float(np.real(e)) for e in energies])
        viol = float(exact[0] - ev.min())
        r.resid("gs.variational_violation", viol, tol)
        r.check("gs.variational_bound", viol <= tol, f"reported {ev.tolist()} below exact {exact[0]} in sector {sysm.q}")
        # returned state
        v = chain.tensors_dense(res)
        r.check_close("gs.state_norm", np.linalg.norm(v), 1.0, 1e-8, "norm of the returned state")
        dims_new = [sysm.dims[o] for o in order_st]
        r.check("gs.state_shape", list(res.pbond_list) == dims_new, f"physical dimensions {list(res.pbond_list)} vs {dims_new}")
        v0 = vec_back(v, transform(sysm.dims, order_st, sysm.fermi))
        leak = sysm.leak(v0)
        r.resid("gs.sector_leak", leak, 1e-9)
        r.check("gs.state_sector", leak <= 1e-9, f"weight {leak:.2e} outside sector {sysm.q}")
        r.check("gs.state_qntot", tuple(int(x) for x in np.atleast_1d(res.qntot)) == tuple(sysm.q), f"qntot {res.qntot} vs {sysm.q}")
        lv, where = chain.label_violation(res)
        r.check("gs.state_labels", lv <= 1e-10, f"state labels invalid ({lv:.2e}) at {where}")
        e_state = float(np.real(v0.conj() @ (sysm.H @ v0)) / max(np.linalg.norm(v0) ** 2, 1e-300))
        r.check("gs.state_energy_variational", e_state >= exact[0] - tol, f"<H> of the un-permuted state {e_state} below exact {exact[0]}")
        if case["lossless"] and len(ev) >= 2:
            # no truncation: every local minimisation lowers the energy, the returned state is the one of the first step of the
            # last sweep: energies[-1] <= <H> <= energies[-2]
            etol = 1e-7 * max(hn, 1.0)
            lo, hi = ev[-1], ev[-2]
            r.resid(pre + "gs.state_energy_window", max(lo - e_state, e_state - hi, 0.0), etol)
            r.check(pre + "gs.state_energy_window", lo - etol <= e_state <= hi + etol,
                    f"un-permuted returned state has <H>={e_state!r}, outside [{lo!r}, {hi!r}] (orders state {order_st} mpo {order_mpo}, "
                    f"jw={sysm.fermi}, swaps {log})")
            r.check(pre + "gs.monotone", all(ev[k] <= ev[k - 1] + etol for k in range(1, len(ev))), f"sweep minima increase without truncation: {ev.tolist()}")
        if order_mpo is not None and order_st == order_mpo and not zone:
            ex = res.expectation(mpo)
            r.check_close("gs.expectation_inplace_mpo", ex, e_state, 1e-8 * max(hn, 1.0), "res.expectation(re-ordered mpo) vs dense <H> of the un-permuted state")

    # ---- (c2) OFS inside tdvp_ps2 ----------------------------------------------------------------------------------
    def run_evo(self, case, r):
        from renormalizer.mps import Mps, Mpo, MpDm

        prep = self._prepare(case, r, 1.0)
        if prep is None:
            return
        sysm, model, mps, mpo = prep
        zone = f12_zone(case)
        pre = "f12." if zone else ""
        if case["cplx"]:
            np.random.seed(case["rng"] + 7)
            try:
                other = Mps.random(model, sysm.qarg(), self._m_used, percent=1.0)
                mps = mps.add(other.scale(1j))
                mps.scale(1.0 / mps.mp_norm, inplace=True)
            except (FloatingPointError, ZeroDivisionError, ValueError, AssertionError, IndexError):
                pass
        mps.ensure_left_canonical()
        mps.ensure_right_canonical()
        use_dm = bool(case["dm"]) and sysm.D <= 32
        if use_dm:
            mps = MpDm.from_mps(mps)
        psi0 = chain.dense_of(mps)
        nrm = float(np.linalg.norm(psi0))
        dt = case["hdt"]
        nstep = case["nstep"]
        scheme = {"kind": "tdvp_ps2", "solver": case["solver"]}
        M = case["M"]
        r.classes += ["evo.lossless" if case["lossless"] else "evo.truncating", f"evo.hdt={dt}", f"evo.{case['solver']}"]

        def run(with_ofs, mpo_x):
            x = mps.copy()
            x.evolve_config = evo.make_evolve_config(scheme)
            x.compress_config = ofs_config(case if with_ofs else dict(case, ofs=None), M)
            outs = []
            for _ in range(nstep):
                x = x.evolve(mpo_x, dt)
                outs.append(x)
            return outs

        log = []
        spy_swaps(mpo, sysm, log)
        try:
            outs = run(True, mpo)
        except AssertionError as e:
            known = classify_swap_assert(e, case, mpo, "evo")
            if known:
                r.fail(known, f"evolve(tdvp_ps2) with OFS ({case['ofs']}, swap_jw={case['swap_jw']}) died in try_swap_site after swaps {log}: {e!r}")
                r.classes.append(known.split(".")[0])
                return
            raise
        new = outs[-1]
        nsw = len(log)
        r.classes.append("evo.swapped" if nsw else "evo.no_swap")
        if use_dm:
            r.classes.append(("evo.mpdm.swapped" if nsw else "evo.mpdm.no_swap") + (".lossless" if case["lossless"] else ".truncating"))
        if nsw:
            r.classes.append(f"evo.swapped.{case['ofs']}.{sysm.typ}")
        r.nontrivial = nsw > 0
        r.check("evo.debug_never_swaps", not (case["ofs"] == "ofs_debug" and nsw), f"OFS-Debug performed {nsw} exchanges")
        order = self._check_mpo(case, r, sysm, mpo, "evo", 1e-7)
        order_st = sysm.order_of(new.model)
        if not r.check("evo.state_model_permutation", order_st is not None,
                       f"returned model is not a permutation of the sites: {[b.dofs for b in new.model.basis]}"):
            return
        r.check("evo.state_order_is_mpo_order", order is None or order == order_st, f"state order {order_st} vs operator order {order}")
        r.check("evo.state_shape", list(new.pbond_list) == [sysm.dims[o] for o in order_st], f"physical dimensions {list(new.pbond_list)}")
        tr = transform(sysm.dims, order_st, sysm.fermi)
        got = vec_back(chain.dense_of(new), tr)
        r.check_close("evo.norm", np.linalg.norm(got), nrm, 1e-8 * nrm, "norm after real-time evolution (normalize=True)")
        if not use_dm:
            leak = sysm.leak(got)
            r.resid("evo.sector_leak", leak, 1e-8)
            r.check("evo.sector", leak <= 1e-8, f"weight {leak:.2e} outside sector {sysm.q}")
            lv, where = chain.label_violation(new)
            r.check("evo.state_labels", lv <= 1e-10, f"state labels invalid ({lv:.2e}) at {where}")
        if not case["lossless"]:
            r.check("evo.bond_limit", max(new.bond_dims) <= M, f"bond dimensions {list(new.bond_dims)} exceed the limit {M}")
            return
        # ---- lossless: OFS run == run without OFS == exact propagator ----
        ref_outs = run(False, Mpo(sysm.model()))
        ref = chain.dense_of(ref_outs[-1])
        t = dt * nstep
        exact = evo.expm_apply(sysm.H, psi0, -1j * t)
        # tdvp_ps2 is a second-order splitting: even when the bonds hold the state, a step carries an error O((||H||dt)^3)
        # for more than two sites (constant <= 0.05 measured in C09, allowance 0.5); the initial state has full bonds
        # (otherwise the two-site projection error O(dt) of long-range terms dominates and depends on the site order)
        sv = case["solver"]
        # local solver: krylov observed <= 1e-13 (allowance 1e-6 per site and step); IVP solvers at ivp_rtol=1e-9 as calibrated in C09
        tol_solver = (1e-6 * sysm.n if sv == "krylov" else 3e-4) * nstep * nrm * max(1.0, t)
        split = 0.0 if sysm.n <= 2 else 0.5 * nstep * dt ** 3 * nrm
        # "full bonds" is verified, not assumed (Mps.random gives product states in some sectors): every bond of the initial
        # state must be as large as the Schmidt rank of a generic vector of the sector
        sufficient = not use_dm
        if sufficient and sysm.n > 2:
            g = np.random.default_rng(case["rng"]).standard_normal(sysm.D) * sysm.mask(sysm.q)
            full = evo.schmidt_ranks(g, sysm.dims)
            sufficient = all(int(b) >= f for b, f in zip(list(mps.bond_dims)[1:-1], full))
        r.classes.append("evo.full_bonds" if sufficient else "evo.small_bonds")
        if not sufficient:
            # MpDm.from_mps (bonds of the pure state) or a state with incomplete bonds: the projected dynamics is not the exact
            # one.  Rigorous bound instead: every sub-step moves the state by at most ||H|| dt/2 and a step has 2(2n-3) of them;
            # sharp enough to see a wrong leg permutation / sign (O(1)) for the dt = 1e-6 runs, not used for larger steps.
            split = 2.0 * sysm.n * t * nrm
        what = f"(dt={dt}, steps={nstep}, sites={sysm.n}, order {order_st}, jw={sysm.fermi}, swaps {log}, dm={use_dm}, {sv}, full={sufficient})"
        if sufficient or t <= 1e-4:
            r.check_close(f"evo.reference_vs_exact.{sv}", ref, exact, tol_solver + split, "run without OFS vs exact propagator " + what)
            r.check_close(pre + f"evo.ofs_vs_exact.{sv}", got, exact, tol_solver + split, "OFS run (un-permuted) vs exact propagator " + what)
            r.check_close(pre + f"evo.ofs_vs_plain.{sv}", got, ref, 2 * (tol_solver + split), "OFS run (un-permuted) vs run without OFS, same step " + what)
            if nsw:
                r.classes.append("evo.swapped_and_compared")
        else:
            r.classes.append("evo.energy_only")
        if not use_dm:
            e0 = float(np.real(psi0.conj() @ (sysm.H @ psi0)))
            e1 = float(np.real(got.conj() @ (sysm.H @ got)))
            e2 = float(np.real(ref.conj() @ (sysm.H @ ref)))
            r.resid(f"evo.reference_energy_conservation.{sv}", abs(e2 - e0), tol_solver * 2)
            r.check(f"evo.reference_energy_conservation.{sv}", abs(e2 - e0) <= tol_solver * 2, f"run without OFS: <H> changed from {e0!r} to {e2!r} " + what)
            etol = tol_solver * 2
            r.resid(pre + f"evo.energy_conservation.{sv}", abs(e1 - e0), etol)
            r.check(pre + f"evo.energy_conservation.{sv}", abs(e1 - e0) <= etol, f"<H> changed from {e0!r} to {e1!r} " + what)

    # ---- finite case: the repository's own reference data -------------------------------------------------------------
    def run_h6(self, case, r):
        from renormalizer.model import h_qc, Model
        from renormalizer.mps import Mpo
        import renormalizer.mps.tests as T

        path = os.path.join(os.path.dirname(T.__file__), "H6.txt")
        if not os.path.exists(path):
            r.rejected = "H6.txt not present"
            return
        K = 6
        h = np.zeros((K, K))
        eri = np.zeros((K,) * 4)
        nuc = 0.0
        for line in open(path).read().splitlines()[4:]:
            s = line.split()
            v = float(s[0])
            p, q, a, b = [int(x) - 1 for x in s[1:]]
            if a >= 0:
                for i, j, k, l in ((p, q, a, b), (q, p, a, b), (p, q, b, a), (q, p, b, a), (a, b, p, q), (b, a, p, q), (a, b, q, p), (b, a, q, p)):
                    eri[i, j, k, l] = v
            elif p >= 0:
                h[p, q] = h[q, p] = v
            else:
                nuc = v
        fock = Fock(2 * K)
        na, nb = fock.numbers()
        mask = (na == 3) & (nb == 3)
        H = fock.hamiltonian(h, eri)
        e0 = float(np.linalg.eigvalsh(H[np.ix_(mask, mask)])[0])
        # stored reference of renormalizer/mps/tests/test_gs.py::test_qc
        r.check_close("h6.harness_convention_vs_stored_fci", e0, -3.23747673055271 - nuc, 1e-9, "harness fermions vs stored FCI energy")
        sh, aseri, nuc2 = h_qc.read_fcidump(path, K)
        basis, terms = h_qc.qc_model(sh, aseri)
        d = np.asarray(Mpo(Model(basis, terms)).todense())
        r.check_close("h6.dense", d, H, 1e-7 * int_scale(sh, aseri), "qc_model(read_fcidump(H6)) vs harness fermions")
        r.nontrivial = True

    def sample_view(self, case):
        out = {k: v for k, v in case.items() if k not in ("sys",)}
        if "sys" in case:
            s = case["sys"]
            out["sys"] = {"type": s["type"], "ints": s.get("ints"),
                          "sites": [x["k"] for x in s["model"]["sites"]] if "model" in s else None,
                          "n_terms": len(s["terms"]) if "terms" in s else None}
        return out


PROP = C17()

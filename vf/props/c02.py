"""C02 — TTNO construction is exact and independent of the tree topology."""
import numpy as np
from hypothesis import strategies as st

from vf.core import Prop, Result, lib_exception_sig
from vf import gen
from vf import tree as T

ALGOS = ["qr", "Hopcroft-Karp"]
TOL = {"qr": 1e-7, "Hopcroft-Karp": 1e-9}


@st.composite
def cases(draw, tier):
    big = tier == "thorough"
    mode = draw(st.sampled_from(["plain", "plain", "charged"]))
    qn = draw(st.sampled_from([1, 1, 2])) if mode == "charged" else None
    m = draw(T.tree_model_specs(2 if draw(st.integers(0, 7)) else 1, 7 if big else 6, qn=qn, max_dim=256))
    n = len(m["sites"])
    if mode == "charged":
        terms, q = draw(gen.charged_operator(m, max_terms=6 if not big else 12, real_only=True, decades=2))
        flags, charge = ["charged"], list(q)
    else:
        terms, flags = draw(gen.term_tables(m, 1, 10 if not big else 30, real_only=True))
        charge = None
    g = draw(st.sampled_from([1.0, 1.0, 1.0, 1.0, 1e-12, 1e-9, 1e6]))
    if g != 1.0:
        # overall scale of the operator (hyperfine-size couplings / other units): exactness is relative to the operator's own scale
        terms = [dict(t, f=[t["f"][0] * g, t["f"][1] * g]) for t in terms]
        flags = list(flags) + [f"global_scale_{g:g}"]
    return {"model": m, "terms": terms, "flags": flags, "charge": charge,
            "topo": draw(T.topologies(m)), "topo2": draw(T.topologies(m)),
            "single_op": draw(st.booleans())}


def constructor_checks(r, ctx, topo, tag):
    """(iv) and what the constructor docstrings promise about the shape of the tree"""
    from renormalizer.model.basis import BasisDummy

    tree = ctx.tree
    bl = ctx.bl
    lst = tree.basis_list
    nd = [b for b in lst if not isinstance(b, BasisDummy)]
    r.check(f"ctor.{tag}.basis_once", sorted(id(b) for b in nd) == sorted(id(b) for b in bl),
            f"non-dummy basis sets of the tree {[b.dofs for b in nd]} vs input {[b.dofs for b in bl]}")
    r.check(f"ctor.{tag}.dummies", all(b.nbas == 1 for b in lst if isinstance(b, BasisDummy)) and ctx.unknown_sets == 0,
            "virtual basis set with dimension != 1 / foreign basis set")
    dofs = [d for b in bl for d in b.dofs]
    td = [d for d in tree.dof_list if d in set(dofs)]
    r.check(f"ctor.{tag}.dof_once", sorted(map(repr, td)) == sorted(map(repr, dofs)), f"dof_list {tree.dof_list}")
    r.check(f"ctor.{tag}.preorder", [id(x) for x in tree.node_list] == [id(x) for x in ctx.bnodes], "node_list is not the preorder")
    r.check(f"ctor.{tag}.postorder", sorted(id(b) for b in tree.basis_list_postorder) == sorted(id(b) for b in lst), "postorder list")
    c = topo.get("ctor")
    ar = [len(ni.children) for ni in ctx.nodes]
    if c == "linear":
        order = [s for ni in ctx.nodes for s in ni.sets]
        r.check("ctor.linear.shape", max(ar) <= 1 and order == list(range(ctx.n)) and all(len(ni.sets) == 1 for ni in ctx.nodes),
                f"arities {ar}, order {order}")
    elif c == "binary":
        r.check("ctor.binary.shape", max(ar) <= 2 and ctx.N == ctx.n and ctx.nodes[0].sets == [0], f"arities {ar}")
    elif c == "general_mctdh":
        k = topo.get("tree_order", 2)
        phys_internal = [ni.idx for ni in ctx.nodes if ni.children and any(s is not None for s in ni.sets)]
        r.check("ctor.mctdh.shape", max(ar) <= k and not phys_internal and ctx.is_dummy_node(0),
                f"arities {ar} (order {k}), physical internal nodes {phys_internal}")
        if not topo.get("contract_primitive"):
            r.check("ctor.mctdh.leaf_size", all(len(ni.sets) <= k for ni in ctx.nodes), "leaf with more than tree_order basis sets")
        elif topo.get("contract_label") is None:
            r.check("ctor.mctdh.contracted", all(len(ni.sets) == 1 for ni in ctx.nodes), "contract_primitive: one basis per node")
    elif c == "t3ns":
        r.check("ctor.t3ns.shape", max(ar) <= 3 and ctx.is_dummy_node(0) and all(len(ni.sets) == 1 for ni in ctx.nodes) and
                all(len(ni.children) + (ni.parent >= 0) <= 3 for ni in ctx.nodes), f"arities {ar}")


def shape_checks(r, ctx, ttno, sig):
    nl = list(ttno.node_list)
    if not r.check(f"{sig}.nodes", len(nl) == ctx.N, f"{len(nl)} tensors for {ctx.N} nodes"):
        return False
    ok = True
    for i, node in enumerate(nl):
        ni = ctx.nodes[i]
        t = np.asarray(node.tensor)
        want_rank = len(ni.children) + 2 * len(ni.sets) + 1
        good = t.ndim == want_rank
        if good:
            k = len(ni.children)
            phys = [d for d in ni.pd for _ in (0, 1)]
            good = list(t.shape[k:-1]) == phys and all(t.shape[j] == nl[c].tensor.shape[-1] for j, c in enumerate(ni.children))
            good = good and np.asarray(node.qn).shape == (t.shape[-1], ctx.qs)
            good = good and [id(x) for x in node.children] == [id(nl[c]) for c in ni.children]
        ok = r.check(f"{sig}.node_shape", good, f"node {i}: shape {t.shape}, children {ni.children}, physical dims {ni.pd}") and ok
        r.check(f"{sig}.real", not np.iscomplexobj(t), "complex tensor")
    r.check(f"{sig}.root_bond", nl[0].tensor.shape[-1] == 1, f"root parent bond {nl[0].tensor.shape[-1]}")
    return ok


class C02(Prop):
    id = "C02"
    rule = ("Hypothesis draws a basis list (1-6 sets over spin / electron / SHO / sine-DVR / hops / multi-electron kinds, no / one / two "
            "quantum numbers), a real term table with the C01 structure knobs (or a charge-definite operator for models with quantum "
            "numbers) and two independent rooted trees over it: constructors linear / binary / general_mctdh(order 2-3, "
            "contract_primitive, contract_label, binary_/ternary_ aliases) / t3ns, or a random tree (1-3 basis sets per node, 0-2 "
            "dummy nodes anywhere, random parent, arity <= 4, random children order, single-node trees). Both trees x {qr, "
            "Hopcroft-Karp}. Non-trivial = some tree has >= 2 nodes and (a node with >= 2 children or >= 2 basis sets or a dummy node)")
    assumptions = ["real operators only (TTNO asserts real, DESIGN §3.7); local matrices from BasisSet.op_mat (C16's subject)",
                   "an identically vanishing operator is refused by the library (as by Mpo): counted as rejected",
                   "general_mctdh / t3ns create their virtual basis sets with one quantum-number component: used for qn_size 1 only",
                   "tolerance 1e-9*scale (Hopcroft-Karp, scale = sum |c_k| prod ||local||), 1e-7*scale_qr (QR rank/entry cut 1e-10 relative to the "
                   "largest factor of the table: scale_qr = max(scale, sum |c_k| * max_k prod ||local||))",
                   "label predicate for operators (sum of children labels + sigma_up - sigma_down = node label) only for "
                   "charge-definite operators"]
    known_matchers = {
        # multi-basis node [.., boson, spin, boson, ..] and a term with b^dagger (first boson) x '+' (spin) x b.. (second boson)
        "F41": lambda spec, sig, msg: sig == "build.ambiguous_symbol_join" and
        any(o[1] == "+" for t in spec["terms"] for o in t["ops"]) and
        sum(s["k"] == "sho" for s in spec["model"]["sites"]) >= 2,
    }

    def budget(self, tier):
        return dict(examples=1200, shards=16) if tier == "quick" else dict(examples=40000, shards=16)

    def strategy(self, tier):
        return cases(tier)

    def finite_cases(self, tier):
        """constructors on 7-13 basis sets (beyond the sizes a dense comparison allows): structural promises only"""
        out = []
        for n in range(7, 14):
            for topo in ({"ctor": "linear"}, {"ctor": "binary"}, {"ctor": "t3ns"},
                         {"ctor": "general_mctdh", "tree_order": 2, "contract_primitive": False, "contract_label": None},
                         {"ctor": "general_mctdh", "tree_order": 3, "contract_primitive": True, "contract_label": None}):
                out.append({"structure_only": True, "model": {"names": 0, "sites": [{"k": "spin"} for _ in range(n)], "qnmode": 0}, "topo": topo})
        return out

    def run_case(self, case):
        from renormalizer.tn import TTNO
        from renormalizer.model import OpSum

        r = Result()
        if case.get("structure_only"):
            m = case["model"]
            bl = gen.build_basis_list(m)
            try:
                ctx = T.build({"model": m, "topo": case["topo"]}, bl, "a")
            except Exception as e:  # noqa
                sig, in_lib = lib_exception_sig(e)
                if not in_lib:
                    raise
                r.fail(f"ctor.{case['topo'].get('ctor')}.{sig}", f"{e!r} n={len(bl)}")
                return r
            constructor_checks(r, ctx, case["topo"], case["topo"].get("ctor", "random"))
            r.classes = [f"structure_only.sites={len(bl)}", "ctor=" + case["topo"]["ctor"]]
            r.nontrivial = True
            return r
        m = case["model"]
        terms = case["terms"]
        bl = gen.build_basis_list(m)
        ref, scale = gen.dense_operator(m, terms, 0.0, bl)
        ctxs = []
        for tag, key in (("a", "topo"), ("b", "topo2")):
            try:
                ctx = T.build({"model": m, "topo": case[key]}, bl, tag)
            except Exception as e:  # noqa
                sig, in_lib = lib_exception_sig(e)
                if not in_lib:
                    raise
                r.fail(f"ctor.{case[key].get('ctor', 'random')}.{sig}", repr(e))
                return r
            ctxs.append(ctx)
            constructor_checks(r, ctx, case[key], case[key].get("ctor", "random"))
        cl = set()
        for ctx, key in zip(ctxs, ("topo", "topo2")):
            cl |= set(ctx.shape_classes())
            cl.add("ctor=" + case[key].get("ctor", "random"))
        r.classes = sorted(cl) + [f"sites={len(bl)}", f"qn={m.get('qnmode')}"] + [f"knob.{f}" for f in case["flags"]]
        if np.linalg.norm(ref) <= 1e-12 * scale:
            r.rejected = "operator is identically zero (everything cancels)"
            return r
        r.nontrivial = any(c.nontrivial() for c in ctxs)

        def ops():
            o = T.build_ops(m, terms)
            if len(o) == 1 and case.get("single_op"):
                return o[0]
            if case.get("single_op"):
                return OpSum(o)
            return o

        scales = {"qr": T.qr_scale(m, terms, bl, scale), "Hopcroft-Karp": scale}
        for algo in ALGOS:
            scale = scales[algo]
            dense = []
            for tag, ctx in zip("ab", ctxs):
                try:
                    ttno = TTNO(ctx.tree, ops(), algo=algo)
                    got = T.ttno_dense(ctx, ttno)
                except Exception as e:  # noqa
                    sig, in_lib = lib_exception_sig(e)
                    if not in_lib:
                        raise
                    if isinstance(e, (AssertionError, ValueError)) and sig.endswith("@op.py:__init__") and T.ambiguous_join(ctx, terms):
                        r.fail("build.ambiguous_symbol_join", f"tree {tag}: {e!r}: the symbols of three basis sets of one node (boson, spin, "
                               f"boson) were joined to '... b^\\dagger + b ...', which Op parses as the single symbol 'b^\\dagger + b'")
                    else:
                        r.fail(f"build.{algo}.{sig}", f"tree {tag}: {e!r}")
                    dense.append(None)
                    continue
                dense.append(got)
                r.check_close(f"dense.{algo}", got, ref, TOL[algo] * scale, f"TTNO(tree {tag}).todense(order=basis list), algo={algo}")
                if shape_checks(r, ctx, ttno, f"shape.{algo}"):
                    try:
                        raw = T.contract_raw(ctx, ttno, operator=True)
                        r.check_close(f"raw_contraction.{algo}", raw, ref, TOL[algo] * scale, f"harness contraction of the node tensors (tree {tag})")
                    except ValueError as e:
                        r.fail(f"raw_contraction.{algo}.shape", repr(e))
                if not ctx.has_dummy:
                    try:
                        d0 = np.asarray(ttno.todense())
                        order = [s for ni in ctx.nodes for s in ni.sets]
                        r.check_close(f"dense_default_order.{algo}", d0, gen.permute_dense_operator(ref, ctx.dims, order), TOL[algo] * scale,
                                      "todense() in the order of basis.basis_list")
                    except Exception as e:  # noqa
                        sig, in_lib = lib_exception_sig(e)
                        if not in_lib:
                            raise
                        r.fail(f"dense_default_order.{algo}.{sig}", repr(e))
                else:
                    try:
                        d0 = np.asarray(ttno.todense())
                        order = [s for ni in ctx.nodes for s in ni.sets if s is not None]
                        r.check_close(f"dense_default_order.{algo}", d0, gen.permute_dense_operator(ref, ctx.dims, order), TOL[algo] * scale,
                                      "todense() in the order of basis.basis_list (dummies skipped)")
                    except Exception as e:  # noqa
                        sig, in_lib = lib_exception_sig(e)
                        if not in_lib:
                            raise
                        r.fail(f"dense_default_order.{algo}.{sig}", repr(e))
                if case["charge"] is not None:
                    v, where = T.ttno_label_violation(ctx, ttno)
                    r.check(f"labels.{algo}", v <= 1e-10, f"tree {tag}: entry {v:.2e} (relative) forbidden by the stored labels at {where}")
                    r.check(f"qntot.{algo}", [int(x) for x in np.atleast_1d(ttno.qntot)] == [int(x) for x in case["charge"]],
                            f"qntot {ttno.qntot} vs operator charge {case['charge']}")
            if dense[0] is not None and dense[1] is not None:
                r.check_close(f"two_trees.{algo}", dense[0], dense[1], 2 * TOL[algo] * scale, "two trees over the same basis list")
            try:
                o = T.build_ops(m, terms)
                chain = T.chain_mpo_dense(bl, o, algo)
            except Exception as e:  # noqa
                sig, in_lib = lib_exception_sig(e)
                if not in_lib:
                    raise
                r.fail(f"chain_mpo.{algo}.{sig}", repr(e))
                continue
            r.check_close(f"chain_mpo_vs_ref.{algo}", chain, ref, TOL[algo] * scale, "Mpo(Model(basis list), terms)")
            for tag, d in zip("ab", dense):
                if d is not None:
                    r.check_close(f"tree_vs_chain.{algo}", d, chain, 2 * TOL[algo] * scale, f"tree {tag} vs chain MPO")
        return r

    def sample_view(self, case):
        if case.get("structure_only"):
            return {"structure_only": True, "sites": len(case["model"]["sites"]), "topo": case["topo"]}
        return {"sites": [s["k"] for s in case["model"]["sites"]], "qnmode": case["model"].get("qnmode"), "n_terms": len(case["terms"]),
                "first_terms": case["terms"][:2], "topo": case["topo"], "topo2": case["topo2"], "knobs": case["flags"]}


PROP = C02()

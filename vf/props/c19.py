"""C19 — integrator coefficient tables have their advertised order.

Finite part (enumerated completely): 10 methods x every row of b x all rooted trees with <= 5 nodes
(17 trees), plus structural conditions and the Taylor tables.  Generated part: random smooth
non-linear, non-autonomous ODEs integrated by a harness RK stepper that uses the shipped tableau;
the measured order must not be below the advertised one.
"""
import math
from fractions import Fraction

import numpy as np
from hypothesis import strategies as st

from vf.core import Prop, Result

METHODS = [
    "Forward_Euler", "midpoint_RK2", "Heun_RK2", "Ralston_RK2", "Kutta_RK3",
    "C_RK4", "38rule_RK4", "Fehlberg5", "RKF45", "Cash-Karp45",
]
# advertised orders, as documented by the method names / literature (independent of the code's
# ``order`` attribute, which is cross-checked against this table)
ADVERTISED = {
    "Forward_Euler": (1,), "midpoint_RK2": (2,), "Heun_RK2": (2,), "Ralston_RK2": (2,),
    "Kutta_RK3": (3,), "C_RK4": (4,), "38rule_RK4": (4,), "Fehlberg5": (5,),
    "RKF45": (5, 4), "Cash-Karp45": (5, 4),
}
STAGES = {"Forward_Euler": 1, "midpoint_RK2": 2, "Heun_RK2": 2, "Ralston_RK2": 2, "Kutta_RK3": 3,
          "C_RK4": 4, "38rule_RK4": 4, "Fehlberg5": 6, "RKF45": 6, "Cash-Karp45": 6}


def rooted_trees(n):
    """all rooted trees with n nodes as canonical nested tuples (sorted tuple of children)."""
    if n == 1:
        return [()]
    out = set()

    def parts(total, maxpart):
        if total == 0:
            yield []
            return
        for p in range(min(total, maxpart), 0, -1):
            for rest in parts(total - p, p):
                yield [p] + rest

    import itertools

    for part in parts(n - 1, n - 1):
        pools = [rooted_trees(p) for p in part]
        for combo in itertools.product(*pools):
            out.add(tuple(sorted(combo)))
    return sorted(out)


def order(t):
    return 1 + sum(order(c) for c in t)


def gamma(t):
    g = order(t)
    for c in t:
        g *= gamma(c)
    return g


def phi(t, a):
    """vector of elementary weights Phi_i(t) (stage derivatives)."""
    s = a.shape[0]
    v = np.ones(s)
    for c in t:
        v = v * (a @ phi(c, a))
    return v


def to_list(t):
    return [to_list(c) for c in t]


def to_tuple(t):
    return tuple(sorted(to_tuple(c) for c in t))


ALL_TREES = [t for n in range(1, 6) for t in rooted_trees(n)]
assert len(ALL_TREES) == 17


# routes through the configuration object (anchor renormalizer/utils/configs.py): evolution method x adaptive flag
VIAS = [{"evolve": ev, "adaptive": ad} for ev in ("prop_and_compress_tdrk", "tdvp_ps") for ad in (0, 1)]


class C19(Prop):
    id = "C19"
    level = "exploration"
    rule = ("finite part: every (method,row,rooted tree of order<=5) triple, plus row-sum / lower-triangular / "
            "stage / order / ti-coefficient / Taylor-table conditions (all enumerated, each counted as non-trivial); "
            "generated part: (method, random polynomial non-autonomous ODE system of dimension 1-3) pairs, the RK step map "
            "and the exact flow expanded as power series in h by the harness and compared through h^p; non-trivial "
            "when the right-hand side is non-linear.  Every finite case and half of the generated ones are also evaluated on "
            "EvolveConfig(method, rk_solver, adaptive).rk_config / .taylor_config (2 evolution methods x adaptive 0/1)")
    assumptions = ["Butcher order conditions computed by the harness (elementary weights, density gamma)",
                   "advertised orders taken from the method names/literature table in the harness",
                   "power-series arithmetic (truncated convolution) of the harness"]
    exhaustive_now = True

    def budget(self, tier):
        return dict(examples=120 if tier == "quick" else 3000, shards=1 if tier == "quick" else 16)

    def finite_cases(self, tier):
        cases = []
        for m in METHODS:
            cases.append({"kind": "structure", "method": m})
            cases.append({"kind": "ti", "method": m})
            for row in range(len(ADVERTISED[m])):
                for t in ALL_TREES:
                    cases.append({"kind": "tree", "method": m, "row": row, "tree": to_list(t)})
        # the same tables as the integrators receive them: EvolveConfig(rk_solver=m, adaptive=...).rk_config
        for m in METHODS:
            for via in VIAS:
                cases.append({"kind": "structure", "method": m, "via": via})
                cases.append({"kind": "ti", "method": m, "via": via})
                for row in range(len(ADVERTISED[m])):
                    for t in ALL_TREES:
                        cases.append({"kind": "tree", "method": m, "row": row, "tree": to_list(t), "via": via})
        for n in list(range(0, 41)) + [60, 100, 170]:
            cases.append({"kind": "taylor", "order": n})
        for via in VIAS:
            for to in (None, 0, 1, 2, 3, 4, 5, 6, 8, 12):
                cases.append({"kind": "taylor_config", "via": via, "taylor_order": to})
        return cases

    def strategy(self, tier):
        coef = st.integers(-1000, 1000).map(lambda x: x / 1000.0)
        return st.fixed_dictionaries({
            "kind": st.just("ode"),
            "method": st.sampled_from(METHODS),
            "via": st.sampled_from([None, None] + VIAS),
            "dim": st.integers(1, 3),
            "t0": st.sampled_from([0.0, 0.3, -0.7, 1.1]),
            "lin": st.lists(coef, min_size=9, max_size=9),
            "quad": st.lists(coef, min_size=27, max_size=27),
            "cub": st.lists(coef, min_size=3, max_size=3),
            "quart": st.lists(coef, min_size=3, max_size=3),
            "tlin": st.lists(coef, min_size=3, max_size=3),
            "tquad": st.lists(coef, min_size=3, max_size=3),
            "ty": st.lists(coef, min_size=3, max_size=3),
            "y0": st.lists(coef, min_size=3, max_size=3),
        })

    # --------------------------------------------------------------------------------------------
    def run_case(self, spec):
        from renormalizer.utils.rk import RungeKutta, TaylorExpansion

        r = Result()
        kind = spec["kind"]
        if kind == "taylor":
            n = spec["order"]
            te = TaylorExpansion(n)
            ref = np.array([float(Fraction(1, math.factorial(k))) for k in range(n + 1)])
            r.check("taylor.order", te.order == n, f"order attr {te.order}")
            got = np.asarray(te.coeff, dtype=float)
            if r.check("taylor.shape", got.shape == ref.shape, f"TaylorExpansion({n}): {got.shape} coefficients"):
                # relative comparison per coefficient (1/k! spans hundreds of decades)
                r.check_close("taylor.coeff", got / ref, np.ones_like(ref), 1e-14, f"TaylorExpansion({n}) coefficient ratios to 1/k! (a few ulp: scipy evaluates large factorials through the gamma function)")
            r.nontrivial = True
            r.classes.append("taylor")
            return r
        via = spec.get("via")
        if kind == "taylor_config":
            from renormalizer.utils.configs import EvolveConfig

            kw = {} if spec["taylor_order"] is None else {"taylor_order": spec["taylor_order"]}
            cfg = EvolveConfig(method=via["evolve"], adaptive=bool(via["adaptive"]), **kw)
            te = cfg.taylor_config
            # documented defaults of EvolveConfig: 5 when adaptive, else 4
            n = spec["taylor_order"] if spec["taylor_order"] is not None else (5 if via["adaptive"] else 4)
            ref = np.array([float(Fraction(1, math.factorial(k))) for k in range(n + 1)])
            r.check("taylor_config.order", te.order == n, f"EvolveConfig({via}, taylor_order={spec['taylor_order']}).taylor_config.order = {te.order}, expected {n}")
            got = np.asarray(te.coeff, dtype=float)
            if r.check("taylor_config.shape", got.shape == ref.shape, f"{via} taylor_order={spec['taylor_order']}: {got.shape} coefficients"):
                r.check_close("taylor_config.coeff", got / ref, np.ones_like(ref), 1e-14, f"{via} taylor_order={spec['taylor_order']}: ratios to 1/k!")
            r.nontrivial = True
            r.classes.append("taylor.via_config")
            return r
        m = spec["method"]
        if via is None:
            rk = RungeKutta(m)
            adv = ADVERTISED[m]
        else:
            from renormalizer.utils.configs import EvolveConfig

            rk = EvolveConfig(method=via["evolve"], rk_solver=m, adaptive=bool(via["adaptive"])).rk_config
            # the object states its own orders; they must start with the order the method name promises and every row that is
            # present must meet the order stated for it (a configuration may drop the embedded row, it may not mislabel one)
            adv = tuple(int(x) for x in rk.order)
            r.classes.append(f"via_config.{via['evolve']}.adaptive={via['adaptive']}")
            if not r.check("config.order", len(adv) >= 1 and adv == ADVERTISED[m][:len(adv)],
                           f"EvolveConfig(rk_solver={m!r}, {via}).rk_config.order = {rk.order}, method advertises {ADVERTISED[m]}"):
                return r
        a, b, c = rk.tableau
        b = np.atleast_2d(b)
        if kind == "structure":
            s = STAGES[m]
            r.check("struct.stage", rk.stage == s and a.shape == (s, s) and b.shape == (len(adv), s)
                    and c.shape == (s,), f"{m}: stage={rk.stage} shapes {a.shape} {b.shape} {c.shape}")
            r.check("struct.order", tuple(rk.order) == adv, f"{m}: order {rk.order} advertised {adv}")
            r.check_close("struct.rowsum", a.sum(axis=1), c, 1e-14, f"{m}: c_i = sum_j a_ij")
            r.check("struct.explicit", np.all(np.triu(a) == 0), f"{m}: a not strictly lower triangular")
            r.nontrivial = True
            r.classes.append("structure")
            return r
        if kind == "ti":
            coeff = np.atleast_2d(rk.runge_kutta_ti_coefficient())
            r.check("ti.shape", coeff.shape == (len(adv), STAGES[m] + 1), f"{m}: shape {coeff.shape}")
            for row, p in enumerate(adv):
                if row < coeff.shape[0]:
                    ref = np.array([1.0 / math.factorial(k) for k in range(p + 1)])
                    r.check_close("ti.coeff", coeff[row, : p + 1], ref, 1e-13, f"{m} row {row}")
            r.nontrivial = True
            r.classes.append("ti")
            return r
        if kind == "tree":
            t = to_tuple(spec["tree"])
            row = spec["row"]
            if row >= len(adv):
                r.classes.append("tree.row_absent_in_this_configuration")
                return r
            if not r.check("config.rows", b.shape[0] == len(adv), f"{m} {via}: {b.shape[0]} weight rows for orders {adv}"):
                return r
            p = adv[row]
            val = float(b[row] @ phi(t, a))
            ref = 1.0 / gamma(t)
            o = order(t)
            r.nontrivial = True
            r.classes.append(f"tree.order{o}")
            if o <= p:
                r.check_close("tree.condition", val, ref, 1e-12, f"{m} row {row} tree {spec['tree']} (order {o}<= {p})")
            else:
                r.classes.append("tree.above_order(informative)")
                r.info["residual_above"] = abs(val - ref)
            return r
        if kind == "ode":
            return self.run_ode(spec, rk, r)
        raise ValueError(kind)

    def run_ode(self, spec, rk, r):
        """Exact (non-asymptotic) order test on a generated polynomial, non-autonomous ODE
        y' = f(t, y): the RK step map and the exact flow are both expanded as truncated power series in
        the step h by the harness; an order-p row must reproduce the Taylor coefficients of the flow
        through h^p for every such f."""
        d = spec["dim"]
        DEG = 6
        L = np.array(spec["lin"]).reshape(3, 3)[:d, :d]
        Q = np.array(spec["quad"]).reshape(3, 3, 3)[:d, :d, :d]
        cub = np.array(spec["cub"])[:d]
        quart = np.array(spec["quart"])[:d]
        tl = np.array(spec["tlin"])[:d]
        tq = np.array(spec["tquad"])[:d]
        ty = np.array(spec["ty"])[:d]
        y0 = np.array(spec["y0"])[:d]
        t0 = spec["t0"]

        def mul(x, y):  # truncated product of scalar series (DEG+1,)
            return np.convolve(x, y)[: DEG + 1]

        def f(tser, y):  # tser: (DEG+1,), y: (DEG+1, d) -> (DEG+1, d)
            out = np.zeros_like(y)
            t2 = mul(tser, tser)
            for i in range(d):
                acc = np.zeros(DEG + 1)
                for j in range(d):
                    acc += L[i, j] * y[:, j]
                    for k in range(d):
                        acc += Q[i, j, k] * mul(y[:, j], y[:, k])
                y2 = mul(y[:, i], y[:, i])
                acc += cub[i] * mul(y2, y[:, i]) + quart[i] * mul(y2, y2)
                acc += tl[i] * tser + tq[i] * t2 + ty[i] * mul(tser, y[:, i])
                out[:, i] = acc
            return out

        def shift(x):  # multiply a (DEG+1, d) series by h
            out = np.zeros_like(x)
            out[1:] = x[:-1]
            return out

        hser = np.zeros(DEG + 1)
        hser[1] = 1.0
        const = np.zeros(DEG + 1)
        const[0] = 1.0
        # exact flow: (k+1) y_{k+1} = [f(t0+h, y(h))]_k
        y = np.zeros((DEG + 1, d))
        y[0] = y0
        for k in range(DEG):
            fk = f(t0 * const + hser, y)
            y[k + 1] = fk[k] / (k + 1)
        a, b, c = rk.tableau
        b = np.atleast_2d(b)
        m = spec["method"]
        r.classes.append(f"ode.{m}.dim{d}")
        nonlinear = bool(np.any(Q != 0) or np.any(cub != 0))
        # through the configuration object the rows present are judged by the orders the object states (checked against the
        # method name in run_case)
        adv = ADVERTISED[m] if spec.get("via") is None else tuple(int(x) for x in rk.order)[: b.shape[0]]
        for row, p in enumerate(adv):
            ks = []
            for i in range(rk.stage):
                yi = np.zeros((DEG + 1, d))
                yi[0] = y0
                for j in range(i):
                    yi += a[i, j] * shift(ks[j])
                ks.append(f(t0 * const + c[i] * hser, yi))
            y1 = np.zeros((DEG + 1, d))
            y1[0] = y0
            for i in range(rk.stage):
                y1 += b[row, i] * shift(ks[i])
            scale = max(1.0, float(np.max(np.abs(y[: p + 1]))))
            r.check_close("ode.taylor_match", y1[: p + 1], y[: p + 1], 1e-11 * scale,
                          f"{m} row {row}: step-map Taylor coefficients through h^{p}")
            r.info["next_coeff_gap"] = float(np.max(np.abs(y1[p + 1] - y[p + 1]))) if p + 1 <= DEG else None
        r.nontrivial = nonlinear
        return r


PROP = C19()

"""C13 — operations return new objects and never disturb the state of their inputs (derive / mutate / observe histories)."""
import os
import shutil
import tempfile

import numpy as np
from hypothesis import strategies as st

from vf.core import Prop, Result, lib_exception_sig
from vf import gen, chain, evo
from vf.props.c03 import arith_instr
from vf.props.c06 import Interp06
from vf.props.c08 import build_ops
from vf.props import c13_tree

OBSERVERS = ["expectation", "expectations", "e_occupations", "ph_occupations", "calc_1site_rdm", "calc_2site_rdm", "calc_entropy_bond",
             "calc_bond_singular_values", "todense", "dump", "mp_norm", "norm", "distance", "dot", "angle", "calc_edof_rdm", "str"]
MUTATORS = ["mutate_tensor", "coeff", "scale_inplace", "gauge_inplace", "compress_inplace", "config_change", "mpos_clear",
            "normalize_inplace"]


@st.composite
def instr13(draw):
    k = draw(st.integers(0, 11))
    a, b, o = draw(st.integers(0, 20)), draw(st.integers(0, 20)), draw(st.integers(0, 20))
    if k <= 2:
        return draw(arith_instr())
    if k in (3, 4):
        return {"op": "evolve13", "a": a, "scheme": draw(evo.scheme_specs(("pc", "ps", "ps2", "vmf", "cmf"))), "imag": draw(st.booleans()),
                "dt": draw(st.sampled_from([0.05, 0.3])), "M": draw(st.sampled_from([4, 16])), "normalize": draw(st.booleans()),
                "on": draw(st.sampled_from(["S", "S", "S", "M"]))}
    if k in (5, 6):
        return {"op": "observe13", "a": a, "b": b, "o": o, "what": draw(st.sampled_from(OBSERVERS)), "on": draw(st.sampled_from(["S", "S", "S", "M"]))}
    if k in (7, 8):
        return {"op": "mutate13", "a": a, "what": draw(st.sampled_from(MUTATORS)), "site": draw(st.integers(0, 6)),
                "val": draw(st.sampled_from(chain.SCALARS)), "on": draw(st.sampled_from(["S", "S", "O", "M"])), "dir": draw(st.integers(0, 1))}
    if k == 9 and draw(st.booleans()):
        return {"op": "observe13", "a": a, "b": b, "o": o, "what": draw(st.sampled_from(["distance", "distance", "dot", "angle", "expectation"])),
                "on": "S", "prefactor_first": draw(st.sampled_from(chain.SCALARS))}
    if k == 9 and draw(st.integers(0, 2)) == 0:
        return {"op": "expand13", "a": a, "M": draw(st.sampled_from([4, 8, 16])), "hint": draw(st.booleans()), "rng": draw(st.integers(0, 1000))}
    if k == 9:
        return {"op": "derive_gauge", "a": a, "g": draw(chain.gauge_instr("S")), "on": draw(st.sampled_from(["S", "S", "O", "M"]))}
    if k == 10:
        return {"op": draw(st.sampled_from(["trunc", "vcompress", "vcompress", "optimize"])), "a": a, "o": o, "small_guess": draw(st.integers(0, 3)) > 0, "M": draw(st.sampled_from([1, 2, 4])), "dir": draw(st.integers(0, 1)),
                "crit": "fixed", "thr": 0.1, "method": draw(st.sampled_from(["1site", "2site"])), "nroots": 1, "pct": 0.2,
                "algo": "direct", "rng": draw(st.integers(0, 1000))}
    return {"op": "mpdm_from", "a": a}


@st.composite
def cases(draw, tier):
    spec = draw(chain.chain_model_specs(2, 5, max_dim=64))
    has_multi_or_dummy = any(s["k"] in ("multi", "dummy") for s in spec["sites"])
    has_qn = any(np.any(gen.site_sigmaqn(spec, i) != 0) for i in range(len(spec["sites"])))
    allow = ["rand", "rand", "prod"]
    if not has_multi_or_dummy:
        allow.append("gs")
    if not has_qn:
        allow.append("dense")
    prog = []
    qsel = draw(st.integers(0, 50))
    for _ in range(draw(st.integers(2, 3))):
        ins = draw(chain.create_instr(spec, tuple(allow)))
        if ins["op"] == "rand":
            ins["q"] = qsel
        prog.append(ins)
    for _ in range(draw(st.integers(1, 2))):
        prog.append(draw(chain.mpo_instr(spec)))
    for _ in range(draw(st.integers(4, 12 if tier == "quick" else 25))):
        if draw(st.integers(0, 4)) == 0:
            # aliasing probe: derive with an operation that could return its input or share its buffers (copy, conj, to_complex
            # of an already complex object, scale by exactly one / minus one), then mutate one side at once
            a, on = draw(st.integers(0, 20)), draw(st.sampled_from(["S", "S", "O", "M"]))
            if draw(st.booleans()) and on == "S":
                prog.append({"op": "to_complex", "a": a, "on": on})
            if on == "O" and draw(st.booleans()):
                prog.append({"op": "conj_trans", "a": a})
            else:
                prog.append(draw(st.sampled_from([{"op": "scale", "a": a, "on": on, "val": [1.0, 0.0], "inplace": False},
                                                  {"op": "scale", "a": a, "on": on, "val": [-1.0, 0.0], "inplace": False},
                                                  {"op": "copy", "a": a, "on": on}, {"op": "conj", "a": a, "on": on},
                                                  {"op": "to_complex", "a": a, "on": on}])))
            prog.append({"op": "mutate13", "a": draw(st.sampled_from([-1, a])),
                         "what": draw(st.sampled_from(["mutate_tensor", "mutate_tensor", "mutate_tensor", "scale_inplace", "coeff",
                                                       "normalize_inplace", "compress_inplace"])),
                         "site": draw(st.integers(0, 6)), "val": draw(st.sampled_from(chain.SCALARS)), "on": on,
                         "dir": draw(st.sampled_from([0, 0, 1]))})
        else:
            prog.append(draw(instr13()))
    return {"model": spec, "prog": prog, "ham": draw(gen.hermitian_hamiltonian(spec, max_terms=3))}


class Interp13(Interp06):
    """every live object is snapshotted before each instruction and compared afterwards, except the documented target of an
    in-place instruction"""

    def all_regs(self):
        return self.S + self.O + self.M

    def run(self, prog):
        self.tmpdir = None
        try:
            for ins in prog:
                self.trace.append(ins.get("op") + (":" + str(ins.get("what")) if ins.get("what") else ""))
                snap = [(reg, chain.dense_of(reg.obj), getattr(reg.obj, "coeff", 1), tuple(int(v) for v in np.atleast_1d(reg.obj.qntot)))
                        for reg in self.all_regs()]
                self.inplace_target = None
                self._resnap = None
                nreg_before = len(snap)
                getattr(self, "i_" + ins["op"])(ins)
                if self._resnap is not None:
                    # the harness itself changed a prefactor inside the instruction: compare against the state after that change
                    snap = [(reg, (self._resnap[1] if reg is self._resnap[0] else d0), c0, q0) for reg, d0, c0, q0 in snap]
                live = {id(r) for r in self.all_regs()}
                for reg, d0, c0, q0 in snap:
                    if id(reg) not in live or reg is self.inplace_target:
                        continue
                    d1 = chain.dense_of(reg.obj)
                    sc = max(np.linalg.norm(d0), 1e-300)
                    sig = f"disturbed.by.{self.trace[-1]}"
                    tgt = self.inplace_target
                    grp = getattr(self, "conj_group", {})
                    if tgt is not None and id(tgt) in grp and grp.get(id(tgt)) == grp.get(id(reg)) \
                            and ins.get("what") == "mutate_tensor" and not ins.get("dir"):
                        sig = "shared_arrays.conj_of_real_object"
                    if not self.r.check_close(sig, d1, d0, 1e-11 * sc + 1e-14,
                                              f"object {reg.kind}/{reg.tag} changed by instruction {ins.get('op')} {ins.get('what', '')} "
                                              f"(scheme {ins.get('scheme', {}).get('kind') if isinstance(ins.get('scheme'), dict) else ''}) trace={self.trace[-5:]}"):
                        reg.model = np.asarray(d1)  # continue with the changed object
                    self.r.check(f"qntot_disturbed.by.{self.trace[-1]}", tuple(int(v) for v in np.atleast_1d(reg.obj.qntot)) == q0,
                                 f"qntot of {reg.kind}/{reg.tag} changed {q0} -> {reg.obj.qntot}")
                if len(self.all_regs()) > nreg_before:
                    self.r.info["derived"] = self.r.info.get("derived", 0) + 1
                if len(self.r.failures) >= 3:
                    break
        finally:
            if self.tmpdir is not None:
                shutil.rmtree(self.tmpdir, ignore_errors=True)

    def i_conj(self, ins):
        regs = self._regs(ins)
        a = self.pick(regs, ins["a"])
        n0 = len(regs)
        super().i_conj(ins)
        if a is not None and len(regs) > n0 and not a.obj.is_complex:
            # lineage: conj() of a real object (relevant for finding F24)
            grp = getattr(self, "conj_group", {})
            g = grp.setdefault(id(a), id(a))
            grp[id(regs[-1])] = g  # transitive: conj(conj(a)) shares with a as well
            self.conj_group = grp

    def i_coeff(self, ins):
        self.inplace_target = self.pick(self.S if ins.get("on", "S") == "S" else self.M, ins["a"])
        super().i_coeff(ins)

    def i_scale(self, ins):
        if ins.get("inplace"):
            self.inplace_target = self.pick(self._regs(ins), ins["a"])
        super().i_scale(ins)

    def _gauge(self, ins, fn, name):
        self.inplace_target = self.pick(self._regs(ins), ins["a"])
        super()._gauge(ins, fn, name)

    # -- derive: evolve the register object itself ------------------------------------------------------------------
    def i_evolve13(self, ins):
        from renormalizer.utils import CompressConfig, CompressCriteria

        regs = self.S if ins["on"] == "S" else self.M
        reg = self.pick(regs, ins["a"])
        h = self._ham()
        if reg is None or not h or self.n < 2:
            return
        mpo, H = h
        s = ins["scheme"]
        if s["kind"] == "pc_tdrk" and s["rk"] in evo.EMBEDDED:
            s = dict(s, rk="C_RK4")
        x = reg.obj
        if mpo.is_complex and not x.is_complex:
            return
        d = chain.tensors_dense(x)
        Hd = H @ d.astype(complex)
        if np.linalg.norm(Hd) <= 1e-8 * max(np.linalg.norm(d), 1e-300):
            return
        fixed_bond = s["kind"] in ("tdvp_vmf", "tdvp_mu_vmf", "tdvp_mu_cmf")
        if fixed_bond and reg.kind == "M":
            return
        if s["kind"] in ("tdvp_ps", "tdvp_ps2"):
            # projector splitting presupposes a canonical input (orthonormal environments), as every in-repo caller provides
            try:
                canon_ok = (x.is_left_canonical and not x.to_right and x.check_left_canonical()) or \
                           (x.is_right_canonical and x.to_right and x.check_right_canonical())
            except Exception:
                canon_ok = False
            if not canon_ok:
                return
        if s["fam"] == "pc" and not ((x.to_right and x.qnidx == 0) or (not x.to_right and x.qnidx == x.site_num - 1)):
            return  # P&C canonicalises its intermediates: qn centre at the end the sweep starts from (DESIGN §3.3)
        # configuration fields may be set on the input (they are not part of the represented state)
        x.evolve_config = evo.make_evolve_config(s, guess_dt=-0.1j if ins["imag"] else None, tight=False)
        x.compress_config = CompressConfig(CompressCriteria.fixed, max_bonddim=max(ins["M"], max(x.bond_dims)))
        dt = -1j * ins["dt"] if ins["imag"] else ins["dt"]
        if fixed_bond:
            # precondition 5: VMF / CMF need non-redundant, non-singular bonds; such gauge preparation is done on the input by
            # the library itself as well (ensure_left_canonical) and does not change the represented state
            try:
                y = x.copy()
                y.ensure_left_canonical(); y.ensure_right_canonical()
                _, sv = y.compress(temp_m_trunc=chain.BIG, ret_s=True)
                sv = np.asarray(sv)
                if list(y.bond_dims) != list(x.bond_dims) or (sv[sv > 0].size and sv[sv > 0].min() < 1e-6 * sv.max()) or np.any(sv == 0):
                    return
            except Exception:
                return
        try:
            new = x.evolve(mpo, dt, ins["normalize"])
        except Exception as e:  # noqa
            sig, in_lib = lib_exception_sig(e)
            if not in_lib:
                raise
            self.r.fail(f"evolve.{s['kind']}.{sig}", f"{e!r} trace={self.trace[-5:]}")
            return
        self.r.classes.append(f"evolve.{s['kind']}.{'imag' if ins['imag'] else 'real'}.{reg.kind}")
        self.r.check(f"evolve.{s['kind']}.returns_new_object", new is not x, "evolve returned its input object")
        v = chain.dense_of(new)
        if np.all(np.isfinite(v)) and np.linalg.norm(v) > 0 and len(regs) < 12:
            regs.append(chain.Reg(new, v, reg.q, reg.kind, f"evolved.{s['kind']}"))

    # -- observe ---------------------------------------------------------------------------------------------------------
    def i_observe13(self, ins):
        regs = self.S if ins["on"] == "S" else self.M
        reg = self.pick(regs, ins["a"])
        if reg is None:
            return
        x = reg.obj
        what = ins["what"]
        o = self.pick([r for r in self.O if not any(r.q)], ins["o"])
        other = self.pick(regs, ins["b"], same_q_as=reg)
        if ins.get("prefactor_first") and other is not None and other is not reg and other.kind in ("S", "M"):
            # the partner gets a prefactor != 1 first (as normalize('mps_norm_to_coeff') / expand_bond_dimension leave behind)
            v = complex(*ins["prefactor_first"])
            v = v if v.imag != 0 else v.real
            other.obj.coeff = other.obj.coeff * v
            other.model = other.model * v
            snap_fix = chain.dense_of(other.obj)
            self._resnap = (other, snap_fix)
        kinds = [s["k"] for s in self.spec["sites"]]

        def call():
            if what == "expectation" and o is not None:
                return x.expectation(o.obj)
            if what == "expectations" and o is not None:
                return x.expectations([o.obj, o.obj])
            if what == "e_occupations" and any(k in ("elec", "mvac", "multi") for k in kinds):
                return x.e_occupations
            if what == "ph_occupations" and all(k == "sho" for k in kinds if k in ("sho", "sine", "hops")) and "sho" in kinds:
                return x.ph_occupations
            if what == "calc_edof_rdm" and "multi" not in kinds and any(k in ("elec", "mvac") for k in kinds):
                return x.calc_edof_rdm()
            if what == "calc_1site_rdm" and reg.kind == "S":
                return x.calc_1site_rdm()
            if what == "calc_2site_rdm" and reg.kind == "S":
                return x.calc_2site_rdm()
            if what == "calc_entropy_bond" and reg.kind == "S":
                return x.calc_entropy("bond")
            if what == "calc_bond_singular_values" and reg.kind == "S":
                return x.calc_bond_singular_values()
            if what == "todense":
                return x.todense()
            if what == "dump":
                if self.tmpdir is None:
                    self.tmpdir = tempfile.mkdtemp(prefix="vf_c13_")
                return x.dump(os.path.join(self.tmpdir, "obj.npz"))
            if what == "mp_norm":
                return x.mp_norm
            if what == "norm":
                return x.norm
            if what == "distance" and other is not None:
                return x.distance(other.obj)
            if what == "dot" and other is not None:
                return x.conj().dot(other.obj)
            if what == "angle" and other is not None:
                return x.angle(other.obj)
            if what == "str":
                return str(x)
            return None

        ok, _ = self.guard(f"observe.{what}", call)
        if ok:
            self.r.classes.append(f"observe.{what}")

    # -- mutate (documented in-place operations): only the target may change ------------------------------------------------
    def i_mutate13(self, ins):
        regs = {"S": self.S, "O": self.O, "M": self.M}[ins["on"]]
        reg = self.pick(regs, ins["a"])
        if reg is None:
            return
        x = reg.obj
        what = ins["what"]
        self.inplace_target = reg
        v = complex(*ins["val"])
        v = v if v.imag != 0 else v.real

        def call():
            if what == "mutate_tensor":
                i = ins["site"] % len(x)
                if ins["dir"]:
                    x[i] = np.asarray(x[i].array) * 2.0
                else:
                    x[i].array[...] *= 2.0  # write through the stored ndarray: any object sharing it would change too
            elif what == "coeff" and reg.kind in ("S", "M"):
                x.coeff = x.coeff * v
            elif what == "scale_inplace":
                x.scale(v, inplace=True)
            elif what == "gauge_inplace":
                (x.ensure_left_canonical if ins["dir"] else x.ensure_right_canonical)()
            elif what == "compress_inplace":
                (x.ensure_left_canonical if ins["dir"] else x.ensure_right_canonical)()
                x.compress(temp_m_trunc=max(1, max(x.bond_dims) // 2))
            elif what == "normalize_inplace" and reg.kind in ("S", "M"):
                x.normalize("mps_and_coeff")
            elif what == "config_change":
                x.compress_config.threshold = 0.5
                if hasattr(x, "evolve_config"):
                    x.evolve_config.guess_dt = 0.123
            elif what == "mpos_clear":
                x.model.mpos.clear()
                self.inplace_target = None  # clearing the cache must change nothing at all

        ok, _ = self.guard(f"mutate.{what}", call)
        if not ok:
            regs.remove(reg)
            return
        self.r.classes.append(f"mutate.{what}")
        self.r.info["mutations"] = self.r.info.get("mutations", 0) + 1
        d = chain.dense_of(x)
        if not np.all(np.isfinite(d)) or np.linalg.norm(d) == 0:
            regs.remove(reg)
            return
        reg.model = np.asarray(d)

    # -- derive by enlarging the bonds (used by the drivers before TDVP): the input must stay put ---------------------------------
    def i_expand13(self, ins):
        from renormalizer.utils import CompressConfig, CompressCriteria

        reg = self.pick(self.S, ins["a"])
        h = self._ham()
        if reg is None or self.n < 2 or len(self.S) > 12:
            return
        x = reg.obj
        if not np.linalg.norm(reg.model) > 1e-8:
            return
        x.compress_config = CompressConfig(CompressCriteria.fixed, max_bonddim=max(ins["M"], max(x.bond_dims)))
        hint = h[0] if (ins.get("hint") and h) else None
        if hint is not None and hint.is_complex and not x.is_complex:
            hint = None
        np.random.seed(ins["rng"])
        try:
            y = x.expand_bond_dimension(hint_mpo=hint, coef=1e-10, include_ex=False)
        except Exception as e:  # noqa
            sg, in_lib = lib_exception_sig(e)
            if not in_lib:
                raise
            self.r.classes.append("expand13.raised")  # applicability of the expander itself is not this property's subject
            return
        d = chain.dense_of(y)
        if y is x or not np.all(np.isfinite(d)) or np.linalg.norm(d) == 0:
            if y is x:
                self.r.fail("expand13.returns_input", "expand_bond_dimension returned its input object")
            return
        self.r.classes.append("expand13" + (".hint" if hint is not None else ".random"))
        self.S.append(chain.Reg(y, d, reg.q, "S", "expand"))

    # -- derive by gauge-moving a copy: the original must stay put ----------------------------------------------------------------
    def i_derive_gauge(self, ins):
        regs = {"S": self.S, "O": self.O, "M": self.M}[ins["on"]]
        reg = self.pick(regs, ins["a"])
        if reg is None or len(regs) > 12:
            return
        ok, c = self.guard("derive.copy", reg.obj.copy)
        if not ok:
            return
        self.r.check("derive.copy.new_object", c is not reg.obj, "copy returned the same object")
        new = chain.Reg(c, reg.model.copy(), reg.q, reg.kind, "copy+gauge")
        regs.append(new)
        g = dict(ins["g"], on=ins["on"], a=len(regs) - 1)
        getattr(self, "i_" + g["op"])(g)


class C13(Prop):
    id = "C13"
    rule = ("Hypothesis draws a model (2-5 sites) and a history of 4-25 instructions over a pool of live Mps / MpDm / Mpo objects: derive "
            "(copy, conj, to_complex, scale, add, sub, apply, contract, @, MpDm forms, evolve with every scheme in real and imaginary "
            "time, truncation / variational compression / optimisation of copies, gauge moves of copies), observe (expectation(s), "
            "occupations, RDMs, entropies, singular values, norms, distance, dot, angle, todense, dump, str) and mutate (overwrite a site "
            "tensor, prefactor, in-place scale / canonicalise / compress / normalise, config fields, model.mpos.clear()). Before every "
            "instruction all live objects are snapshotted (tensors x prefactor, qntot); afterwards every object except the documented "
            "in-place target must be unchanged to 1e-11. Non-trivial = the history derives at least one object and later mutates one")
    assumptions = ["the represented object is todense() times the scalar prefactor; gauge changes of inputs are allowed",
                   "configuration attributes (evolve_config, compress_config) are not part of the represented state",
                   "the optimiser's documented overwrite of its guess is exercised on a copy; OFS re-ordering is C17's subject",
                   "tree half (1 case in 4, vf/props/c13_tree.py): TTNS / TTNO histories on generated trees (arithmetic, gauge moves, observers, "
                   "truncation of copies, twins, evolution with four schemes, in-place mutations of tensors / labels / prefactor / "
                   "normalisation); after every instruction every live register must still represent its model (independent contraction "
                   "of the raw node tensors x prefactor; TTNO dense matrix) to 1e-10; scheme correctness itself is C12's subject"]

    known_matchers = {
        "F24": lambda spec, sig, msg: sig == "shared_arrays.conj_of_real_object",
        "F27": lambda spec, sig, msg: sig == "observe.distance.common_prefactor_ignored",
        "F4": c13_tree.f4_matcher,
    }

    def budget(self, tier):
        return dict(examples=960, shards=16) if tier == "quick" else dict(examples=24000, shards=16)

    def strategy(self, tier):
        # three chain histories for every tree history
        return st.integers(0, 3).flatmap(lambda k: c13_tree.tree_cases(tier) if k == 0 else cases(tier))

    def run_case(self, case):
        r = Result()
        if case.get("kind") == "tree":
            return c13_tree.run_tree_case(case, r)
        it = Interp13(case["model"], r, None)
        it.ham_terms = case["ham"]
        it.run(case["prog"])
        r.nontrivial = r.info.get("derived", 0) >= 1 and r.info.get("mutations", 0) >= 1
        r.classes = sorted(set(r.classes))
        r.info = {}
        return r

    def sample_view(self, case):
        if case.get("kind") == "tree":
            return {"kind": "tree", "sites": [s["k"] for s in case["tree"]["model"]["sites"]], "topo": case["tree"]["topo"],
                    "prog": [{k: v for k, v in i.items() if k != "terms"} for i in case["prog"]]}
        return {"sites": [s["k"] for s in case["model"]["sites"]], "qnmode": case["model"].get("qnmode"),
                "prog": [{k: v for k, v in i.items() if k not in ("terms", "g")} for i in case["prog"]]}


PROP = C13()

"""C04 — canonicalisation and lossless compression preserve the represented object."""
import numpy as np
from hypothesis import strategies as st

from vf.core import Prop, Result, lib_exception_sig
from vf import gen, chain
from vf.props.c03 import check_meta


@st.composite
def builder_instr(draw):
    op = draw(st.sampled_from(["add", "add", "add_self", "apply", "scale", "mpdm_from", "opmul", "op_add", "to_complex",
                               "dm_add"]))
    a, b, o = draw(st.integers(0, 20)), draw(st.integers(0, 20)), draw(st.integers(0, 20))
    if op == "add":
        return {"op": "add", "a": a, "b": b, "on": "S"}
    if op == "add_self":
        return {"op": "add", "a": a, "b": a, "on": "S", "selfadd": True}
    if op == "apply":
        return {"op": "apply", "o": o, "a": a}
    if op == "scale":
        return {"op": "scale", "a": a, "on": draw(st.sampled_from(["S", "O"])), "val": draw(st.sampled_from(chain.SCALARS)),
                "inplace": False}
    if op == "mpdm_from":
        return {"op": "mpdm_from", "a": a}
    if op == "opmul":
        return {"op": "opmul", "a": a, "b": b}
    if op == "op_add":
        return {"op": "add", "a": a, "b": b, "on": "O"}
    if op == "dm_add":
        return {"op": "add", "a": a, "b": b, "on": "M"}
    return {"op": "to_complex", "a": a, "on": "S"}


@st.composite
def cases(draw, tier):
    one_site = draw(st.integers(0, 11)) == 0
    spec = draw(chain.chain_model_specs(1 if one_site else 2, 1 if one_site else 6, max_dim=128 if tier == "quick" else 256))
    has_multi_or_dummy = any(s["k"] in ("multi", "dummy") for s in spec["sites"])
    has_qn = any(np.any(gen.site_sigmaqn(spec, i) != 0) for i in range(len(spec["sites"])))
    allow = ["rand", "rand", "prod"]
    if not has_multi_or_dummy:
        allow.append("gs")
    if not has_qn:
        allow.append("dense")
    prog = []
    qsel = draw(st.integers(0, 50))
    for _ in range(draw(st.integers(1, 3))):
        ins = draw(chain.create_instr(spec, tuple(allow)))
        if ins["op"] == "rand" and draw(st.integers(0, 3)) > 0:
            ins["q"] = qsel
        prog.append(ins)
    for _ in range(draw(st.integers(0, 2))):
        prog.append(draw(chain.mpo_instr(spec)))
    for _ in range(draw(st.integers(0, 4))):
        prog.append(draw(builder_instr()))
    for _ in range(draw(st.integers(1, 6 if tier == "quick" else 10))):
        k = draw(st.integers(0, 6))
        if k == 6:
            # canonical state, then a one-site operator on an end (or any) site, then another gauge move: only that site lost
            # its isometry, which the next ensure_* call has to notice
            a = draw(st.integers(0, 9))
            prog.append({"op": draw(st.sampled_from(["ensure_left", "ensure_right"])), "a": a, "on": "S"})
            prog.append({"op": "local_op", "a": a, "where": draw(st.integers(0, 2)), "site": draw(st.integers(0, 6)),
                         "blk": draw(st.integers(0, 9)), "fac": draw(st.sampled_from([1.5, -0.5, 2.0]))})
            g = draw(chain.gauge_instr("S"))
            g["a"] = -1
            prog.append(g)
        elif k == 0:
            prog.append(draw(builder_instr()))
        elif not has_qn and draw(st.integers(0, 2)) == 0:
            if not any(i["op"] == "mpo" for i in prog):
                prog.append(draw(chain.mpo_instr(spec)))
            prog.append({"op": "vcompress_sweeps", "o": draw(st.integers(0, 9)), "a": draw(st.integers(0, 9)),
                         "method": draw(st.sampled_from(["1site", "2site"])), "gm": draw(st.sampled_from([1, 1, 2])),
                         "rng": draw(st.integers(0, 10 ** 6))})
        elif draw(st.integers(0, 7)) == 0:
            prog.append({"op": "vcompress", "o": draw(st.integers(0, 9)), "a": draw(st.integers(0, 9)),
                         "method": draw(st.sampled_from(["1site", "2site"])), "small_guess": draw(st.integers(0, 1)),
                         "stale": draw(st.integers(0, 2)) == 0})
        elif draw(st.integers(0, 6)) == 0:
            prog.append({"op": "compress_scaled", "a": draw(st.integers(0, 9)), "on": draw(st.sampled_from(["S", "S", "M"])),
                         "exp": draw(st.sampled_from([-10, -14, -17, -20, -6, 8])), "dir": draw(st.integers(0, 1))})
        else:
            prog.append(draw(chain.gauge_instr(draw(st.sampled_from(["S", "S", "S", "O", "M"])))))
    return {"model": spec, "prog": prog}


def phys_bound(it, x):
    pd = np.array(it.dims, dtype=float)
    if not x.is_mps:
        pd = pd ** 2
    left = np.concatenate([[1.0], np.cumprod(pd)])
    right = np.concatenate([[1.0], np.cumprod(pd[::-1])])[::-1]
    return np.minimum(left, right)


def dense_spectra(it, x, reg):
    """dense Schmidt spectra of the represented tensors at every interior bond"""
    t = chain.tensors_dense(x)
    dims = list(it.dims)
    if not x.is_mps:
        # operator as a vector with site-wise combined (up, down) index
        n = len(dims)
        t = t.reshape(dims + dims).transpose([v for i in range(n) for v in (i, n + i)]).reshape(-1)
        dims = [d * d for d in dims]
    out = []
    for c in range(1, len(dims)):
        m = t.reshape(int(np.prod(dims[:c])), -1)
        out.append(np.linalg.svd(m, compute_uv=False))
    return out


class Hooks:
    def after_create(self, it, reg):
        pass

    def after_arith(self, it, reg, ins, sig):
        x = reg.obj
        if reg.kind == "S" and len(x) > 1:
            # bookkeeping for the evidence: does this object have redundant / rank-deficient bonds?
            sp = dense_spectra(it, x, reg)
            nrm = max(np.linalg.norm(chain.tensors_dense(x)), 1e-300)
            ranks = [int(np.sum(s > 1e-10 * nrm)) for s in sp]
            if any(b > r for b, r in zip(x.bond_dims[1:-1], ranks)):
                it.r.classes.append("input.redundant_or_rank_deficient_bond")
        if 1 in x.bond_dims[1:-1]:
            it.r.classes.append("input.bond_dim_1")

    def after_gauge(self, it, reg, before, ins, name):
        r = it.r
        x = reg.obj
        n = len(x)
        tr = it.trace[-6:]
        check_meta(it, reg, f"gauge.{name}")
        if n == 1:
            r.classes.append("one_site_chain")
        if name == "canonicalise_stop":
            r.classes.append("partial_stop")
        # (iii) no bond dimension grew
        bd = list(x.bond_dims)
        r.check(f"gauge.{name}.bond_growth", all(a <= b for a, b in zip(bd, before["bond_dims"])),
                f"bond dims {before['bond_dims']} -> {bd} trace={tr}")
        # (ii) isometry recomputed from the raw arrays
        arrs = chain.raw_arrays(x)
        c = x.qnidx
        full = name in ("canonicalise", "ensure_left", "ensure_right", "compress_lossless")
        if full and n > 1:
            r.check(f"gauge.{name}.centre_at_end", c in (0, n - 1), f"centre {c} after a full sweep trace={tr}")
            if x.is_mpo and name == "compress_lossless":
                sites = []  # Mpo.compress leaves the singular values behind the sweep (deliberate norm spreading)
            else:
                sites = [(i, i < c) for i in range(n) if i != c]
        elif name == "canonicalise_stop" and n > 1:
            # the centre ends on the advertised stop site (also when that site already was the centre: nothing moves)
            r.check("gauge.canonicalise_stop.centre_at_stop", c == ins["stop"] % n,
                    f"canonicalise(stop_idx={ins['stop'] % n}) left the centre at {c} (sweep started to the "
                    f"{'right' if before['to_right'] else 'left'}) trace={tr}")
            # sites swept over: between the start end and the new centre
            start = 0 if before["to_right"] else n - 1
            lo, hi = min(start, c), max(start, c)
            sites = [(i, before["to_right"]) for i in range(lo, hi + 1) if i != c]
        else:
            sites = []
        for i, left in sites:
            if x.is_mpo:
                d = chain.iso_defect_scaled(arrs[i], left)
            else:
                d = chain.is_left_iso(arrs[i]) if left else chain.is_right_iso(arrs[i])
            r.resid("gauge.isometry_defect", d, 1e-8)
            if not r.check(f"gauge.{name}.isometry", d <= 1e-8, f"site {i} ({'left' if left else 'right'}) defect {d:.2e} "
                           f"centre {c} kind {reg.kind} trace={tr}"):
                break
        if full and n > 1 and not x.is_mpo and sites:
            lib = x.check_left_canonical() if c == n - 1 else x.check_right_canonical()
            r.check(f"gauge.{name}.lib_check_agrees", bool(lib), f"library check_*_canonical says not canonical trace={tr}")
        # (iv),(v) on a copy: two opposite sweeps -> physical bound; further sweeps change nothing
        ok, y = it.guard(f"gauge.{name}.copy", x.copy)
        if not ok:
            return
        tmp = chain.Reg(y, reg.model, reg.q, reg.kind)
        ok, _ = it.guard(f"gauge.{name}.two_sweeps", lambda: (y.ensure_left_canonical(), y.ensure_right_canonical()))
        if not ok:
            return
        it.compare(f"gauge.{name}.two_sweeps", tmp, "after ensure_left + ensure_right")
        bound = phys_bound(it, y)
        bd2 = list(y.bond_dims)
        r.check(f"gauge.{name}.physical_bound", all(b <= bb + 1e-9 for b, bb in zip(bd2, bound)),
                f"bond dims {bd2} exceed physical bound {bound.tolist()} trace={tr}")
        ok, _ = it.guard(f"gauge.{name}.idem", lambda: (y.ensure_left_canonical(), y.ensure_right_canonical()))
        if ok:
            it.compare(f"gauge.{name}.idempotent_dense", tmp, "after two more sweeps")
            r.check(f"gauge.{name}.idempotent_bonds", list(y.bond_dims) == bd2, f"{bd2} -> {list(y.bond_dims)} trace={tr}")
        # (vi) compress(ret_s=True) without truncation returns the dense Schmidt spectra
        if not y.is_mpo and n > 1:
            ok, res = it.guard(f"gauge.{name}.ret_s", lambda: y.compress(temp_m_trunc=chain.BIG, ret_s=True))
            if ok:
                _, s_arr = res
                sp = dense_spectra(it, y, reg)
                # y was right-canonical (centre 0, to_right): sweep visits bonds 1..n-1
                nrm = max(np.linalg.norm(chain.tensors_dense(y)), 1e-300)
                if r.check(f"gauge.{name}.ret_s.shape", len(s_arr) == len(sp), f"{len(s_arr)} spectra for {len(sp)} bonds"):
                    for k in range(len(sp)):
                        got = np.sort(np.asarray(s_arr[k]))[::-1]
                        ref = np.sort(sp[k])[::-1]
                        m = max(len(got), len(ref))
                        got = np.pad(got, (0, m - len(got)))
                        ref = np.pad(ref, (0, m - len(ref)))
                        r.check_close(f"gauge.ret_s.spectrum", got, ref, 1e-9 * nrm + 1e-13, f"bond {k + 1} trace={tr}")
                it.compare(f"gauge.{name}.ret_s.dense", tmp, "after compress(ret_s=True)")


class Interp04(chain.Interp):
    def i_vcompress(self, ins):
        """variational compression of operator-times-state with a sufficient bond limit"""
        from renormalizer.utils import CompressConfig, CompressCriteria

        o = self.pick(self.O, ins["o"])
        a = self.pick(self.S, ins["a"])
        if o is None or a is None or self.n < 2:
            return
        ref = o.model @ a.model
        if np.linalg.norm(ref) <= 1e-6 * np.linalg.norm(o.model, 2) * np.linalg.norm(a.model):
            return
        x = a.obj.copy()
        self._prep_end(x)
        mpo = o.obj.copy()
        self._prep_end(mpo)
        M = 64
        small_guess = bool(ins.get("small_guess", 0))
        # vguess_m: bond dimensions of the compressed copies from which the initial guess is built (default (5,5))
        x.compress_config = CompressConfig(CompressCriteria.fixed, max_bonddim=M, vmethod=ins["method"],
                                           vguess_m=(2, 2) if small_guess else (M, M))
        if ins.get("stale") and not small_guess:
            # the state carries a configuration whose per-bond limits were filled by an earlier small truncation (limit 2); the
            # sweep schedule asks for 64 in every sweep with plain integers, which must win
            sched = ([[M, 1.0], [M, 0.7], [M, 0.5], [M, 0.3], [M, 0.1]] if ins["method"] == "1site" else [[M, 0.5], [M, 0.3], [M, 0.1]]) + [[M, 0]] * 10
            x.compress_config = CompressConfig(CompressCriteria.fixed, max_bonddim=2, vmethod=ins["method"], vprocedure=sched, vguess_m=(M, M))
            x.compress_config.set_bonddim(self.n + 1)
            self.r.classes.append("variational_compress.stale_per_bond_limits")
        before_a = chain.dense_of(x)
        before_o = chain.dense_of(mpo)
        np.random.seed(7)
        if small_guess:
            # a bond-2 guess (or a sweep started from it) can vanish identically; the library then stops at its zero-tensor
            # assertion or at the 0/0 of its convergence test. Outside the property's domain (insufficient guess): not counted.
            try:
                ok, c = True, x.variational_compress(mpo)
            except (AssertionError, FloatingPointError, ValueError) as e:
                s_, in_lib = lib_exception_sig(e)
                if not in_lib:
                    raise
                if isinstance(e, ValueError) and "Invalid quantum number" not in str(e):
                    self.r.fail(f"vcompress.{s_}", f"{e!r} trace={self.trace[-6:]}")
                    return
                # ValueError('Invalid quantum number'): the truncated labels of the guess admit no block of the target sector
                self.r.classes.append("variational_compress.small_guess_vanished")
                return
            except Exception as e:  # noqa
                s_, in_lib = lib_exception_sig(e)
                if not in_lib:
                    raise
                self.r.fail(f"vcompress.{s_}", f"{e!r} trace={self.trace[-6:]}")
                return
        else:
            ok, c = self.guard("vcompress", x.variational_compress, mpo)
        if not ok:
            return
        self.r.classes.append("variational_compress")
        got = chain.dense_of(c)
        nrm = np.linalg.norm(ref)
        if small_guess:
            # an alternating sweep started from a poor (bond 2x2) guess cannot reach a symmetry block in which the guess has no
            # weight (zero environment -> zero update), with either update; the property claims convergence for a sufficient bond
            # limit, which a 2x2 guess is not: only the aliasing / sector / label checks apply to these cases
            self.r.classes.append("variational_compress.small_guess")
        else:
            self.r.check_close("vcompress.result", got, ref, 1e-5 * nrm + 1e-12,
                               f"variational_compress({ins['method']}, small_guess={small_guess}) vs dense mpo@mps")
        self.r.check_close("vcompress.input_state", chain.dense_of(x), before_a, 1e-12 * max(np.linalg.norm(before_a), 1), "input state changed")
        self.r.check_close("vcompress.input_mpo", chain.dense_of(mpo), before_o, 1e-12 * max(np.linalg.norm(before_o), 1), "input mpo changed")
        # sector and label validity of the result (C06)
        from vf.props.c03 import check_meta
        q = tuple(int(v) for v in (np.array(a.q) + np.array(o.q)))
        check_meta(self, chain.Reg(c, ref, q, "S"), "vcompress")


    def i_compress_scaled(self, ins):
        """canonicalisation and lossless compression of a tiny / huge multiple of a state: everything is relative to the object's
        own scale (checked without any absolute slack)"""
        regs = {"S": self.S, "M": self.M}[ins.get("on", "S")]
        a = self.pick(regs, ins["a"])
        if a is None or self.n < 2:
            return
        n0 = np.linalg.norm(a.model)
        if not 1e-3 < n0 < 1e3:
            return
        fac = 10.0 ** ins["exp"]
        ok, y = self.guard("compress_scaled.scale", a.obj.scale, fac)
        if not ok:
            return
        bd0 = list(a.obj.bond_dims)

        def f():
            if ins["dir"]:
                y.ensure_left_canonical()
            else:
                y.ensure_right_canonical()
            y.compress(temp_m_trunc=chain.BIG)
        ok, _ = self.guard("compress_scaled", f)
        if not ok:
            return
        got = chain.dense_of(y) / fac
        err = np.linalg.norm(got - a.model) / n0
        self.r.classes.append(f"compress_scaled.1e{ins['exp']}")
        self.r.resid("compress_scaled.rel_err", err, 1e-9)
        self.r.check("compress_scaled.dense", err <= 1e-9,
                     f"lossless compress of {fac:g} x state: relative change {err:.3e} (bond dims {bd0} -> {list(y.bond_dims)}) trace={self.trace[-6:]}")

    def i_vcompress_sweeps(self, ins):
        """convergence of the sweeps themselves: explicit low-bond random guess of the target sector, a long schedule without
        mixing, tight vrtol; the bond limit is sufficient and the sweeps must grow the bonds until the product is reproduced"""
        from renormalizer.mps import Mps
        from renormalizer.utils import CompressConfig, CompressCriteria

        o = self.pick(self.O, ins["o"])
        a = self.pick(self.S, ins["a"])
        if o is None or a is None or self.n < 2:
            return
        ref = o.model @ a.model
        nrm = np.linalg.norm(ref)
        if nrm <= 1e-3 * np.linalg.norm(o.model, 2) * np.linalg.norm(a.model):
            return
        has_qn = any(np.any(gen.site_sigmaqn(self.spec, i) != 0) for i in range(self.n))
        if has_qn:
            # with symmetry labels an alternating sweep cannot reach a block in which the guess has no weight (zero environment):
            # convergence from a poor guess is not guaranteed there (observed on the unchanged tree); models without labels only
            self.r.classes.append("vcompress_sweeps.qn_model_skipped")
            return
        method = ins["method"]
        q = tuple(int(v) for v in (np.array(a.q) + np.array(o.q)))
        np.random.seed(ins["rng"])
        try:
            guess = Mps.random(self.fresh_model(), np.array(q) if len(q) > 1 else int(q[0]), ins["gm"], percent=1.0)
            g = guess.todense()
            if not np.all(np.isfinite(g)) or np.linalg.norm(g) == 0:
                raise FloatingPointError
        except (FloatingPointError, ZeroDivisionError, ValueError, AssertionError, IndexError):
            self.r.classes.append("vcompress_sweeps.guess_rejected")
            return
        x = a.obj.copy()
        self._prep_end(x)
        mpo = o.obj.copy()
        self._prep_end(mpo)
        if (x.is_complex or mpo.is_complex) and not guess.is_complex:
            guess = guess.to_complex()
        M = 64
        guess.compress_config = CompressConfig(CompressCriteria.fixed, max_bonddim=M, vmethod=method,
                                               vprocedure=[[M, 0]] * (4 * self.n + 10), vrtol=1e-10)
        ok, c = self.guard("vcompress_sweeps", x.variational_compress, mpo, guess=guess)
        if not ok:
            return
        self.r.classes.append(f"vcompress_sweeps.{method}")
        got = chain.dense_of(c)
        err = np.linalg.norm(got - ref) / nrm
        self.r.resid("vcompress_sweeps.rel_err", err, 1e-6)
        self.r.check("vcompress_sweeps.result", err <= 1e-6,
                     f"variational_compress({method}) from a bond-{ins['gm']} random guess, schedule without mixing: rel. error {err:.3e} "
                     f"(bond dims {list(c.bond_dims)}) trace={self.trace[-6:]}")


class C04(Prop):
    id = "C04"
    rule = ("Hypothesis draws a model (1-6 sites) and a program: constructors, optional arithmetic that creates redundant / "
            "rank-deficient / dimension-1 bonds (sums, a+a, operator application, operator products, MpDm), then 1-10 gauge "
            "instructions (canonicalise, canonicalise(stop_idx) incl. the current centre, ensure_left/right, move_qnidx, "
            "lossless compress in three parameter styles, variational compress) on states, operators and density operators. "
            "Non-trivial = some gauge instruction acts on an object with a redundant or rank-deficient bond, or uses a partial "
            "stop index, or the chain has one site")
    assumptions = ["isometry is recomputed from raw arrays (A^dagger A = 1 to 1e-8; for Mpo a scaled isometry since the library "
                   "deliberately spreads the norm over the sites)",
                   "rank bound is the one from physical dimensions only (QR does not reveal rank)",
                   "canonicalise()/compress() are called with the qn centre at the end the sweep starts from (DESIGN §3.3)",
                   "variational compression: fixed bond limit 64 >= exact ranks, tolerance 1e-5*norm (library vrtol 1e-5)"]

    def budget(self, tier):
        return dict(examples=2400, shards=16) if tier == "quick" else dict(examples=60000, shards=16)

    def strategy(self, tier):
        return cases(tier)

    def run_case(self, case):
        r = Result()
        it = Interp04(case["model"], r, Hooks())
        it.run(case["prog"])
        cl = set(r.classes)
        r.classes = sorted(cl) + [f"sites={it.n}", f"qn={case['model'].get('qnmode')}"]
        gauged = any(i["op"] in ("canon", "canon_stop", "ensure_left", "ensure_right", "compress_lossless") for i in case["prog"])
        r.nontrivial = gauged and bool(cl & {"input.redundant_or_rank_deficient_bond", "partial_stop", "one_site_chain"})
        return r

    def sample_view(self, case):
        return {"sites": [s["k"] for s in case["model"]["sites"]], "qnmode": case["model"].get("qnmode"),
                "prog": [{k: v for k, v in i.items() if k != "terms"} for i in case["prog"]]}


PROP = C04()

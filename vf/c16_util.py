"""Harness-side reference matrices for C16 (nothing here imports the library).

All references are built from the *defining relations*:
* harmonic oscillator: ladder matrix b at a larger size M >= N + (total power), x = x0 + (b+b^T)/sqrt(2w),
  p = i sqrt(w/2) (b^T - b); a word sequence is the matrix product in the written order, truncated to N levels;
* sine-DVR: Gauss-Legendre quadrature of  int psi_j x^m d^n/dx^n psi_k  with the documented box functions;
* spins: the standard Pauli matrices; electrons: |i><j| units.
"""
import numpy as np

# CODATA (2018/2022 agree to better than 1e-9 relative on these) — held by the harness, not read from the library
HARTREE_EV = 27.211386245988
HARTREE_CM = 219474.63136320
HARTREE_K = 315775.02480407
AU_TIME_FS = 2.4188843265857e-2  # 1 a.u. of time in fs
UNIT_RATIO = {  # value_in_unit = value_in_au * ratio
    "meV": HARTREE_EV * 1e3, "eV": HARTREE_EV, "cm^{-1}": HARTREE_CM, "cm-1": HARTREE_CM, "K": HARTREE_K,
    "a.u.": 1.0, "au": 1.0, "fs": AU_TIME_FS,
}
UNIT_RATIO.update({k.lower(): v for k, v in list(UNIT_RATIO.items())})


# ------------------------------------------------------------------------------------------------
# harmonic oscillator
# ------------------------------------------------------------------------------------------------

def split_words(symbol):
    """'separate the simple symbols with a single space'; 'b^\\dagger + b' is one simple symbol (Op notes)."""
    return symbol.replace(r"b^\dagger + b", r"b^\dagger+b").split(" ")


def word_power(w):
    if "^" in w and w.split("^")[0] in ("x", "p", "dx", "partialx"):
        return int(w.split("^")[1])
    return 1


class ShoRef:
    def __init__(self, nbas, omega, x0, extra):
        self.N = nbas
        self.M = M = nbas + extra
        self.omega = omega
        self.x0 = x0
        b = np.diag(np.sqrt(np.arange(1, M)), 1)
        self.b = b
        self.bd = b.T.copy()
        self.y = (b + b.T) / np.sqrt(2 * omega)
        self.x = self.y + x0 * np.eye(M)
        self.p = 1j * np.sqrt(omega / 2) * (b.T - b)
        self.ynorm = float(np.linalg.norm(self.y, 2))
        self.pnorm = float(np.linalg.norm(self.p, 2))
        self.bnorm = float(np.linalg.norm(b, 2))

    def word(self, w):
        """(big matrix, norm bound used for the tolerance scale)"""
        M = self.M
        base = w.split("^")[0]
        k = word_power(w)
        mp = np.linalg.matrix_power
        if base == "x":
            return mp(self.x, k), (abs(self.x0) + self.ynorm) ** k
        if base == "p":
            return mp(self.p, k), self.pnorm ** k
        if base in ("dx", "partialx"):
            return mp(1j * self.p, k), self.pnorm ** k
        if w == "b":
            return self.b, self.bnorm
        if w == r"b^\dagger":
            return self.bd, self.bnorm
        if w == r"b^\dagger+b":
            return self.bd + self.b, 2 * self.bnorm
        if w == r"b^\dagger-b":
            return self.bd - self.b, 2 * self.bnorm
        if w == "n":
            return self.bd @ self.b, self.bnorm ** 2
        if w == "I":
            return np.eye(M), 1.0
        raise KeyError(w)

    def symbol(self, symbol):
        """truncated product in the written order, and the tolerance scale"""
        big = np.eye(self.M, dtype=complex)
        scale = 1.0
        for w in split_words(symbol):
            m, s = self.word(w)
            big = big @ m
            scale *= max(s, 1e-300)
        out = big[: self.N, : self.N]
        return out, max(scale, 1.0)


def sho_total_power(symbol):
    return sum(word_power(w) for w in split_words(symbol))


# ------------------------------------------------------------------------------------------------
# sine DVR
# ------------------------------------------------------------------------------------------------
_GL = {}


def gauss_legendre(n=320):
    if n not in _GL:
        _GL[n] = np.polynomial.legendre.leggauss(n)
    return _GL[n]


class SineRef:
    """documented: psi_j(x) = sqrt(2/L) sin(j pi (x-x0)/L), grid x_a = x0 + a L/(N+1);
    endpoint=False: x0=xi, x_{N+1}=xf ; endpoint=True: x_1=xi, x_N=xf."""

    def __init__(self, nbas, xi, xf, endpoint):
        N = nbas
        if endpoint:
            h = (xf - xi) / (N - 1)
            x0 = xi - h
            L = (N + 1) * h
        else:
            x0 = xi
            L = xf - xi
        self.N, self.x0, self.L = N, x0, L
        self.grid = x0 + np.arange(1, N + 1) * L / (N + 1)
        t, w = gauss_legendre()
        self.xq = x0 + (t + 1) * L / 2
        self.wq = w * L / 2
        j = np.arange(1, N + 1)[:, None]
        k = j * np.pi / L
        arg = k * (self.xq[None, :] - x0)
        a = np.sqrt(2 / L)
        self.psi = [a * np.sin(arg), a * k * np.cos(arg), -a * k ** 2 * np.sin(arg)]
        a2 = np.arange(1, N + 1)
        self.V = np.sqrt(2 / (N + 1)) * np.sin(np.outer(a2, a2) * np.pi / (N + 1))
        self.xmax = max(abs(x0), abs(x0 + L))
        self.kmax = N * np.pi / L

    def xmdn(self, m, n):
        """int psi_j x^m d^n psi_k"""
        return (self.psi[0] * (self.wq * self.xq ** m)[None, :]) @ self.psi[n].T

    def scale(self, m, n):
        return max(1.0, self.xmax ** m * self.kmax ** n * 2.0)


# symbol -> (m, n, prefactor)
SINE_SYMBOLS = {
    "I": (0, 0, 1), "x": (1, 0, 1), "x^1": (1, 0, 1), "x^2": (2, 0, 1), "x^3": (3, 0, 1), "x x": (2, 0, 1),
    "x x x": (3, 0, 1), "dx": (0, 1, 1), "partialx": (0, 1, 1), "dx^2": (0, 2, 1), "dx dx": (0, 2, 1),
    "partialx^2": (0, 2, 1), "p": (0, 1, -1j), "p^2": (0, 2, -1), "x dx": (1, 1, 1), "x partialx": (1, 1, 1),
    "x^2 p^2": (2, 2, -1), "x^2 dx^2": (2, 2, 1), "x^2 dx": (2, 1, 1), "x p^2": (1, 2, -1), "x dx^2": (1, 2, 1),
    "x^3 p^2": (3, 2, -1), "x^3 dx^2": (3, 2, 1), "x^2 partialx": (2, 1, 1),
}
SINE_DVR_POTENTIAL = {"x^4": 4, "x^5": 5, "x x x x": 4}

# ------------------------------------------------------------------------------------------------
# spins / electrons
# ------------------------------------------------------------------------------------------------
PX = np.array([[0, 1], [1, 0]], dtype=complex)
PY = np.array([[0, -1j], [1j, 0]], dtype=complex)
PZ = np.array([[1, 0], [0, -1]], dtype=complex)
SPIN = {"I": np.eye(2, dtype=complex)}
for _n in ("sigma_x", "X", "x"):
    SPIN[_n] = PX
for _n in ("sigma_y", "Y", "y"):
    SPIN[_n] = PY
for _n in ("isigma_y", "iY", "iy"):
    SPIN[_n] = 1j * PY
for _n in ("sigma_z", "Z", "z"):
    SPIN[_n] = PZ
for _n in ("sigma_+", "+"):
    SPIN[_n] = (PX + 1j * PY) / 2
for _n in ("sigma_-", "-"):
    SPIN[_n] = (PX - 1j * PY) / 2
SPIN_NAMES = sorted(SPIN)


def unit(n, i, j):
    m = np.zeros((n, n))
    m[i, j] = 1.0
    return m


ELEC = {r"a^\dagger": unit(2, 1, 0), "a": unit(2, 0, 1), r"a^\dagger a": unit(2, 1, 1), "I": np.eye(2)}


# ------------------------------------------------------------------------------------------------
# dense assembly
# ------------------------------------------------------------------------------------------------

def assemble(dims, terms):
    """sum_k c_k (x)_sites M_site ; terms = [(coef, {site: matrix})] ; returns (matrix, scale)"""
    D = int(np.prod(dims))
    tot = np.zeros((D, D), dtype=complex)
    scale = 0.0
    for c, mats in terms:
        if c == 0:
            continue
        out = np.ones((1, 1), dtype=complex)
        nrm = 1.0
        for i, d in enumerate(dims):
            m = mats.get(i)
            if m is None:
                out = np.kron(out, np.eye(d))
            else:
                out = np.kron(out, m)
                nrm *= max(float(np.linalg.norm(m, 2)), 1e-300)
        tot += c * out
        scale += abs(c) * nrm
    return tot, max(scale, 1e-300)

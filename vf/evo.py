"""Helpers for the evolution checks (C09, C10, C06, C13): scheme menus, config building, dense references."""
import math

import numpy as np
from hypothesis import strategies as st

from vf import gen, chain

RK_METHODS = ["Forward_Euler", "midpoint_RK2", "Heun_RK2", "Ralston_RK2", "Kutta_RK3", "C_RK4", "38rule_RK4", "Fehlberg5",
              "RKF45", "Cash-Karp45"]
EMBEDDED = {"RKF45", "Cash-Karp45"}

# scheme families
PC = ["pc_taylor", "pc_tdrk4", "pc_tdrk"]
TDVP_EXACT = ["tdvp_ps", "tdvp_ps2", "tdvp_vmf", "tdvp_mu_vmf"]
CMF = ["tdvp_mu_cmf"]


@st.composite
def scheme_specs(draw, families=("pc", "ps", "ps2", "vmf", "cmf")):
    fam = draw(st.sampled_from(families))
    s = {"fam": fam}
    if fam == "pc":
        kind = draw(st.sampled_from(PC))
        s["kind"] = kind
        if kind == "pc_taylor":
            s["order"] = draw(st.integers(1, 6))
        elif kind == "pc_tdrk":
            s["rk"] = draw(st.sampled_from(RK_METHODS))
    elif fam in ("ps", "ps2"):
        s["kind"] = "tdvp_ps" if fam == "ps" else "tdvp_ps2"
        s["solver"] = draw(st.sampled_from(["krylov", "krylov", "RK45", "RK23"]))
    elif fam == "vmf":
        s["kind"] = draw(st.sampled_from(["tdvp_vmf", "tdvp_mu_vmf"]))
        s["force_ovlp"] = draw(st.booleans())
        s["auto_switch"] = draw(st.booleans())
    elif fam == "cmf":
        s["kind"] = "tdvp_mu_cmf"
        s["variant"] = draw(st.sampled_from(["first", "midpoint", "trapz"]))
        s["solver"] = draw(st.sampled_from(["krylov", "RK45", "RK23"]))
        s["force_ovlp"] = draw(st.booleans())
    return s


def make_evolve_config(s, adaptive=False, guess_dt=None, adaptive_rtol=1e-5, tight=True):
    from renormalizer.utils import EvolveConfig, EvolveMethod

    kind = s["kind"]
    kw = {}
    if tight:
        kw.update(ivp_rtol=1e-9, ivp_atol=1e-11)
    if kind == "pc_taylor":
        cfg = EvolveConfig(EvolveMethod.prop_and_compress, adaptive=adaptive, taylor_order=s["order"], **kw)
    elif kind == "pc_tdrk4":
        cfg = EvolveConfig(EvolveMethod.prop_and_compress_tdrk4, **kw)
    elif kind == "pc_tdrk":
        cfg = EvolveConfig(EvolveMethod.prop_and_compress_tdrk, adaptive=adaptive, rk_solver=s["rk"], **kw)
    elif kind in ("tdvp_ps", "tdvp_ps2"):
        cfg = EvolveConfig(getattr(EvolveMethod, kind), adaptive=adaptive, ivp_solver=s.get("solver", "krylov"), **kw)
    elif kind in ("tdvp_vmf", "tdvp_mu_vmf"):
        cfg = EvolveConfig(getattr(EvolveMethod, kind), force_ovlp=s.get("force_ovlp", True), **kw)
        cfg.vmf_auto_switch = s.get("auto_switch", True)
    elif kind == "tdvp_mu_cmf":
        cfg = EvolveConfig(EvolveMethod.tdvp_mu_cmf, adaptive=adaptive, ivp_solver=s.get("solver", "krylov"),
                           force_ovlp=s.get("force_ovlp", True), **kw)
        v = s.get("variant", "midpoint")
        cfg.tdvp_cmf_midpoint = v in ("midpoint", "trapz")
        cfg.tdvp_cmf_c_trapz = v == "trapz"
    else:
        raise ValueError(kind)
    if guess_dt is not None:
        cfg.guess_dt = guess_dt
    cfg.adaptive_rtol = adaptive_rtol
    return cfg


def expm_apply(H, v, z):
    """exp(z*H) v for Hermitian H via eigendecomposition"""
    w, u = np.linalg.eigh((H + H.conj().T) / 2)
    v = np.asarray(v)
    e = np.exp(z * w)
    if v.ndim == 2:  # density-operator form: the propagator acts on the ket (row) index
        e = e[:, None]
    return u @ (e * (u.conj().T @ v))


def stability_poly_apply(a, b, A, v):
    """one explicit RK step for y' = A y (time independent, step 1 absorbed in A) computed by stage recursion"""
    s = len(b)
    ks = []
    for i in range(s):
        yi = v.copy().astype(complex)
        for j in range(i):
            if a[i][j] != 0:
                yi = yi + a[i][j] * ks[j]
        ks.append(A @ yi)
    out = v.astype(complex)
    for i in range(s):
        out = out + b[i] * ks[i]
    return out


def taylor_apply(A, v, order):
    out = v.astype(complex)
    term = v.astype(complex)
    for k in range(1, order + 1):
        term = A @ term / k
        out = out + term
    return out


def rk4_apply(A, v):
    k1 = A @ v
    k2 = A @ (v + 0.5 * k1)
    k3 = A @ (v + 0.5 * k2)
    k4 = A @ (v + k3)
    return v + (k1 + 2 * k2 + 2 * k3 + k4) / 6


def schmidt_ranks(vec, dims, rel=1e-9):
    out = []
    nrm = max(np.linalg.norm(vec), 1e-300)
    for c in range(1, len(dims)):
        s = np.linalg.svd(np.asarray(vec).reshape(int(np.prod(dims[:c])), -1), compute_uv=False)
        out.append(int(np.sum(s > rel * nrm)))
    return out


RK4_A = [[0, 0, 0, 0], [0.5, 0, 0, 0], [0, 0.5, 0, 0], [0, 0, 1, 0]]


def rk_stage_min_norm(a, A, v):
    """smallest norm among the stage derivatives k_i = A y_i and the stage states y_i of an explicit RK step
    (the library represents each of them as a tensor network and refuses exactly vanishing ones)"""
    ks = []
    m = np.inf
    for i in range(len(a)):
        yi = v.astype(complex)
        for j in range(i):
            if a[i][j] != 0:
                yi = yi + a[i][j] * ks[j]
        ks.append(A @ yi)
        m = min(m, np.linalg.norm(yi), np.linalg.norm(ks[-1]))
    return m

"""Stand-in for the third-party ``print_tree`` package, which is absent from this image.

``renormalizer.tn.treebase`` imports it only to pretty-print a tree
(``print_as_tree``).  Nothing of the tensor-network logic depends on it; the shim merely
makes ``import renormalizer.tn`` possible so that the tn package can be tested.
"""


class print_tree:  # noqa: N801  (name dictated by the package)
    def __init__(self, root=None, *args, **kwargs):
        self.root = root
        self.rows = []
        if root is not None:
            self._walk(root, 0)

    def get_children(self, node):
        return []

    def get_node_str(self, node):
        return str(node)

    def _walk(self, node, depth):
        self.rows.append("  " * depth + self.get_node_str(node))
        for c in self.get_children(node):
            self._walk(c, depth + 1)
